"""Sanitizer legs (Miri, TSan, libFuzzer/ASan, valgrind) of bin/check. Each returns
{'leg', 'executions', 'violations': [...], 'inconclusive': reason|None, ...counters}."""


def run_leg(leg, pid, tier, seed, scale, wdir):
    return {'leg': leg, 'inconclusive': 'leg not implemented'}
