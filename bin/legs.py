"""Sanitizer legs of bin/check (thorough tier): Miri, ThreadSanitizer, AddressSanitizer builds of the harness, libFuzzer.
Each returns {'leg', 'executions', 'violations': [...], 'inconclusive': reason|None, ...counters}. A sanitizer report is a
violation; a build failure or a timeout of the leg itself is inconclusive (never a violation)."""
import os
import re
import subprocess
import time
from concurrent.futures import ThreadPoolExecutor

VERIF = os.path.dirname(os.path.dirname(os.path.abspath(__file__)))
WORK = os.path.join(VERIF, 'work')
HARNESS = os.path.join(VERIF, 'harness')
TARGET = 'x86_64-unknown-linux-gnu'


def _env(**kw):
    e = dict(os.environ, CARGO_NET_OFFLINE='true')
    e.update(kw)
    return e


def _run(cmd, env, timeout, cwd=HARNESS):
    t0 = time.time()
    try:
        p = subprocess.run(cmd, cwd=cwd, env=env, stdout=subprocess.PIPE, stderr=subprocess.STDOUT, timeout=timeout)
        return p.returncode, p.stdout.decode('utf-8', 'replace'), time.time() - t0
    except subprocess.TimeoutExpired as e:
        return None, (e.stdout or b'').decode('utf-8', 'replace'), time.time() - t0


# ---------------------------------------------------------------------------------------------- Miri

def miri(pid, tier, seed, scale, wdir):
    """cargo +nightly miri run on `tvh miri <ID> <seed> <ops>`: reduced deterministic workloads, several processes with
    different workload seeds and Miri scheduler seeds."""
    res = {'leg': 'miri', 'executions': 0, 'violations': [], 'inconclusive': None, 'processes': 0, 'miri_seeds': []}
    tdir = os.path.join(WORK, 'target-miri')
    ops = {'C01': 8, 'C07': 16, 'C14': 12, 'C17': 24, 'C18': 12}.get(pid, 10)
    ops = max(2, int(ops * scale))
    nproc = 12 if pid != 'C18' else 16
    base = ['cargo', '+nightly', 'miri', 'run', '--offline', '--']
    flags = '-Zmiri-disable-isolation'
    # build once (and smoke-run one operation) so that the parallel runs only interpret
    rc, out, dt = _run(base + ['miri', pid, str(seed), '1'], _env(CARGO_TARGET_DIR=tdir, MIRIFLAGS=flags), 1800)
    res['build_and_smoke_s'] = round(dt, 1)
    if rc is None:
        res['inconclusive'] = 'miri build/smoke run timed out'
        return res
    if rc != 0 and 'MIRI-SUITE' not in out and not re.search(r'Undefined Behavior|Data race|error: unsupported', out):
        res['inconclusive'] = 'miri build failed: ' + out[-600:]
        return res

    def one(i):
        mflags = flags + ' -Zmiri-seed=%d' % (seed * 100 + i)
        if pid == 'C18':
            mflags += ' -Zmiri-preemption-rate=%s' % ['0.01', '0.05', '0.1', '0.2'][i % 4]
        return i, _run(base + ['miri', pid, str(seed * 1000 + i), str(ops)], _env(CARGO_TARGET_DIR=tdir, MIRIFLAGS=mflags), 3600)

    with ThreadPoolExecutor(nproc) as ex:
        for i, (rc, out, dt) in ex.map(one, range(nproc)):
            res['processes'] += 1
            res['miri_seeds'].append(seed * 100 + i)
            m = re.search(r'MIRI-SUITE \S+ seed=\d+ operations=(\d+)', out)
            if m:
                res['executions'] += int(m.group(1))
            if rc is None:
                res['inconclusive'] = 'a miri process timed out'
            elif rc != 0:
                kind = 'data-race' if 'Data race' in out else ('undefined-behaviour' if 'Undefined Behavior' in out else ('assertion' if 'panicked' in out else 'error'))
                first = re.search(r'(error: .*|thread .* panicked.*)', out)
                frame = re.search(r'--> (/repo/\S+)', out)
                res['violations'].append({
                    'signature': '%s/miri/%s/%s' % (pid, kind, (frame.group(1).split('/repo/')[-1] if frame else 'unknown')),
                    'message': 'Miri reported %s while interpreting `tvh miri %s %d %d` (miri seed %d): %s' % (kind, pid, seed * 1000 + i, ops, seed * 100 + i, (first.group(1) if first else out[-400:])[:500]),
                    'replay': {'command': 'cd /verif/harness && MIRIFLAGS="%s -Zmiri-seed=%d" cargo +nightly miri run --offline -- miri %s %d %d' % (flags, seed * 100 + i, pid, seed * 1000 + i, ops), 'output_tail': out[-1500:]},
                })
    if res['executions'] == 0 and not res['violations']:
        res['inconclusive'] = res['inconclusive'] or 'miri executed nothing'
    return res


# ---------------------------------------------------------------------------------------------- TSan / ASan builds of the harness

def _sanitizer_build(kind):
    tdir = os.path.join(WORK, 'target-' + kind)
    flags = {'tsan': '-Zsanitizer=thread', 'asan': '-Zsanitizer=address -Cforce-frame-pointers=yes'}[kind]
    cmd = ['cargo', '+nightly', 'build', '--release', '--offline', '--target', TARGET]
    if kind == 'tsan':
        cmd += ['-Zbuild-std']
    rc, out, dt = _run(cmd, _env(CARGO_TARGET_DIR=tdir, RUSTFLAGS=flags), 3600)
    return rc, out, dt, os.path.join(tdir, TARGET, 'release', 'tvh')


def _sanitizer_run(kind, pid, tier, seed, scale, wdir, shards, shard_scale, extra_env):
    res = {'leg': kind, 'executions': 0, 'violations': [], 'inconclusive': None, 'reports': 0}
    rc, out, dt, binp = _sanitizer_build(kind)
    res['build_s'] = round(dt, 1)
    if rc != 0 or not os.path.exists(binp):
        res['inconclusive'] = '%s build failed: %s' % (kind, out[-600:])
        return res
    logbase = os.path.join(wdir, kind + '-log')
    for f in os.listdir(wdir):
        if f.startswith(kind + '-'):
            os.remove(os.path.join(wdir, f))

    def one(i):
        outp = os.path.join(wdir, '%s-shard-%d.json' % (kind, i))
        env = _env(**extra_env)
        opt = 'TSAN_OPTIONS' if kind == 'tsan' else 'ASAN_OPTIONS'
        env[opt] = env.get(opt, '') + ':log_path=%s.%d' % (logbase, i)
        cmd = [binp, 'run', pid, '--tier', 'quick', '--seed', str(seed + 7), '--scale', str(shard_scale), '--shard', str(i), '--nshards', str(shards), '--out', outp,
               '--mem-mb', '0', '--stack-mb', '4096', '--case-budget-ms', '600000']
        return i, _run(cmd, env, 3 * 3600, cwd=VERIF), outp

    import json
    with ThreadPoolExecutor(shards) as ex:
        for i, (rc, out, dt), outp in ex.map(one, range(shards)):
            try:
                rep = json.load(open(outp))
                res['executions'] += rep['evaluations']
                # behavioural violations under the sanitizer build count too
                for v in rep['violations'][:3]:
                    res['violations'].append({'signature': v['signature'], 'message': '[under %s] %s' % (kind, v['message']), 'case': v['case'], 'replay': v['replay']})
            except Exception:
                if rc is None:
                    res['inconclusive'] = '%s shard timed out' % kind
                elif rc not in (0, 66, 1):
                    res['inconclusive'] = '%s shard %d exited with %s: %s' % (kind, i, rc, out[-300:])
    # count and de-duplicate report blocks by their first in-repo frame
    seen = {}
    for f in sorted(os.listdir(wdir)):
        if not f.startswith(kind + '-log'):
            continue
        txt = open(os.path.join(wdir, f), errors='replace').read()
        for block in re.split(r'(?=WARNING: ThreadSanitizer|ERROR: AddressSanitizer)', txt):
            if not block.startswith(('WARNING: ThreadSanitizer', 'ERROR: AddressSanitizer')):
                if 'FATAL' in block[:200]:
                    res['inconclusive'] = 'sanitizer runtime failure: ' + block[:200]
                continue
            head = block.splitlines()[0][:160]
            if 'stack-overflow' in head:
                # an instrumented frame is several times the size of an optimised one: depth is judged by the
                # supervised optimised build (8 MiB), not here; the shard that died is reported as incomplete
                res['stack_overflows_under_sanitizer'] = res.get('stack_overflows_under_sanitizer', 0) + 1
                res['inconclusive'] = res['inconclusive'] or ('a %s shard overflowed its 4 GiB stack (%s): its remaining cases did not run' % (kind, head[:80]))
                continue
            res['reports'] += 1
            frame = re.search(r'(/repo/\S+?:\d+)', block)
            key = (re.sub(r'\(pid=\d+\)', '', head), frame.group(1) if frame else 'unknown')
            seen.setdefault(key, block[:2500])
    for (head, frame), block in list(seen.items())[:5]:
        res['violations'].append({
            'signature': '%s/%s/%s' % (pid, kind, frame.split('/repo/')[-1]),
            'message': '%s report: %s (first in-repo frame %s)' % (kind, head, frame),
            'replay': {'report': block},
        })
    return res


def tsan(pid, tier, seed, scale, wdir):
    return _sanitizer_run('tsan', pid, tier, seed, scale, wdir, shards=4, shard_scale=max(0.05, 0.3 * scale),
                          extra_env={'TSAN_OPTIONS': 'halt_on_error=0:report_signal_unsafe=0'})


def asan(pid, tier, seed, scale, wdir):
    return _sanitizer_run('asan', pid, tier, seed, scale, wdir, shards=8, shard_scale=max(0.05, 0.5 * scale),
                          extra_env={'ASAN_OPTIONS': 'detect_leaks=0:abort_on_error=0:halt_on_error=1:detect_stack_use_after_return=0'})


# ---------------------------------------------------------------------------------------------- libFuzzer

def fuzz(pid, tier, seed, scale, wdir):
    """cargo-fuzz (libFuzzer + ASan) on /verif/fuzz targets; crashes/timeouts are violations with the artifact as replay."""
    res = {'leg': 'fuzz-asan', 'executions': 0, 'violations': [], 'inconclusive': None}
    fdir = os.path.join(VERIF, 'fuzz-crate')
    target = {'C06': 'add_and_render_str', 'C07': 'add_then_render'}.get(pid)
    if not target or not os.path.isdir(fdir):
        res['inconclusive'] = 'no fuzz target for %s' % pid
        return res
    tdir = os.path.join(WORK, 'target-fuzz')
    corpus = os.path.join(WORK, 'fuzz-corpus', target)
    arts = os.path.join(WORK, 'fuzz-artifacts', target)
    os.makedirs(corpus, exist_ok=True)
    os.makedirs(arts, exist_ok=True)
    # seed corpus: the repository's own snapshot inputs
    if not os.listdir(corpus):
        n = 0
        for root, _, files in os.walk('/repo/tera/src/snapshot_tests'):
            for f in files:
                if f.endswith('.txt') and n < 600:
                    try:
                        open(os.path.join(corpus, 'seed-%d' % n), 'wb').write(open(os.path.join(root, f), 'rb').read())
                        n += 1
                    except Exception:
                        pass
    secs = int(max(30, 240 * scale))
    env = _env(CARGO_TARGET_DIR=tdir)
    env.pop('CARGO_NET_OFFLINE', None)  # cargo fuzz rejects --offline; the config file keeps it offline
    env['CARGO_NET_OFFLINE'] = 'true'
    rc, out, dt = _run(['cargo', '+nightly', 'fuzz', 'build', target], env, 3600, cwd=os.path.join(VERIF, 'fuzz-crate'))
    res['build_s'] = round(dt, 1)
    if rc != 0:
        res['inconclusive'] = 'cargo fuzz build failed: ' + out[-600:]
        return res
    cmd = ['cargo', '+nightly', 'fuzz', 'run', target, corpus, '--', '-max_total_time=%d' % secs, '-timeout=10', '-fork=16', '-seed=%d' % seed,
           '-max_len=65536', '-dict=' + os.path.join(VERIF, 'fuzz-crate', 'tera.dict'), '-artifact_prefix=' + arts + '/', '-ignore_ooms=1', '-rss_limit_mb=4096']
    rc, out, dt = _run(cmd, env, secs + 600, cwd=os.path.join(VERIF, 'fuzz-crate'))
    res['run_s'] = round(dt, 1)
    m = re.findall(r'#(\d+): cov: (\d+)', out)
    if m:
        res['executions'] = int(m[-1][0])
        res['coverage_edges'] = int(m[-1][1])
    found = [f for f in os.listdir(arts) if f.startswith(('crash-', 'timeout-', 'oom-'))]
    # A libFuzzer timeout is a wall-clock event: nested loops over long strings are minutes of legitimate rendering. Only a
    # *registration* that takes long is a verdict (parsing is not supposed to depend on anything but the input size), so
    # every timeout artifact is replayed through `tvh regtime` (registration only); slow renders are counted, not reported.
    tvh = os.path.join(WORK, 'target', 'release', 'tvh')
    slow_renders = 0
    confirmed = []
    for f in sorted(found):
        if not f.startswith('timeout-'):
            continue
        try:
            p = subprocess.run([tvh, 'regtime', os.path.join(arts, f)], capture_output=True, text=True, timeout=180)
            m = re.search(r'REGTIME ms=(\d+)', p.stdout)
            ms = int(m.group(1)) if m else None
        except subprocess.TimeoutExpired:
            ms = 180000
        if ms is not None and ms >= 20000:
            confirmed.append(f)
        else:
            slow_renders += 1
    res['slow_renders_not_reported'] = slow_renders
    found = [f for f in found if f.startswith('crash-')] + confirmed
    for f in sorted(found)[:5]:
        if f.startswith('oom-'):
            continue
        data = open(os.path.join(arts, f), 'rb').read()
        res['violations'].append({
            'signature': '%s/fuzz/%s' % (pid, f.split('-')[0]),
            'message': 'libFuzzer %s on target %s: input %r' % (f.split('-')[0], target, data[:300]),
            'replay': {'artifact': os.path.join(arts, f), 'command': 'cd /verif/fuzz-crate && cargo +nightly fuzz run %s %s' % (target, os.path.join(arts, f))},
        })
    if res['executions'] == 0 and not res['violations']:
        res['inconclusive'] = 'libFuzzer executed nothing: ' + out[-400:]
    return res


LEGS = {'miri': miri, 'tsan': tsan, 'asan': asan, 'fuzz': fuzz}


def run_leg(leg, pid, tier, seed, scale, wdir):
    try:
        return LEGS[leg](pid, tier, seed, scale, wdir)
    except Exception as e:  # a leg that cannot run is inconclusive, never a violation
        return {'leg': leg, 'inconclusive': 'leg failed to run: %r' % (e,), 'violations': []}
