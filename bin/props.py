"""Per-property configuration of bin/check: claimed level, the rule that makes a case distinct and non-trivial,
offline oracle module, sanitizer legs per tier, monitors that must have fired."""

COMMON_ASSUMPTIONS = [
    "verdict build: harness + tera compiled with opt-level=2, overflow-checks=on, debug-assertions=off, hooks feature `verif-hooks` on",
    "workload threads have an 8 MiB stack (the Linux main-thread default); stack-depth verdicts hold for that size and build profile",
    "a green run means: held on the executions counted here, nothing more",
]

HOOK_COMMITS = ['e1f8ec1']

ENGINES = [
    {'name': 'tvh', 'path': '/verif/harness', 'serves_properties': ['C%02d' % i for i in range(1, 21)],
     'kind_free_text': 'Rust harness that runs the real tera/tera-contrib code (hooks on) under generated, hostile workloads in supervised '
                       'child processes, with monitors: panic recorder, reference models, law checkers, event logs; python3 driver bin/check '
                       'with offline oracles (/verif/oracles) over the recorded logs'},
]

# reason given in MANIFEST.not_applicable for properties without a check
NOT_CLAIMED = {}

PROPS = {
    'C13': {
        'level': 'exploration',
        'technique': 'offline exact-arithmetic checker (Python ints/Fractions) over a recorded event log of real renders; complete boundary grid + random pairs near boundaries',
        'claim': 'Every record of the complete boundary grid (185 values in every representation able to hold them, squared, x 13 operators and negation) '
                 'and of random pairs within +-3 of a boundary is decided against exact arithmetic; this is the right level because the property is a pure '
                 'function of two numbers whose interesting points are the width/representation boundaries, which the grid enumerates completely.',
        'note': 'trusts Python integer/Fraction arithmetic and IEEE doubles; float ** within 4 ulp of libm; operands reach the engine as context values or literals only',
        'oracle': 'o_numbers',
        'rule': "every render of `{{ a OP b }}` / `{{ -a }}` (a, b context values in a stated representation, or literals) is one evaluation, "
                "logged and decided offline by exact Python integers/fractions; a cell = (operator, representation and magnitude class of a, "
                "representation and magnitude class of b); the boundary grid (every pool value x every pool value x 13 operators) is enumerated completely in both tiers",
        'exhaustive': 'the boundary grid is complete; the random batches near boundaries are sampled',
        'assumptions': ["float ** is compared with libm pow within 4 ulp; float // and % are checked by the Euclidean identities within 2 ulp of |b|",
                        "`/` accepts both float(a)/float(b) and the correctly rounded exact quotient"],
        'must_observe': ['grid_rows'],
    },
}
