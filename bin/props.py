"""Per-property configuration of bin/check: claimed level, the rule that makes a case distinct and non-trivial,
offline oracle module, sanitizer legs per tier, monitors that must have fired."""

COMMON_ASSUMPTIONS = [
    "verdict build: harness + tera compiled with opt-level=2, overflow-checks=on, debug-assertions=off, hooks feature `verif-hooks` on",
    "workload threads have an 8 MiB stack (the Linux main-thread default); stack-depth verdicts hold for that size and build profile",
    "a green run means: held on the executions counted here, nothing more",
]

HOOK_COMMITS = ['e1f8ec1', '9c7fb30']

ENGINES = [
    {'name': 'tvh', 'path': '/verif/harness', 'serves_properties': ['C%02d' % i for i in range(1, 21)],
     'kind_free_text': 'Rust harness that runs the real tera/tera-contrib code (hooks on) under generated, hostile workloads in supervised '
                       'child processes, with monitors: panic recorder, reference models, law checkers, event logs; python3 driver bin/check '
                       'with offline oracles (/verif/oracles) over the recorded logs'},
]

# reason given in MANIFEST.not_applicable for properties without a check
NOT_CLAIMED = {}

PROPS = {
    'C13': {
        'scale': {'quick': 5, 'thorough': 3},
        'level': 'exploration',
        'technique': 'offline exact-arithmetic checker (Python ints/Fractions) over a recorded event log of real renders; complete boundary grid + random pairs near boundaries',
        'claim': 'Every record of the complete boundary grid (185 values in every representation able to hold them, squared, x 13 operators and negation) '
                 'and of random pairs within +-3 of a boundary is decided against exact arithmetic; this is the right level because the property is a pure '
                 'function of two numbers whose interesting points are the width/representation boundaries, which the grid enumerates completely. A power grid (bases -12..12 and +-2^k with neighbours for 11 values of k, against every exponent 0..130, in rotating representations) decides where `**` must still give the exact result and where it must fail, base by base.',
        'note': 'trusts Python integer/Fraction arithmetic and IEEE doubles; float ** within 4 ulp of libm; operands reach the engine as context values or literals only',
        'oracle': 'o_numbers',
        'rule': "every render of `{{ a OP b }}` / `{{ -a }}` (a, b context values in a stated representation, or literals) is one evaluation, "
                "logged and decided offline by exact Python integers/fractions; a cell = (operator, representation and magnitude class of a, "
                "representation and magnitude class of b); the boundary grid (every pool value x every pool value x 13 operators) is enumerated completely in both tiers",
        'exhaustive': 'the boundary grid is complete; the random batches near boundaries are sampled',
        'assumptions': ["float ** is compared with libm pow within 4 ulp; float // and % are checked by the Euclidean identities within 2 ulp of |b|",
                        "`/` accepts both float(a)/float(b) and the correctly rounded exact quotient"],
        'must_observe': ['grid_rows'],
    },
    'C14': {
        'scale': {'quick': 6, 'thorough': 10},
        'legs': {'thorough': ['miri']},
        'level': 'exploration',
        'technique': "offline checker using Python's own list/str slice semantics over a recorded event log of real renders; complete grid of lengths x parameter triples",
        'claim': 'For lengths 0-8 and 12, arrays and multi-byte strings, every index and every (start, stop, step) triple over a parameter set '
                 '{absent, 0, +-1..+-(len+2), +-100, i64/i128 extremes, u64/u128 values} is rendered through the matching syntactic form and compared with '
                 "Python's answer; character-wise string operations (length, reverse, truncate, iteration, index, slices) on random hostile Unicode strings are compared with "
                 'Python code-point semantics. The grid is complete, so a break of clamping, sign handling or byte/char confusion shows within one run. One random container in eight and one hostile string in six have a length around a power of two (15-17, 23-25, 31-33, 63-65, 127-129, 255-257, 300).',
        'note': "trusts CPython list/str slicing; undefined is observed through `| default`; a slice parameter above i128::MAX may be an error (engine integers are i128) but never a wrong selection; the undocumented spellings `x.0` and `x[a:b:]` are not generated",
        'oracle': 'o_slices',
        'rule': "one evaluation = one render of an index/slice/string-operation template; a cell = (record type, container kind, length, syntactic form, spelling, "
                "sign/bound class of each parameter relative to the length); the grid part is enumerated completely in both tiers",
        'exhaustive': 'lengths {0..8,12} x {array,string} x all parameter triples of the set; random part (literal spellings, none-as-absent, chained slices, string operations) is sampled',
        'must_observe': ['grid_cells_completed'],
    },
    'C20': {
        'scale': {'quick': 6, 'thorough': 4},
        'level': 'exploration',
        'technique': "offline checker using Python's base64, urllib.parse, json and re over a recorded event log of real renders with the contrib filters registered",
        'claim': 'Every single ASCII byte, punctuation runs, strings of all planes, lengths mod 3 and 3-12 kB strings go through all 9 spellings of the b64 options, the round trip, '
                 'both urlencode forms, slug and json_encode (random values of every kind without non-finite floats); the decoder is also fed well-formed and malformed text. '
                 'Python decides alphabet, padding, losslessness, JSON validity and data equality (type-aware, big integers exact).',
        'note': "trusts CPython's base64/urllib/json; for the decoder, non-canonical trailing bits / partial padding may be accepted or rejected, but a bad character, an impossible length or a non-UTF-8 payload must be an error; JSON maps whose stringified keys collide are not generated",
        'oracle': 'o_codecs',
        'rule': "one evaluation = one render of a codec template; a cell = (filter and option spelling, input class [empty/alnum/ascii-punct/unicode/long], length mod 3 or 4, accepted/rejected, value kind and depth for json)",
        'must_observe': [],
    },
    'C15': {
        'scale': {'quick': 6, 'thorough': 12},
        'level': 'exploration',
        'technique': 'law checker over recorded observations of the public Eq/PartialOrd/Ord of tera::Value (all pairs and triples of a value pool) and of template comparisons; key-lookup monitor against an association-list model',
        'claim': 'The base pool (143 values: every kind, every number in every encoding able to hold it, safe/normal strings, nested and near-equal arrays and maps) is checked '
                 'exhaustively for reflexivity, symmetry, transitivity of ==, antisymmetry/transitivity/totality of cmp, Equal=>==, ==>Equal, congruence, partial_cmp=>cmp, '
                 'agreement of == with structural/mathematical equality and of the scalar order with exact arithmetic; random pools repeat this with generated values. '
                 'Key lookups through 9 access paths are compared with a model keyed by mathematical equality, on maps of 0-16 entries straddling the scan/hash cutoff. The same text built through 11 construction paths (context string, owned key handed back by a loop / keys / pairs, safe mark, concatenation, slice, case round trip, capture, map entry) at every byte length 0-48 (around the inline/heap boundary of the string type) must be equal, ordered as equal, found in arrays and maps and one class for unique, pairwise. One lookup map in sixteen has 17-257 entries (around powers of two). Array membership (`a in xs`, `a not in xs`) must agree with `some element equals a` for needles taken from the array in another integer encoding or from the pool, on arrays of 0-96 elements.',
        'note': 'the model equality/order is separate code written from the documentation; arrays have no documented order, only the laws are asserted for them; float probes into maps are not generated (undocumented)',
        'rule': "one evaluation = one pair comparison, one triple law instance or one rendered lookup/comparison; a cell = (pair of value kinds) for the laws, "
                "(access path, probe key kind, scan/hash size class, present/absent) for lookups, (kinds, ok/err) for template comparisons",
        'exhaustive': 'all pairs and triples of the base pool; random pools and lookup maps are sampled',
        'must_observe': ['base_pool_completed', 'lookups', 'triples', 'string_representation_pairs', 'non_key_needles'],
    },
    'C16': {
        'scale': {'quick': 2, 'thorough': 3},
        'level': 'exploration',
        'technique': 'in-harness contract checker over real renders: unique element ids make permutation, stability, first-occurrence and partition checks exact; model equality/order written from the docs',
        'claim': 'Arrays of 0-200 elements (around and beyond the 20-element merge threshold of slice::sort) over mixed kinds, duplicates across numeric encodings, nested arrays/maps, none and '
                 'missing attributes go through sort (plain, attribute, dotted and tuple paths), unique, group_by, first/last/nth/reverse/join/split/keys/values/pairs; every output is checked against '
                 'the contract (permutation, non-decreasing, stable, refusal of incomparable keys, first representatives, partition, identities). Panics are recorded, CPU budget per case. `reverse` of strings is checked by characters (and is an involution). Keys include the same numbers in every integer width (the band 2^63..2^64 among them) and sets of prefix-sharing arrays, for which refusal is demanded pairwise.',
        'note': 'sort order of array-valued keys uses the engine order (whose lawfulness C15 checks) because the docs and the code disagree on it; a missing attribute may be an error or be discarded',
        'rule': "one evaluation = one render of a collection-filter template; a cell = (filter template, mix of key kinds in the array, length class [0,1,small,merge,large], ok/err)",
        'must_observe': ['sorts_verified', 'uniques_verified', 'group_bys_verified', 'nth_verified', 'hostile_attribute_paths'],
    },
    'C17': {
        'scale': {'quick': 10, 'thorough': 12},
        'legs': {'thorough': ['miri']},
        'level': 'exploration',
        'technique': 'matrix enumeration with a panic recorder (55 built-ins x 57 receivers x declared-argument states absent/right/wrong kind) + per-built-in contract oracles on random hostile strings and numbers',
        'claim': 'The full matrix is enumerated in both tiers: every built-in with every receiver of the pool, each declared argument absent, of the right kind at boundary values and of each wrong kind, '
                 'argument pairs for multi-argument built-ins, and undeclared argument names; no panic, valid UTF-8, missing required and mistyped arguments must be errors. '
                 'Contract laws (case filters, trim*, truncate, replace, indent, newlines_to_br, escape_*, int/float/abs/str/round, default, range, type-test partition, odd/even, pluralize) run on random inputs. Order-independence pass: every built-in, with no argument and with each optional or sole required argument, over 36 neighbouring values (sub- and supersets of maps and arrays, numbers equal up to representation, strings sharing prefixes or differing in a trailing NUL) forwards, backwards, again and twice in a row: each result must equal the first one obtained for that value. `reverse` of bytes gives the reversed bytes (equality, involution, length, printed text); `n is divisible_by(0)` is false or refused for every n but zero. `indent` is also rendered with width, first and blank taken from the context (widths 0-9, powers of two and neighbours, every multiple of 64 up to 960, anything up to 1000) against the same line-wise law.',
        'note': 'case-mapping laws are asserted on scripts with 1:1 case maps only; documented ambiguities are accepted both ways (entity spelling of the apostrophe, pluralize of -1, indent of whitespace-only lines / blank first line, range with start > end); round tolerates one unit of the requested place',
        'rule': "one evaluation = one render; a cell = (built-in, receiver kind, argument name:state:argument kind, ok/err) for the matrix and (law family, input class) for the laws",
        'exhaustive': 'the built-in x receiver x argument-state matrix is complete; law inputs are sampled',
        'must_observe': ['matrix_builtins_completed', 'string_law_cases', 'number_law_cases', 'ranges_at_the_size_cap', 'order_independence_comparisons'],
    },
    'C08': {
        'scale': {'quick': 5, 'thorough': 5},
        'level': 'exploration',
        'technique': 'specification monitor: templates generated as item lists (text, expression, every tag kind, comments, raw) with all `-` marker placements; expected output computed from the list alone and compared with real renders; identity and re-spelling metamorphism over accepted delimiter sets',
        'claim': 'Each generated template is rendered under the default and random accepted delimiter sets (ASCII pairs, two-byte characters, mixed) and compared byte for byte with the 60-line item specification; '
                 'texts cover every whitespace kind, partial delimiters and characters sharing UTF-8 bytes with two-byte delimiters; every tag kind (set, if/elif/else, for/else, filter, set-block, block, include, component calls, raw inner/outer, comments) carries random markers, nested 3 deep. '
                 'One case in eight checks that a source without start delimiter renders to itself; one in three renders the same item list under three delimiter sets.',
        'note': "whitespace = char::is_whitespace (shared with the engine's trim); delimiter sets of the specification class contain no `-`, whitespace, quote, identifier or operator character and six pairwise distinct members; texts whose concatenation with the next delimiter would move the first start delimiter are rejected as ambiguous (counted)",
        'rule': "one evaluation = one render of a spelled item list (or identity source); a cell = (left neighbour kind, its right marker, text-or-raw and its whitespace class, right neighbour's left marker, right neighbour kind), plus identity cells by delimiter class",
        'must_observe': ['templates_compared', 'identity_checks', 'respelling_groups'],
    },
    'C06': {
        'scale': {'quick': 8, 'thorough': 2},
        'legs': {'thorough': ['asan', 'fuzz']},
        'level': 'exploration',
        'technique': 'totality monitor: panic recorder + supervised child processes (stack overflow/abort attribution) + per-case CPU watchdog over nesting sweeps, length sweeps, corpus mutation, token soup and accepted delimiter sets',
        'claim': 'add_raw_template and render_str are fed (1) every recursive construct nested 1..60 deep and far beyond the limits, (2) every loop-parsed construct chained 10^2..10^4 (quick) / 10^6 (thorough) times, '
                 '(3) token-level mutations (drop, duplicate, swap, truncate at any byte, wrong end names, multi-byte characters next to delimiters) of the repository\'s own snapshot inputs, (4) delimiter-rich token soup, '
                 '(5) random delimiter sets (ASCII pairs, two-byte characters, members equal to each other or containing `-`/quotes/`%`; one in five with a member of the wrong size, which set_delimiters must refuse or else cope with) with texts built from the members of every accepted set, (6) hostile template names, (7) huge numeric literals. '
                 'Any panic, process death or CPU-budget overrun (confirmed alone with a 10x budget) is a violation; every error is also formatted with Display. Eight more chain kinds have operands that open a nested parse of their own (brace and spread attributes of inline component calls, parentheses, literals, calls, filter arguments, subscripts with expressions).',
        'note': 'non-termination is decided as bounded progress: 20 s of CPU per case (sources <= 4 MB), re-run alone with 200 s before it counts; stack verdicts hold for an 8 MiB stack and the optimised verdict build',
        'rule': "one evaluation = one source registered (and rendered as a one-off string unless it calls range); a cell = (family or construct, depth/length class, accepted/rejected)",
        'must_observe': ['nesting_sweep_points', 'length_sweep_points', 'accepted', 'rejected'],
        'case_budget_ms': 20000,
    },
    'C12': {
        'scale': {'quick': 6, 'thorough': 15},
        'level': 'fault_enumeration',
        'technique': 'fault injection with known coordinates + span checker: one fault of a known byte range is injected into a known template of a valid multi-template set; every datum of the error is recomputed from the source',
        'claim': '55 fault kinds (26 render-time, 16 syntax, 5 add-time references, 8 unterminated constructs) x 7 placements (entry top level, block of parent, block of child with super(), included, component body, '
                 'included of included, component called from an included template) x random multi-byte/CRLF/blank-line filler before and after, one render/build fault in four spread over several lines, in both registration orders. Checked: template name, span inside the source on '
                 'character boundaries, line/column = position of the byte range, span touches the offending token and stays inside the faulty construct, Display succeeds with `--> name:line:col` and the quoted line, '
                 'one call-site note per call site naming the calling templates in order and designating a line:column inside the call construct, with the call sites at the top level or inside filter sections, set-blocks, loops, ifs and component bodies. One case in twelve registers 2-4 faulty children in one batch (orphan top-level blocks, unknown filters/tests/functions/include targets, 1-2 per template): the combined report must hold one entry per fault, each with its own template name, line:column and quoted line. Render and build faults are also spelled under three custom delimiter sets containing two-byte characters, and reached from one-off strings; reports are read format-agnostically (every name:line:column, whatever surrounds it).',
        'note': 'the per-fault token table is kept by hand and calibrated on the pinned tree (every fault kind yields a located error there); a zero-width span on the first byte of the offending token counts as touching it; resource-limit errors (un-located Msg) are outside this property',
        'rule': "one evaluation = one injected fault; a cell = (fault class, fault kind, placement, line class [first/later line, multi-byte text before the fault on its line, column 0])",
        'must_observe': ['spans_checked_with_coordinates', 'build_reports_checked', 'display_calls', 'call_site_positions_checked', 'faults_spread_over_lines', 'multi_template_build_reports', 'faults_reached_from_one_off_strings', 'faults_under_custom_delimiters'],
    },
    'C19': {
        'scale': {'quick': 2, 'thorough': 3},
        'level': 'exploration',
        'technique': 'round-trip monitor over a family of harness-defined serde types (by value, by reference, and through filter/function argument conversion) + refusal monitor for unrepresentable keys and out-of-range arguments + print prediction by an independent model serializer',
        'claim': '72 Rust types built from the serde data model (all integer widths, f32/f64, bool, char, String, unit, Option, Vec, tuples 1-4, BTreeMap/HashMap with String/every integer width/char/bool/unit-enum keys, '
                 'named/tuple/newtype/unit structs, enums with unit/newtype/tuple/struct variants, nesting depth <= 4) are generated with boundary numbers, multi-byte text and empty/50-entry collections; each instance must '
                 'deserialize back to itself from Value and from &Value (floats by bits), print exactly what a second, independent Serializer into the model value type predicts (integers exact, maps sorted), identically through '
                 'Context::insert, insert_value(converted) and from_serialize; maps with float/tuple/struct/unit/none/bytes/seq/map keys must be refused. Context::from_serialize of top-level maps with integer/bool/char/string keys must equal inserting each entry under the text of the key, and a top level that is no map or struct must be refused. Also: types whose Serialize impl hands over a string that only lives for the call (Ipv6Addr, SocketAddrV6, a hex digest formatted on the stack, collect_str), alone, in sequences, tuples, map values and map keys; and the third way back — a number given in any width or as a float, read as each of the 12 integer types, f32, f64, bool and String through a registered filter receiver, a keyword argument and TryFrom<Value> (exact value when it fits, refusal otherwise, never an altered number), sequences read element-wise, and a 10-field struct passed as keyword arguments and read back with Kwargs::deserialize. The accessors of Value (as_i64, as_u64, as_i128, as_u128, as_f64) give the exact number or nothing.',
        'note': 'Option<T> is only generated for payloads that cannot themselves serialise to none (the collapse the property excludes); the model serializer shares only the serde traits with the engine',
        'rule': "one evaluation = one conversion, read-back or render; a cell = (type, by-value/by-reference) for round trips and (bad key kind, top/nested) for refusals",
        'must_observe': ['roundtrips_ok', 'print_comparisons', 'unrepresentable_keys_refused', 'top_level_maps_compared', 'non_map_top_levels_refused', 'argument_readbacks', 'argument_structs_read_back'],
    },
    'C18': {
        'scale': {'quick': 0.6, 'thorough': 1},
        'legs': {'thorough': ['miri', 'tsan']},
        'level': 'fault_enumeration',
        'technique': 'channel differential + writer fault enumeration (every write call, byte offsets, 4 failure kinds, short writes) + purity digest + concurrent-vs-sequential comparison on a shared instance; Miri and ThreadSanitizer legs in the thorough tier',
        'claim': 'For generated multi-template programs (inheritance with super(), includes, components with bodies, loops, captures, both write sinks, autoescape on) every render/render_block/render_component/render_str result is compared with the bytes '
                 'its _to variant writes; a counting writer measures the W write calls and N bytes of each successful render and a failing writer is then injected at every call index (up to 160) and at byte offsets 0, 1, N/2, N-1 and every 7th, '
                 'with kinds Other/WriteZero/Interrupted-then-error/BrokenPipe and 1-3 byte short writes: the result must be an Io error, the accepted bytes a prefix, no panic. One job per program walks maps in every way whose output depends on their order (the dump variable, a map literal with variables, group_by, keys/values/pairs, a comprehension, json_encode), so that repeat, channel and thread comparisons see order instability. A deterministic family drives all four entry points into the nesting limits (recursive components 10-41 levels deep, directly and through includes, include chains 96-158 deep): both channels must succeed with the same bytes or both fail. The hook digest of the engine and the context are compared before/after; '
                 'one program in four is rendered from 2-16 threads on a fresh shared instance (random job orders, start barrier) and compared byte for byte with the sequential reference. Context alternation: on odd cases every job is rendered with a second context (same names, other values) on the engine that rendered it with the first, and must give what a new engine gives; the first context again must give the reference. Every program carries three partials that name no ordinary variable (the context dump, a registered filter reading the State, static text) and an entry including them.',
        'note': 'Send+Sync of Tera, Context, Value, Key, Kwargs, Error, Number is a compile-time assertion in the harness (a regression is a build failure attributed to this check); data races proper are the business of the TSan/Miri legs, the quick tier only compares results',
        'rule': "one evaluation = one render or one injected failure point; a cell = (render variant, call/byte failure site, failure kind, short/full writes), (variant, ok/err) for the channel differential and the thread count for concurrency",
        'must_observe': ['channel_pairs_compared', 'failure_points_injected', 'purity_checks', 'concurrent_renders_compared', 'channel_pairs_at_nesting_limits', 'includes_from_one_off_strings_compared', 'context_alternations_compared'],
    },
    'C09': {
        'scale': {'quick': 2, 'thorough': 1.5},
        'level': 'translation_validation',
        'technique': 'translation validation of the fusion pass: structural alignment of the pre- and post-pass listings of every chunk (hooks) with jump-target checking + differential rendering with the pass switched off',
        'claim': 'For every generated program every chunk (template bodies, blocks, components) is aligned instruction by instruction with its own pre-pass listing: only `LoadName(n) LoadAttr* [WriteTop]` may be merged, '
                 '`__tera_context` never, all other instructions identical and in order, every jump (Jump, PopJumpIfFalse, JumpIfFalseOrPop, JumpIfTrueOrPop, Iterate) must land on the image of its old target and no old target may lie inside a merged group. '
                 'The same programs are compiled a second time with the pass skipped and every template, block and component is rendered under contexts where each path element is present/missing/none/of another kind/present but holding an undefined value: texts equal, Err iff Err. '
                 'Two generators: a path-heavy grammar placing variable paths next to every kind of jump, and the general program generator with path bias.',
        'note': 'the pre-pass listing is recorded by the hook inside Chunk::optimize of the same compilation (two compilations differ legitimately in the order of keyword-argument loads); the alignment trusts the Debug form of instructions',
        'rule': "one evaluation = one compilation or render; programs = accepted programs, disagreements_checked = differential renders; a cell = (jump kind, instruction kind at, after and before its target) for the structure and (generator family, ok/err) for the differential",
        'must_observe': ['chunks_aligned', 'merged_groups', 'jumps_checked', 'differential_renders', 'render_end_events'],
    },
    'C07': {
        'scale': {'quick': 2, 'thorough': 1},
        'legs': {'thorough': ['miri', 'asan', 'fuzz']},
        'level': 'exploration',
        'technique': 'totality monitor (panic recorder, supervised children, UTF-8 validator on raw render_to bytes) + hook-based stack-balance invariant at the end of every interpreter run + registry monitor (unknown names injected at every syntactic position must be rejected at registration, never discovered while rendering)',
        'claim': '(A) generated multi-template programs are rendered whole, per block and per component against contexts whose variables are rebound to ~65 hostile values (bytes incl. invalid UTF-8, 128-bit extremes, NaN/inf/-0.0, undefined inside containers, 16-element containers, 24-character strings, depth-8 nesting); '
                 '(B) 52 expression/statement shapes x all hostile operand pairs; (C) 7 kinds of unknown reference x 46 syntactic positions + 14 special positions x 6 registration modes (alone, in a child block, in an included template, in a parent, after a valid batch, one-off string) must be rejected; '
                 '(F) 49 replacement scenarios: a valid set whose component provider / parent is then replaced by a version without the referenced name must be rejected and must still render; (G) break/continue below every nesting (2-4 levels, ~1900 shapes) of for / filter section / set-block / component body / if / the else branch of an empty loop: whatever the parser decides, an accepted shape must render with balanced stacks (hook H3 read per shape) and, where the jump crosses no capture, to the text the loop semantics give; (D) depth sweeps of nested tags 1-39 and include/extends/component chains 1-32 must render; (E) recursive shapes (block inversion + super(), include of a descendant + super(), components without base case, values nested 100k deep by a template) must end with text or an error. '
                 'Hook H3 reports the (value, loop, capture) stack sizes of every successful interpreter run: fresh states must end at (0,0,0), nested runs (blocks, super()) must be balanced. Every generated component is also rendered through the API with an undefined value as a declared, a typed and an undeclared (rest) argument; four recursive shapes alternate between component calls, includes, blocks and captures.',
        'note': 'stack verdicts hold for an 8 MiB stack and the optimised verdict build; memory/time exhaustion by an accepted template is not looked for (generators cap loop products)',
        'rule': "one evaluation = one render or one registration attempt; a cell = (hostile kind, ok/err) per rebinding, (shape, kinds of v and x, outcome) for the matrix, (position, reference kind, mode) for injected references, (construct, depth class) for sweeps",
        'must_observe': ['render_end_events', 'unknown_reference_injections', 'matrix_shapes_completed', 'renders_ok', 'renders_err', 'provider_replacements', 'jump_shapes_accepted', 'jump_shapes_refused'],
        'case_budget_ms': 60000,
    },
    'C10': {
        'scale': {'quick': 4, 'thorough': 3},
        'level': 'exploration',
        'technique': 'history monitor against a sequential model of the template set: snapshot comparison (hook digest of all derived state + public observables) after every failed call, fresh-instance comparison after every successful call and reconfiguration',
        'claim': 'Histories of 1-25 calls over 9 names and 35 template kinds: single and batched adds (one batch in four through add_template_files on scratch files, a third of those with a missing or non-UTF-8 file, which must fail the whole call), valid and invalid in every listed way (syntax error early/late, missing parent, extends and include cycles, unknown filter/test/function/component/include, '
                 'duplicate component at equal priority, orphan block, duplicate name inside a batch), replacements of parents, include targets, component providers and fallback-shadowed templates, autoescape_on interleaved, 0-2 fallback prefixes. '
                 'After each failed call the digest (parents, autoescape flags, size hints, block lineage origins, global component table, configuration) and the observables (names, renders, block renders, component renders and definitions) must equal the pre-call snapshot; '
                 'after each successful call and each reconfiguration they must equal those of a fresh instance given the model\'s set in one shuffled batch, with the suffixes configured before or after the add. The histories include a template name under the higher-priority fallback prefix, so that a later add can shadow what a short name resolved to.',
        'note': 'errors are compared by their first line; the digest identifies chunks by origin template and length (instruction listings are not stable across compilations because keyword arguments are compiled in hash order)',
        'rule': "one evaluation = one add call or one fresh-instance build; a cell = (failure message class, batch size, replacing/new names) for failed calls and (set size, prefixes, suffix-before/after) for fresh comparisons",
        'must_observe': ['failed_calls_checked_for_rollback', 'fresh_instance_comparisons', 'successful_calls', 'autoescape_reconfigurations', 'calls_through_add_template_files', 'file_faults_injected'],
    },
    'C11': {
        'scale': {'quick': 4, 'thorough': 15},
        'level': 'exploration',
        'technique': 'independent graph oracle (exact-then-prefix name resolution, plain DFS for cycles) compared with the engine verdict and error kind on generated extends/include digraphs; every accepted set rendered in a supervised child process with a CPU watchdog',
        'claim': 'Random digraphs on 1-10 templates (<= 1 extends edge per node; include edges at top level, in dead branches, captures, component bodies, loops, blocks, filter sections and else branches), self-loops, cycles of length 2-10 entered from a tail, '
                 'dangling targets, targets reachable only through a fallback prefix, exact-vs-prefix shadowing, two prefixes of different priority with twin templates under both, acyclic include and extends chains of depth 1-32 (deterministic sweep), and the mixed family (include edges inside blocks of templates in an extends relation, with super()). '
                 'Each graph is registered as one batch (either order) or in two steps (the set with the edges of one template cut, then that template again with its real source). The engine must accept exactly the graphs the oracle finds sound and reject the others with an error kind in the oracle\'s admissible set; every template of every accepted set is then rendered: text or an error, never a dead process or a CPU-budget overrun, and text without fail when the graph has no extends edge (nothing can recurse then). Registration also happens with one template held back (preferably one under the first prefix) and added alone afterwards, so that what a short name resolves to changes without the templates using it being registered again. One generated cycle in four is long (31-300 members, around 32/64/128/256), entered directly or from a tail.',
        'note': 'when several faults coexist any corresponding kind is accepted; termination is decided as bounded progress (20 s CPU per case, confirmed alone with 10x); stack verdicts for an 8 MiB stack and the optimised build',
        'rule': "one evaluation = one registration or one render; a cell = (shape class incl. cycle length/tail or chain depth, engine verdict, set of include placements, prefix in use)",
        'must_observe': ['graphs_accepted', 'graphs_rejected', 'renders_supervised', 'graphs_completed_in_a_second_step'],
    },
    'C02': {
        'scale': {'quick': 4, 'thorough': 10},
        'level': 'exploration',
        'technique': 'three oracles on generated expression trees rendered by the real engine: parenthesisation metamorphism (documented precedence table vs full parentheses), reference-model evaluation (model written from the docs), and an evaluation-trace monitor through a registered probe function',
        'claim': 'Kind-directed random trees (depth 2-5) over all binary/unary/postfix forms, filters, tests, function calls, array/map literals and list comprehensions are printed (a) with the minimal parentheses the documented precedence/associativity table implies plus random redundant parentheses and inter-token whitespace/newlines, '
                 '(b) fully parenthesised, (c) inside set/if/kwarg positions; all spellings must agree with each other and with the reference value or error-ness; probe(id=..) calls embedded in sub-expressions must fire in the model\'s order (left to right, stop at the deciding operand of and/or, untaken ternary branches and filtered-out comprehension items never). '
                 'A deterministic matrix covers the undefined rules: 16 kinds of missing/none subject x 24 uses; another one the truthiness of ~75 values of every kind and numeric representation through not/if/elif/ternary/and/or/default(boolean)/comprehension conditions. Array and map literals with spreads (`...e` items and entries before, between and after plain ones, overlapping keys, ill-typed spreads) are part of the random trees; an optional-slice matrix checks `?[a:b]` on none, undefined, missing-field and ordinary bases against the documented outcome.',
        'note': 'the environment is fixed (7 variables of every kind incl. none, one unbound); excluded as undocumented: unary-parsed operands directly after `~`, more than two levels of `[`..`]`, maps as comprehension targets, ordering of two undefined values (accepted as equal); error wording is never compared',
        'rule': "one evaluation = one render of one spelling; a cell = (parent operator, child operator, side, value/error) over all parent-child pairs of the tree, plus (missing-subject, use, value/error) for the undefined matrix",
        'must_observe': ['spelling_pairs_compared', 'traces_compared', 'probe_events', 'undefined_rule_cells', 'truthiness_cells'],
    },
    'C03': {
        'scale': {'quick': 2, 'thorough': 8},
        'level': 'exploration',
        'technique': 'reference-model monitor: generated statement trees are interpreted by a model written from the documentation and the engine output must match exactly; scope visibility also observed through the engine\'s own `__tera_context` dump; map loops checked as multisets of iteration records',
        'claim': 'Template sets of 1-5 templates, trees of depth 2-5 mixing if/elif/else (with negation), for over arrays (also filtered through reverse), strings incl. multi-byte, empty targets with else bodies, break/continue under ifs, set/set_global/set from another name in and out of loops, '
                 'set-blocks with filter chains, filter sections, includes inside loops/captures/branches and included templates that assign; five names are deliberately shadowed across loop variables, assignments, includer scopes, the render context and the global context. '
                 'One case in 64 takes a general generated program (components, filters, captures and loops around the include sites), cuts every included template between two top-level statements, moves the tail into an include of its own and requires every entry to render the same. Every tenth case iterates random maps of 0-8 entries and checks each entry exactly once with loop.index/index0/first/last/length per record.',
        'note': 'values are integers and strings; autoescape is off here (C01 owns escaping); `__tera_context` is only placed outside loops and includes because the dump deliberately omits loop variables and includer scopes (undocumented); break/continue are not generated inside captures',
        'rule': "one evaluation = one program rendered or one map loop; a cell = path of construct kinds from the template root to each print/set/break/continue/include site (first 12 per program) and the map size for map loops",
        'must_observe': ['programs_compared', 'scope_dump_comparisons', 'map_loops_checked', 'include_splits_compared'],
    },
    'C04': {
        'scale': {'quick': 2, 'thorough': 15},
        'level': 'exploration',
        'technique': 'reference-model monitor for inheritance: unique sentinel tokens in every block body make the rendered text the resolution trace; model resolver (most-derived definition, super() to the nearest defining ancestor) vs real renders and render_block',
        'claim': 'Chains of 1-8 templates; per level a random subset of 6 block names nested up to 3 deep, inside filter sections and set-blocks, child blocks introduced inside overridden blocks, ancestors that skip a block, super() at several levels, super() without any ancestor definition (must be an error), '
                 'orphan top-level child blocks (must be rejected), shapes that recurse without bound (must be an error), registered as one shuffled batch, one call per template, a batch followed by re-adding a middle template, a batch in which one template first extends a decoy root and is then re-registered under its real parent, or (with a fallback prefix) under a decoy root that the real root, registered last, shadows. Every leaf of every chain is rendered, directly and through a template that includes it, and compared; '
                 'render_block(t, b) is compared with the text the model attributes to b for every block the full render reaches. One case in 32 is a general generated program (variables, loops, captures, includes and components inside blocks, children calling super()) whose block bodies carry start/end marks: render_block must return exactly the marked stretch of the full render. Registration mode 5 reaches the final chain by adding the real root last under the first of two fallback prefixes (shadowing a decoy under the second); chains are rendered on the engine exactly as the registration steps left it, includers go to a copy.',
        'note': 'block text is compared before enclosing filter sections transform it (what the block itself writes); renders run in a supervised child process',
        'rule': "one evaluation = one registration, render or render_block; a cell = (chain length, leaf level, block nesting, number of super() calls, blocks inside captures or not, model outcome)",
        'must_observe': ['leaf_renders_compared', 'block_renders_compared', 'orphan_block_sets', 'both_refuse', 'chains_reparented_after_registration', 'included_leaves_compared', 'marked_blocks_compared'],
    },
    'C05': {
        'scale': {'quick': 2, 'thorough': 10},
        'level': 'exploration',
        'technique': 'reference-model monitor for component binding observed through the engine\'s own `__tera_context` dump inside every generated component, accept/reject agreement, API-vs-template differential, escaping, fallback-prefix priority and recursion checks',
        'claim': 'Signatures of 0-5 parameters x {untyped, 7 types} x {no default, default of each literal kind} x rest; calls inline and with body, literal/braced/shorthand/spread arguments, unknown arguments, from the top level, loops, blocks, includes, captures and other components\' bodies. '
                 'The dump printed first in the component must equal the model\'s bound map (declared parameters, defaults, rest, body - nothing from the caller or the global context, both populated with decoys); missing-required, unknown-without-rest and declared/inferred type mismatches must be rejected; '
                 'render_component(name, ctx, body, flag) must equal the equivalent template call, and so must the same call rendered as a one-off string through render_str; component results are not escaped again and bodies follow the caller\'s mode; with 1-3 fallback prefixes the highest-priority definition wins (duplicates at the winning priority rejected); '
                 'self/mutual/through-body/through-include recursion without base case must be an error, bounded recursion within the limit must render. Call-sequence family: 2-5 calls in a row (or one call site in a loop) with arguments that are equal but not identical (1 / 1.0 / u64 1 / i128 1, the same text marked safe and not, the same value through different variables), typed and untyped parameters, with and without bodies, autoescaping on: the sequence must render the concatenation of the calls rendered alone and fail when one of them fails alone.',
        'note': 'generator exclusions: negative parameter defaults, map literals forming `{{`/`}}` inside `name={..}`, typed parameters whose default contradicts the type; which escaping mode a component\'s own prints follow when caller and definer disagree is not asserted',
        'rule': "one evaluation = one registration/render; a cell = (number of parameters, rest/closed, body/inline, call site, bound or rejection reason) plus cells of the escaping, priority and recursion families",
        'must_observe': ['context_dumps_compared', 'rejections_agree', 'api_template_pairs', 'escape_checks', 'priority_checks', 'recursion_checks', 'render_str_calls_compared', 'isolation_through_include_checks', 'call_sequences_compared'],
    },
    'C01': {
        'scale': {'quick': 2, 'thorough': 1.5},
        'legs': {'thorough': ['miri']},
        'level': 'exploration',
        'technique': 'two observation modes over generated routing programs: default escaper with disjoint data/text alphabets (no raw special may reach the output), and a marking escape function installed through the public set_escape_fn whose private-use brackets give the exact number of escapings of every data character, with an event count of escaper calls',
        'claim': 'A route generator sends a source (context string, map field, array item, nested field, map key reached by a key/value loop or `keys`, literal; incl. strings made only of specials) through 1-6 routing steps drawn from 32 kinds (set, loops in captures, set-blocks, filter sections, includes, component arguments/rest/bodies, ~, ternary, or, index, negative index, slice, default, first, join, upper, replace, every other text-returning built-in filter, array and map filters, loop variables, key/value loops, comprehensions, split, map-literal field, function result, safe followed by a rebuilding step) '
                 'to a print site hitting both sinks (expression write and fused variable-path write), inside and outside captures, directly printed array/map containers, `| safe`, optionally through blocks and super(). Mode B asserts depth >= 1 everywhere when autoescape is on and `safe` unused, exactly 1 in pass-through routes (no double escaping), '
                 'exactly 0 for `| safe`, for a filter and a function registered as safe (trait `is_safe`), and for a safe filter reached through `State::call_filter`, while the same filter/function not registered as safe is escaped, and depth 0 with zero logged escaper calls when the template is not autoescaped (suffix not matching, custom suffix lists set before or after adding, render_str flag). Every eighth case renders a general generated program (markup-free text, no safe, hostile data) with the default escaper. Suffix-history family: 18 names sharing last extensions (multi-dot suffixes, suffixes without a dot, a name equal to a suffix) against 14 suffix lists changed before, between and after 2-6 registration steps; after every step every registered template is rendered alone and must be escaped exactly when its whole name ends with a suffix of the current list. Twin-sink family: the same text through the same sink (component argument, component body, map/array entry, assignment, ternary, print, function and filter results) marked safe and not marked, back to back and from one call site in a loop: each occurrence follows its own mark. For `render_component` the per-call flag is asserted to govern the whole render it starts: nested component calls and templates included below it follow the flag even where their own suffix disagrees.',
        'note': 'the escape function also validates that its input is valid UTF-8 (it is produced with from_utf8_unchecked); mixed on/off modes inside one render are not generated',
        'rule': "one evaluation = one render; a cell = (ordered routing step kinds, sink, autoescape on/off, configuration)",
        'must_observe': ['mode_a_outputs_checked', 'escape_calls_logged', 'data_characters_classified', 'pass_through_programs', 'safe_programs', 'not_autoescaped_programs', 'per_call_flag_checks', 'suffix_decisions_checked', 'twin_sink_halves_classified'],
    },
}
