// Prototype: C04 inheritance model vs engine. Chains of 1..4 templates, blocks nested and inside filter
// sections / set blocks, super() anywhere inside a block, shuffled registration, render of every leaf and
// render_block of every block the model saw. On the pinned tree this reproduces F1 (stack overflow, run it
// in a child process) and F8 (render_block of a block inside a capture returns ""); on the trial-fixed
// tree it agrees everywhere. Throwaway design-time probe.
use std::collections::{BTreeMap, BTreeSet};
use tera::{Context, Tera};
struct R(u64);
impl R {
    fn n(&mut self) -> u64 { self.0 ^= self.0 << 13; self.0 ^= self.0 >> 7; self.0 ^= self.0 << 17; self.0 }
    fn b(&mut self, n: u64) -> u64 { self.n() % n }
}
#[derive(Clone, Debug)]
enum N { T(String), Super, Block(usize, Vec<N>), Filt(Vec<N>), SetCap(Vec<N>) }
const BN: [&str; 5] = ["ba", "bb", "bc", "bd", "be"];
fn gen_nodes(r: &mut R, d: u32, lvl: usize, used: &mut BTreeSet<usize>, cur_block: Option<usize>, counter: &mut usize) -> Vec<N> {
    let n = 1 + r.b(3);
    let mut v = vec![];
    for _ in 0..n {
        match r.b(7) {
            0 | 1 => { *counter += 1; v.push(N::T(format!("<{}:{}>", lvl, counter))); }
            2 if cur_block.is_some() => v.push(N::Super),
            3 | 4 if d > 0 => { let cands: Vec<usize> = (0..5).filter(|b| !used.contains(b)).collect(); if !cands.is_empty() { let b = cands[r.b(cands.len() as u64) as usize]; used.insert(b); let body = gen_nodes(r, d - 1, lvl, used, Some(b), counter); v.push(N::Block(b, body)); } }
            5 if d > 0 => v.push(N::Filt(gen_nodes(r, d - 1, lvl, used, cur_block, counter))),
            6 if d > 0 => v.push(N::SetCap(gen_nodes(r, d - 1, lvl, used, cur_block, counter))),
            _ => { *counter += 1; v.push(N::T(format!("<{}.{}>", lvl, counter))); }
        }
    }
    v
}
fn pr(ns: &[N], out: &mut String, capn: &mut usize) {
    for n in ns {
        match n {
            N::T(t) => out.push_str(t),
            N::Super => out.push_str("{{ super() }}"),
            N::Block(b, body) => { out.push_str(&format!("{{% block {} %}}", BN[*b])); pr(body, out, capn); out.push_str("{% endblock %}"); }
            N::Filt(body) => { out.push_str("{% filter upper %}"); pr(body, out, capn); out.push_str("{% endfilter %}"); }
            N::SetCap(body) => { *capn += 1; let v = format!("cap{}", capn); out.push_str(&format!("{{% set {v} %}}")); pr(body, out, capn); out.push_str(&format!("{{% endset %}}[{{{{ {v} }}}}]")); }
        }
    }
}
fn collect<'a>(ns: &'a [N], m: &mut BTreeMap<usize, &'a Vec<N>>) { for n in ns { match n { N::Block(b, body) => { m.insert(*b, body); collect(body, m); } N::Filt(b) | N::SetCap(b) => collect(b, m), _ => {} } } }
// keep only top-level blocks (blocks not nested in another block) that some ancestor knows
fn filt(ns: Vec<N>, known: &BTreeSet<usize>) -> Vec<N> { ns.into_iter().filter_map(|n| match n { N::Block(b, body) => if !known.contains(&b) { None } else { Some(N::Block(b, body)) }, N::Filt(b) => Some(N::Filt(filt(b, known))), N::SetCap(b) => Some(N::SetCap(filt(b, known))), x => Some(x) }).collect() }
struct Model<'a> { defs: Vec<BTreeMap<usize, &'a Vec<N>>>, depth: usize, block_text: BTreeMap<usize, String> }
impl<'a> Model<'a> {
    // root body; each block -> most-derived definition; super() -> nearest ancestor (below the current level) defining it
    fn render(&mut self, ns: &[N], cur: Option<(usize, usize)>, out: &mut String) -> Result<(), String> {
        self.depth += 1;
        if self.depth > 200 { return Err("recursion".into()); }
        for n in ns {
            match n {
                N::T(t) => out.push_str(t),
                N::Super => { let (b, lvl) = cur.unwrap(); match (0..lvl).rev().find(|j| self.defs[*j].contains_key(&b)) { None => return Err("super-top".into()), Some(j) => { let body = self.defs[j][&b]; let mut s = String::new(); self.render(body, Some((b, j)), &mut s)?; out.push_str(&s); } } }
                N::Block(b, _) => { let lvl = (0..self.defs.len()).rev().find(|j| self.defs[*j].contains_key(b)).unwrap(); let body = self.defs[lvl][b]; let mut s = String::new(); self.render(body, Some((*b, lvl)), &mut s)?; self.block_text.insert(*b, s.clone()); out.push_str(&s); }
                N::Filt(body) => { let mut s = String::new(); self.render(body, cur, &mut s)?; out.push_str(&s.to_uppercase()); }
                N::SetCap(body) => { let mut s = String::new(); self.render(body, cur, &mut s)?; out.push('['); out.push_str(&s); out.push(']'); }
            }
        }
        self.depth -= 1;
        Ok(())
    }
}
fn main() {
    let mut r = R(std::env::args().nth(1).map(|s| s.parse().unwrap()).unwrap_or(88172645463325252));
    let (mut n, mut bad, mut rejected, mut errs_ok, mut rb) = (0, 0, 0, 0, 0);
    let mut shown = 0;
    for _ in 0..40000 {
        let len = 1 + r.b(4) as usize;
        let mut chain: Vec<Vec<N>> = vec![];
        let mut counter = 0;
        let mut known: BTreeSet<usize> = BTreeSet::new();
        for lvl in 0..len {
            let mut used = BTreeSet::new();
            let mut nodes = gen_nodes(&mut r, 3, lvl, &mut used, None, &mut counter);
            if lvl > 0 { nodes = filt(nodes, &known); }
            let mut m = BTreeMap::new();
            collect(&nodes, &mut m);
            for k in m.keys() { known.insert(*k); }
            chain.push(nodes);
        }
        let mut srcs = vec![];
        let mut capn = 0;
        for (i, ns) in chain.iter().enumerate() { let mut s = String::new(); if i > 0 { s.push_str(&format!("{{% extends \"t{}\" %}}", i - 1)); } pr(ns, &mut s, &mut capn); srcs.push((format!("t{i}"), s)); }
        let mut order: Vec<usize> = (0..len).collect();
        for i in (1..len).rev() { let j = r.b(i as u64 + 1) as usize; order.swap(i, j); }
        let mut t = Tera::default();
        if let Err(e) = t.add_raw_templates(order.iter().map(|i| srcs[*i].clone())) { rejected += 1; if shown < 3 { shown += 1; println!("REJECT {}\n{srcs:?}", e.to_string().lines().next().unwrap()); } continue; }
        let defs: Vec<BTreeMap<usize, &Vec<N>>> = chain.iter().map(|ns| { let mut m = BTreeMap::new(); collect(ns, &mut m); m }).collect();
        for leaf in 0..len {
            let mut model = Model { defs: defs[..=leaf].to_vec(), depth: 0, block_text: BTreeMap::new() };
            let mut exp = String::new();
            let mr = model.render(&chain[0], None, &mut exp);
            n += 1;
            let got = t.render(&format!("t{leaf}"), &Context::new());
            match (&mr, &got) { (Ok(()), Ok(g)) if *g == exp => {} (Err(_), Err(_)) => errs_ok += 1, _ => { bad += 1; if shown < 8 { shown += 1; println!("MISMATCH leaf={leaf}\n srcs={srcs:?}\n model={:?} exp={exp:?}\n got={:?}", mr, got.as_ref().map_err(|e| e.to_string())); } } }
            if mr.is_ok() { for (b, txt) in &model.block_text { rb += 1; let g = t.render_block(&format!("t{leaf}"), BN[*b], &Context::new()); if g.as_ref().ok() != Some(txt) { bad += 1; if shown < 8 { shown += 1; println!("RENDER_BLOCK MISMATCH leaf={leaf} block={}\n srcs={srcs:?}\n exp={txt:?}\n got={:?}", BN[*b], g.map_err(|e| e.to_string())); } } } }
        }
    }
    println!("n={n} rejected={rejected} both_err={errs_ok} render_block_checks={rb} bad={bad}");
}
