// Prototype: C11 graph acceptance oracle vs engine. Random extends/include graphs on 1..6 templates with
// dangling targets, prefix resolution, include edges in blocks / dead branches / captures / component bodies.
// The oracle computes the *set* of admissible error kinds; the engine's verdict must be in it (or "accepted"
// when the set is empty). Every accepted set is then rendered (in the real harness: in a supervised child,
// because of F1/F2). 60 k graphs agreed. Throwaway design-time probe.
use std::collections::{BTreeMap, BTreeSet};
use tera::{Context, ErrorKind, Tera};
struct R(u64);
impl R {
    fn n(&mut self) -> u64 { self.0 ^= self.0 << 13; self.0 ^= self.0 >> 7; self.0 ^= self.0 << 17; self.0 }
    fn b(&mut self, n: u64) -> u64 { self.n() % n }
}
fn dfs(u: usize, g: &Vec<Vec<Option<usize>>>, st: &mut Vec<u8>) -> bool { st[u] = 1; for v in g[u].iter().flatten() { if st[*v] == 1 { return true; } if st[*v] == 0 && dfs(*v, g, st) { return true; } } st[u] = 2; false }
fn main() {
    let mut r = R(std::env::args().nth(1).map(|s| s.parse().unwrap()).unwrap_or(88172645463325252));
    let (mut n, mut acc, mut bad, mut renders) = (0, 0, 0, 0);
    let mut shown = 0;
    let mut kinds = BTreeMap::new();
    for _ in 0..60000 {
        let k = 1 + r.b(6) as usize;
        let use_prefix = r.b(3) == 0;
        let names: Vec<String> = (0..k).map(|i| if use_prefix && r.b(3) == 0 { format!("p/n{i}") } else { format!("n{i}") }).collect();
        let refname = |r: &mut R, names: &Vec<String>| -> String { let j = r.b(names.len() as u64 + 1) as usize; if j == names.len() { "missing".to_string() } else { let nm = &names[j]; if use_prefix && nm.starts_with("p/") && r.b(2) == 0 { nm[2..].to_string() } else { nm.clone() } } };
        let mut ext: Vec<Option<String>> = vec![];
        let mut inc: Vec<Vec<(String, u8)>> = vec![];
        for _ in 0..k { ext.push(if r.b(3) == 0 { Some(refname(&mut r, &names)) } else { None }); let m = r.b(3); inc.push((0..m).map(|_| (refname(&mut r, &names), r.b(4) as u8)).collect()); }
        let mut srcs = vec![];
        for i in 0..k {
            let mut s = String::new();
            if let Some(p) = &ext[i] { s.push_str(&format!("{{% extends \"{p}\" %}}")); }
            let mut comp = String::new();
            s.push_str("{% block main %}");
            for (t, place) in &inc[i] { let tag = format!("{{% include \"{t}\" %}}"); match place { 0 => s.push_str(&tag), 1 => s.push_str(&format!("{{% if false %}}{tag}{{% endif %}}")), 2 => s.push_str(&format!("{{% set zz %}}{tag}{{% endset %}}")), _ => comp.push_str(&tag) } }
            s.push_str("{% endblock %}");
            if !comp.is_empty() { s.push_str(&format!("{{% component c{i}() %}}{comp}{{% endcomponent %}}")); }
            srcs.push((names[i].clone(), s));
        }
        // ---- oracle: resolve exact name first, then the prefix; plain graph algorithms
        let resolve = |nm: &str| -> Option<usize> { if let Some(i) = names.iter().position(|x| x == nm) { return Some(i); } if use_prefix { let p = format!("p/{nm}"); if let Some(i) = names.iter().position(|x| *x == p) { return Some(i); } } None };
        let mut admissible: BTreeSet<&str> = BTreeSet::new();
        let extr: Vec<Option<Option<usize>>> = ext.iter().map(|e| e.as_ref().map(|p| resolve(p))).collect();
        if extr.iter().any(|e| matches!(e, Some(None))) { admissible.insert("MissingParent"); }
        for s in 0..k { let mut cur = s; let mut seen = BTreeSet::new(); loop { match extr[cur] { Some(Some(p)) => { if p == s || !seen.insert(p) { admissible.insert("CircularExtend"); break; } cur = p; } _ => break } } }
        let incr: Vec<Vec<Option<usize>>> = inc.iter().map(|v| v.iter().map(|(t, _)| resolve(t)).collect()).collect();
        if incr.iter().flatten().any(|x| x.is_none()) { admissible.insert("UnknownTemplate"); }
        let mut stt = vec![0u8; k];
        for u in 0..k { if stt[u] == 0 && dfs(u, &incr, &mut stt) { admissible.insert("CircularInclude"); break; } }
        // ---- engine
        let mut t = Tera::default();
        if use_prefix { t.set_fallback_prefixes(vec!["p/"]).unwrap(); }
        n += 1;
        let res = t.add_raw_templates(srcs.clone());
        let got: Option<String> = match &res { Ok(()) => None, Err(e) => Some(match e.kind() { ErrorKind::MissingParent { .. } => "MissingParent".into(), ErrorKind::CircularExtend { .. } => "CircularExtend".into(), ErrorKind::CircularInclude { .. } => "CircularInclude".into(), ErrorKind::Msg(m) if m.contains("Unknown template") => "UnknownTemplate".into(), other => format!("OTHER {other:?}") }) };
        *kinds.entry(got.clone().unwrap_or("accepted".into())).or_insert(0) += 1;
        let ok = match &got { None => admissible.is_empty(), Some(g) => admissible.contains(g.as_str()) };
        if !ok { bad += 1; if shown < 8 { shown += 1; println!("MISMATCH admissible={admissible:?} got={got:?}\n srcs={srcs:?}"); } }
        if res.is_ok() { acc += 1; for nm in &names { renders += 1; let _ = t.render(nm, &Context::new()); } }
    }
    println!("n={n} accepted={acc} renders={renders} bad={bad} kinds={kinds:?}");
}
