// Prototype: C05 component binding model vs engine (using __tera_context dump inside the component)
use tera::{Tera, Context, Value, value::Map};
use std::collections::BTreeMap;
struct R(u64);
impl R { fn n(&mut self) -> u64 { self.0 ^= self.0 << 13; self.0 ^= self.0 >> 7; self.0 ^= self.0 << 17; self.0 } fn b(&mut self, n: u64) -> u64 { self.n() % n } }
#[derive(Clone, Debug, PartialEq)] enum V { I(i64), F(f64), S(String), B(bool), N, A(Vec<V>), M(Vec<(String, V)>) }
impl V { fn kind(&self) -> &'static str { match self { V::I(_) => "integer", V::F(_) => "float", V::S(_) => "string", V::B(_) => "bool", V::N => "none", V::A(_) => "array", V::M(_) => "map" } }
    fn lit(&self) -> String { match self { V::I(i) => i.to_string(), V::F(f) => format!("{f:?}"), V::S(s) => format!("\"{s}\""), V::B(b) => b.to_string(), V::N => "none".into(), V::A(a) => format!("[{}]", a.iter().map(|x| x.lit()).collect::<Vec<_>>().join(", ")), V::M(m) => format!("{{{} }}", m.iter().map(|(k, v)| format!("\"{k}\": {}", v.lit())).collect::<Vec<_>>().join(", ")) } }
    fn show_in(&self) -> String { match self { V::S(s) => format!("{s:?}"), V::N => String::new(), V::A(a) => format!("[{}]", a.iter().map(|x| x.show_in()).collect::<Vec<_>>().join(", ")), V::M(m) => { let mut m = m.clone(); m.sort_by(|a, b| a.0.cmp(&b.0)); format!("{{{}}}", m.iter().map(|(k, v)| format!("{k:?}: {}", v.show_in())).collect::<Vec<_>>().join(", ")) } V::I(i) => i.to_string(), V::F(f) => format!("{f:?}"), V::B(b) => b.to_string() } }
    fn to_tera(&self) -> Value { match self { V::I(i) => Value::from(*i), V::F(f) => Value::from(*f), V::S(s) => Value::from(s.as_str()), V::B(b) => Value::from(*b), V::N => Value::none(), V::A(a) => Value::from(a.iter().map(|x| x.to_tera()).collect::<Vec<_>>()), V::M(m) => { let mut o = Map::new(); for (k, v) in m { o.insert(k.clone().into(), v.to_tera()); } Value::from(o) } } } }
fn val(r: &mut R) -> V { match r.b(8) { 0 => V::I(r.b(5) as i64 - 2), 1 => V::F(1.5), 2 => V::S(["s", "", "é<"][r.b(3) as usize].into()), 3 => V::B(r.b(2) == 0), 4 => V::N, 5 => V::A(vec![V::I(1), V::S("a".into())]), 6 => V::M(vec![("k".into(), V::I(1))]), _ => V::I(7) } }
fn matches_type(t: &str, v: &V) -> bool { match t { "string" => matches!(v, V::S(_)), "bool" => matches!(v, V::B(_)), "integer" => matches!(v, V::I(_)), "float" => matches!(v, V::F(_)), "number" => matches!(v, V::I(_) | V::F(_)), "array" => matches!(v, V::A(_)), "map" => matches!(v, V::M(_)), _ => true } }
struct Param { name: String, typ: Option<&'static str>, default: Option<V> }
fn main() {
    let mut r = R(std::env::args().nth(1).map(|s| s.parse().unwrap()).unwrap_or(88172645463325252));
    let (mut n, mut ok, mut rej, mut bad, mut api) = (0, 0, 0, 0, 0); let mut shown = 0;
    let pnames = ["pa", "pb", "pc", "pd"]; let types = ["string", "bool", "integer", "float", "number", "array", "map"];
    for _ in 0..60000 {
        let np = r.b(4) as usize; let params: Vec<Param> = (0..np).map(|i| Param { name: pnames[i].into(), typ: if r.b(2) == 0 { Some(types[r.b(7) as usize]) } else { None }, default: if r.b(2) == 0 { Some(val(&mut r)) } else { None } }).collect();
        let rest = r.b(2) == 0;
        let sig = params.iter().map(|p| format!("{}{}{}", p.name, p.typ.map(|t| format!(": {t}")).unwrap_or_default(), p.default.as_ref().map(|d| format!(" = {}", d.lit())).unwrap_or_default())).chain(rest.then(|| "...others".to_string())).collect::<Vec<_>>().join(", ");
        let comp = format!("{{% component cmp({sig}) %}}{{{{ __tera_context }}}}|{{{{ body | default(value=\"nobody\") }}}}{{% endcomponent %}}");
        // call: subset of params + maybe unknown args, values maybe from caller vars/spread/shorthand
        let mut supplied: Vec<(String, V, u8)> = vec![]; for p in &params { if r.b(3) != 0 { supplied.push((p.name.clone(), val(&mut r), r.b(4) as u8)); } } for extra in ["xa", "xb"] { if r.b(4) == 0 { supplied.push((extra.into(), val(&mut r), r.b(4) as u8)); } }
        let with_body = r.b(3) == 0;
        let mut ctxm: Vec<(String, V)> = vec![("decoy".into(), V::S("D".into()))]; let mut attrs = vec![]; let mut spread: Vec<(String, V)> = vec![];
        for (name, v, how) in &supplied { match how { 0 => { ctxm.push((name.clone(), v.clone())); attrs.push(name.clone()); } // shorthand: variable with same name in caller scope
            1 => spread.push((name.clone(), v.clone())), 2 if matches!(v, V::S(_)) => attrs.push(format!("{name}={}", v.lit())), _ => attrs.push(format!("{name}={{{}}}", v.lit())) } }
        if !spread.is_empty() { ctxm.push(("sp".into(), V::M(spread.clone()))); attrs.push("{...sp}".into()); }
        let call = if with_body { format!("{{% <cmp {}> %}}B{{{{ decoy }}}}{{% </cmp> %}}", attrs.join(" ")) } else { format!("{{{{ <cmp {} /> }}}}", attrs.join(" ")) };
        // model
        let typed_default_mismatch = false; let _ = typed_default_mismatch;
        let mut bound: BTreeMap<String, V> = BTreeMap::new(); let mut others: Vec<(String, V)> = vec![]; let mut reject = false;
        for (name, v, _) in &supplied { if !params.iter().any(|p| p.name == *name) { if rest { others.push((name.clone(), v.clone())); } else { reject = true; } } }
        for p in &params { match supplied.iter().find(|(n, _, _)| *n == p.name) { Some((_, v, _)) => { let t = p.typ.or(p.default.as_ref().and_then(|d| match d.kind() { "none" => None, k => Some(k) })); if let Some(t) = t { if !matches_type(t, v) { reject = true; } } bound.insert(p.name.clone(), v.clone()); } None => match &p.default { Some(d) => { bound.insert(p.name.clone(), d.clone()); } None => reject = true } } }
        if rest { bound.insert("others".into(), V::M(others)); } if with_body { bound.insert("body".into(), V::S("BD".into())); }
        let expected = format!("{{{}}}|{}", bound.iter().map(|(k, v)| format!("{k:?}: {}", v.show_in())).collect::<Vec<_>>().join(", "), if with_body { "BD" } else { "nobody" });
        let mut t = Tera::default(); t.global_context().insert("gdecoy", "G"); let mut ctx = Context::new(); for (k, v) in &ctxm { ctx.insert_value(k.clone(), v.to_tera()); }
        if let Err(e) = t.add_raw_templates(vec![("c", comp.clone()), ("t", call.clone())]) { bad += 1; if shown < 5 { shown += 1; println!("ADD ERR {e}\n {comp}\n {call}"); } continue; }
        n += 1; let got = t.render("t", &ctx);
        match (&got, reject) { (Ok(o), false) if *o == expected => ok += 1, (Err(_), true) => rej += 1, _ => { bad += 1; if shown < 8 { shown += 1; println!("MISMATCH comp={comp}\n call={call}\n ctx={ctxm:?}\n reject={reject} expected={expected}\n got={:?}", got.as_ref().map_err(|e| e.to_string().lines().next().unwrap_or("").to_string())); } } }
        // API equivalence
        if !with_body { let mut actx = Context::new(); for (k, v, _) in &supplied { actx.insert_value(k.clone(), v.to_tera()); } let a = t.render_component("cmp", &actx, None, false); api += 1; if a.is_ok() != got.is_ok() || (a.is_ok() && a.as_ref().unwrap() != got.as_ref().unwrap()) { bad += 1; if shown < 8 { shown += 1; println!("API MISMATCH comp={comp} call={call}\n api={:?}\n tpl={:?}", a.map_err(|e| e.to_string()), got.as_ref().map_err(|e| e.to_string())); } } }
    }
    println!("calls={n} bound_ok={ok} rejected_ok={rej} api_pairs={api} bad={bad}");
}
