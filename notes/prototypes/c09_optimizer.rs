// Prototype: C09 structural alignment of optimised vs unoptimised listings + differential render (needs hooks H1/H2)
use tera::{Tera, Context, Value, value::Map};
struct R(u64);
impl R { fn n(&mut self) -> u64 { self.0 ^= self.0 << 13; self.0 ^= self.0 >> 7; self.0 ^= self.0 << 17; self.0 } fn b(&mut self, n: u64) -> u64 { self.n() % n } }
fn path(r: &mut R) -> String { let roots = ["a", "u", "x", "__tera_context", "q"]; let mut s = roots[r.b(5) as usize].to_string(); for _ in 0..r.b(4) { s.push('.'); s.push_str(["b", "c", "zz"][r.b(3) as usize]); } s }
fn expr(r: &mut R, d: u32) -> String { if d == 0 { return if r.b(5) == 0 { ["1", "\"s\"", "false", "none"][r.b(4) as usize].to_string() } else { path(r) }; }
    match r.b(11) { 0 => format!("{} and {}", expr(r, d - 1), expr(r, d - 1)), 1 => format!("{} or {}", expr(r, d - 1), expr(r, d - 1)), 2 => format!("({} if {} else {})", expr(r, d - 1), expr(r, d - 1), expr(r, d - 1)),
        3 => format!("{} | default(value={})", path(r), expr(r, d - 1)), 4 => format!("[{} for x in {} if {}]", expr(r, d - 1), path(r), expr(r, d - 1)), 5 => format!("{} is defined", path(r)), 6 => format!("not {}", path(r)), 7 => format!("{}?.b", path(r)), 8 => format!("({} == {})", expr(r, d - 1), expr(r, d - 1)), 9 => format!("{}[\"b\"]", path(r)), _ => path(r) } }
fn stmts(r: &mut R, d: u32, in_loop: bool) -> String { let mut s = String::new(); for _ in 0..(1 + r.b(3)) { match r.b(12) {
    0 | 1 => s += &format!("{{{{ {} }}}}", path(r)), 2 => s += &format!("{{{{ {} }}}}", expr(r, 2)), 3 => s += "t",
    4 if d > 0 => { s += &format!("{{% if {} %}}{}", expr(r, 1), stmts(r, d - 1, in_loop)); if r.b(2) == 0 { s += &format!("{{% elif {} %}}{}", expr(r, 1), stmts(r, d - 1, in_loop)); } if r.b(2) == 0 { s += &format!("{{% else %}}{}", stmts(r, d - 1, in_loop)); } s += "{% endif %}"; }
    5 if d > 0 => { s += &format!("{{% for x in {} %}}{}", expr(r, 1), stmts(r, d - 1, true)); if r.b(2) == 0 { s += &format!("{{% else %}}{}", stmts(r, d - 1, in_loop)); } s += "{% endfor %}"; }
    6 => s += &format!("{{% set q = {} %}}", expr(r, 1)), 7 if d > 0 => s += &format!("{{% set q %}}{}{{% endset %}}", stmts(r, d - 1, false)), 8 if d > 0 => s += &format!("{{% filter upper %}}{}{{% endfilter %}}", stmts(r, d - 1, false)),
    9 if in_loop => s += &format!("{{% if {} %}}{{% {} %}}{{% endif %}}", path(r), ["break", "continue"][r.b(2) as usize]), 10 => s += &format!("{{{{ <comp v={{{}}} /> }}}}", expr(r, 1)), _ => s += &format!("{{{{ {} }}}}", path(r)) } } s }
fn jump_target(i: &str) -> Option<(String, usize)> { for k in ["Jump(", "PopJumpIfFalse(", "JumpIfFalseOrPop(", "JumpIfTrueOrPop(", "Iterate("] { if let Some(rest) = i.strip_prefix(k) { return Some((k.to_string(), rest.trim_end_matches(')').parse().unwrap())); } } None }
fn strs(i: &str) -> Vec<String> { // parse ["a", "b"] list of simple idents
    i.split('"').enumerate().filter(|(k, _)| k % 2 == 1).map(|(_, s)| s.to_string()).collect() }
fn align(orig: &[String], opt: &[String]) -> Result<(usize, usize), String> { // returns (groups, jumps)
    let mut map = vec![usize::MAX; orig.len() + 1]; let mut inside = vec![false; orig.len() + 1]; let (mut i, mut j, mut groups) = (0, 0, 0);
    while j < opt.len() { let o = &opt[j];
        if o.starts_with("LoadPath(") || o.starts_with("WritePath(") { let p = strs(o); if p.is_empty() { return Err(format!("empty path at {j}")); }
            if orig.get(i) != Some(&format!("LoadName({:?})", p[0])) { return Err(format!("group at new {j}: orig[{i}]={:?} is not LoadName({:?})", orig.get(i), p[0])); } if p[0] == "__tera_context" && p.len() == 1 && o.starts_with("LoadPath") { return Err("magic var fused".into()); }
            map[i] = j; let start = i; i += 1; for a in &p[1..] { if orig.get(i) != Some(&format!("LoadAttr({a:?})")) { return Err(format!("group at new {j}: orig[{i}]={:?} is not LoadAttr({a:?})", orig.get(i))); } map[i] = j; inside[i] = true; i += 1; }
            if o.starts_with("WritePath(") { if orig.get(i).map(|s| s.as_str()) != Some("WriteTop") { return Err(format!("WritePath at new {j} without WriteTop at orig {i}")); } map[i] = j; inside[i] = true; i += 1; } else if p.len() < 2 { return Err("LoadPath of length 1".into()); }
            let _ = start; groups += 1; j += 1; continue; }
        let Some(oi) = orig.get(i) else { return Err(format!("optimised has extra instruction {o:?}")) };
        match (jump_target(oi), jump_target(o)) { (Some((k1, _)), Some((k2, _))) if k1 == k2 => {}, (None, None) if oi == o => {}, _ => return Err(format!("orig[{i}]={oi:?} vs opt[{j}]={o:?}")) }
        map[i] = j; i += 1; j += 1; }
    if i != orig.len() { return Err(format!("optimised is missing orig[{i}..]")); } map[orig.len()] = opt.len();
    let mut jumps = 0; for (i, oi) in orig.iter().enumerate() { if let Some((_, t)) = jump_target(oi) { jumps += 1; if t > orig.len() { return Err(format!("orig jump out of range at {i}")); } if inside[t] { return Err(format!("jump at orig {i} targets {t} inside a merged group")); } let (_, nt) = jump_target(&opt[map[i]]).unwrap(); if nt != map[t] { return Err(format!("jump at orig {i}->{t} became {}->{nt}, expected {}", map[i], map[t])); } } }
    Ok((groups, jumps)) }
fn main() {
    let mut r = R(std::env::args().nth(1).map(|s| s.parse().unwrap()).unwrap_or(88172645463325252));
    let mk = |depth: u8| -> Value { let mut c = Map::new(); c.insert("c".into(), Value::from(vec![Value::from(1), Value::from(0)])); let mut b = Map::new(); if depth >= 2 { b.insert("b".into(), Value::from(c.clone())); b.insert("c".into(), Value::from("bc")); } let mut a = Map::new(); if depth >= 1 { a.insert("b".into(), Value::from(b)); a.insert("c".into(), Value::from(vec![Value::from("i")])); } Value::from(a) };
    let ctxs: Vec<Context> = (0..6).map(|k| { let mut c = Context::new(); match k { 0 => {} 1 => c.insert_value("a", Value::none()), 2 => c.insert_value("a", mk(0)), 3 => c.insert_value("a", mk(1)), 4 => { c.insert_value("a", mk(2)); c.insert_value("x", mk(1)); } _ => { c.insert_value("a", Value::from(vec![mk(2), mk(1)])); c.insert_value("q", mk(2)); } } c }).collect();
    let (mut n, mut chunks, mut groups, mut jumps, mut renders, mut bad) = (0, 0, 0, 0, 0, 0); let mut shown = 0;
    for _ in 0..30000 {
        let body = stmts(&mut r, 3, false); let src = format!("{body}{{% block bl %}}{}{{% endblock %}}", stmts(&mut r, 2, false)); let comps = format!("{{% component comp(v) %}}{}{{{{ v }}}}{{% endcomponent %}}", stmts(&mut r, 1, false).replace("<comp", "<comp2").replace("{{ <comp2 v={", "{{ (").replace("} /> }}", ") }}"));
        let tpls = vec![("comps".to_string(), comps), ("t".to_string(), src.clone())];
        tera::verif::set_skip_optimize(true); let mut plain = Tera::default(); let r1 = plain.add_raw_templates(tpls.clone()); tera::verif::set_skip_optimize(false); let mut opt = Tera::default(); let r2 = opt.add_raw_templates(tpls.clone());
        if r1.is_err() != r2.is_err() { bad += 1; println!("ADD DIFFERS {tpls:?}"); continue; } if r1.is_err() { continue; } n += 1;
        for name in ["t", "comps"] { let a = plain.verif_chunks(name).unwrap(); let b = opt.verif_chunks(name).unwrap();
            for ((la, ia), (_, ib)) in a.iter().zip(&b) { chunks += 1; match align(ia, ib) { Ok((g, j)) => { groups += g; jumps += j; } Err(e) => { bad += 1; if shown < 6 { shown += 1; println!("STRUCTURAL {name}/{la}: {e}\n  src={tpls:?}\n  orig={ia:?}\n  opt={ib:?}"); } } } } }
        for c in &ctxs { renders += 1; let x = plain.render("t", c); let y = opt.render("t", c); match (&x, &y) { (Ok(p), Ok(q)) if p == q => {}, (Err(_), Err(_)) => {}, _ => { bad += 1; if shown < 6 { shown += 1; println!("DIFFERENTIAL src={src:?}\n ctx={c:?}\n plain={:?}\n opt={:?}", x.as_ref().map_err(|e| e.to_string()), y.as_ref().map_err(|e| e.to_string())); } } }
            let x = plain.render_block("t", "bl", c); let y = opt.render_block("t", "bl", c); if x.is_ok() != y.is_ok() || (x.is_ok() && x.as_ref().unwrap() != y.as_ref().unwrap()) { bad += 1; } }
    }
    let (ends, unbalanced) = tera::verif::render_end_report();
    println!("programs={n} chunks={chunks} merged_groups={groups} jumps_checked={jumps} renders={renders} bad={bad}; render_end events={ends} unbalanced={}", unbalanced.len());
    for u in unbalanced.iter().take(5) { println!("  UNBALANCED {u:?}"); }
}
