// Prototype: C18 concurrency driver (run plain, under TSan, under Miri with fewer iterations)
use tera::{Tera, Context, Value, Kwargs, State};
use std::sync::{Arc, Barrier};
fn main() {
    let threads: usize = std::env::args().nth(1).map(|s| s.parse().unwrap()).unwrap_or(8); let iters: usize = std::env::args().nth(2).map(|s| s.parse().unwrap()).unwrap_or(200);
    let mut t = Tera::default();
    t.register_filter("twice", |s: &str, _: Kwargs, _: &State| format!("{s}{s}"));
    t.register_function("answer", |_: Kwargs, st: &State| -> tera::TeraResult<i64> { Ok(st.get::<i64>("n")?.unwrap_or(0) + 42) });
    t.global_context().insert("g", "G&");
    t.add_raw_templates(vec![
        ("comps.html", "{% component card(title: string, n = 1, ...rest) %}<c {{ title }} {{ n }} {{ rest }}>{{ body | default(value='') }}</c>{% endcomponent %}"),
        ("base.html", "<{% block head %}H{{ g }}{% endblock %}|{% block body %}{% endblock %}>"),
        ("inc.html", "[{{ x | twice }}{{ {} }}{{ m | default(value={}) }}]"),
        ("page.html", "{% extends 'base.html' %}{% block body %}{{ super() }}{% for x in xs %}{% include 'inc.html' %}{{ loop.index }}{% endfor %}{% set c %}{{ <card title={t} n={answer()} k='v' /> }}{% endset %}{{ c }}{% <card title='b'> %}B{{ xs | sort | unique | join(sep=',') }}{% </card> %}{{ m.a.b ~ s[1:] | upper }}{% endblock %}"),
    ]).unwrap();
    let mk = |i: usize| { let mut c = Context::new(); c.insert("xs", &vec![format!("é{i}<"), "b".to_string(), "a".to_string()]); c.insert("t", &format!("T{i}")); c.insert("n", &(i as i64)); c.insert("s", "日本語"); let mut b = tera::value::Map::new(); b.insert("b".into(), Value::from(i as u64)); let mut a = tera::value::Map::new(); a.insert("a".into(), Value::from(b)); c.insert_value("m", Value::from(a)); c };
    let ctxs: Vec<Context> = (0..4).map(mk).collect();
    let tera = Arc::new(t); let ctxs = Arc::new(ctxs); let barrier = Arc::new(Barrier::new(threads));
    // the sequential reference is computed AFTER the concurrent phase so that lazily initialised statics are first touched concurrently
    let hs: Vec<_> = (0..threads).map(|ti| { let (t, c, b) = (tera.clone(), ctxs.clone(), barrier.clone()); std::thread::spawn(move || { b.wait(); let mut outs = vec![]; for i in 0..iters { let k = (i + ti) % c.len(); outs.push((k, t.render("page.html", &c[k]).unwrap(), t.render_block("page.html", "head", &c[k]).unwrap(), t.render_component("card", &tera::context! { title => "x" }, Some("b"), true).unwrap(), t.render_str("{{ xs | length }}{{ g }}", &c[k], true).unwrap())); } outs }) }).collect();
    let results: Vec<_> = hs.into_iter().map(|h| h.join().unwrap()).collect();
    let reference: Vec<_> = (0..ctxs.len()).map(|k| (tera.render("page.html", &ctxs[k]).unwrap(), tera.render_block("page.html", "head", &ctxs[k]).unwrap(), tera.render_component("card", &tera::context! { title => "x" }, Some("b"), true).unwrap(), tera.render_str("{{ xs | length }}{{ g }}", &ctxs[k], true).unwrap())).collect();
    let mut bad = 0; let mut n = 0; for outs in &results { for (k, a, b, c, d) in outs { n += 1; if (a, b, c, d) != (&reference[*k].0, &reference[*k].1, &reference[*k].2, &reference[*k].3) { bad += 1; } } }
    println!("threads={threads} renders={} mismatches={bad} sample={}", n * 4, &reference[1].0);
}
