// Prototype: C12 fault injection with known coordinates
use tera::{Tera, Context, ErrorKind};
use std::panic::{catch_unwind, AssertUnwindSafe};
struct R(u64);
impl R { fn n(&mut self) -> u64 { self.0 ^= self.0 << 13; self.0 ^= self.0 >> 7; self.0 ^= self.0 << 17; self.0 } fn b(&mut self, n: u64) -> u64 { self.n() % n } }
fn pos(src: &str, off: usize) -> Option<(usize, usize)> { if off > src.len() || !src.is_char_boundary(off) { return None; } let before = &src[..off]; Some((1 + before.matches('\n').count(), before.rsplit('\n').next().unwrap().chars().count())) }
fn filler(r: &mut R) -> String { let p = ["héllo ", "wörld\n", "日本語 ", "\r\n", "  ", "{{ 1 }}", "{% if true %}ok{% endif %}", "{# cömment #}", "\n\n", "x", "😀 ", "{{ good.b }}", "{% for i in [1] %}{{ i }}{% endfor %}\n"]; let mut s = String::new(); for _ in 0..r.b(6) { s += p[r.b(p.len() as u64) as usize]; } s }
// (fault source, token inside it that the span must touch, is_syntax)
const RENDER_FAULTS: [(&str, &str); 16] = [("{{ nope_var }}", "nope_var"), ("{{ good.zz.deeper }}", "zz"), ("{{ 1 + \"a\" }}", "\"a\""), ("{{ good.b / 0 }}", "0"), ("{{ good | upper }}", "good"), ("{{ good.b | truncate }}", "good.b"), ("{% for q in good.b %}{% endfor %}", "good.b"), ("{{ [1,2][::zero] }}", "[1,2]"),
    ("{{ throw(message=\"boom\") }}", "throw"), ("{{ nope_a.field }}", "nope_a"), ("{{ good.b < \"s\" }}", "good.b < \"s\""), ("{{ -good }}", "good"), ("{{ <typed n={\"str\"} /> }}", "<typed"), ("{{ <typed /> }}", "<typed"), ("{{ 1 in good.b }}", "good.b"), ("{{ good.b + nope_tail }}", "nope_tail")];
const SYNTAX_FAULTS: [(&str, &str); 8] = [("{{ 1 + }}", "}}"), ("{% bogus %}", "bogus"), ("{{ \"unterminated }}", "\"unterminated"), ("{% if true %}x{% endfor %}", "endfor"), ("{{ a b }}", "b"), ("{{ 1 ? 2 }}", "?"), ("{% set = 1 %}", "="), ("{{ a | }}", "}}")];
fn check(r: &tera::ReportError, src: &str, fname: &str, fault_off: usize, fault: &str, tok: &str, disp: &str, why: &mut Vec<String>) {
    let sp = r.span(); if r.filename() != fname { why.push(format!("filename {} != {fname}", r.filename())); return; }
    if sp.range.start > sp.range.end || sp.range.end > src.len() { why.push("range oob".into()); return; }
    match (pos(src, sp.range.start), pos(src, sp.range.end)) { (Some(ps), Some(pe)) => { if (sp.start_line, sp.start_col) != ps && (sp.start_line, sp.start_col) != pe { why.push(format!("start {}:{} vs {:?}", sp.start_line, sp.start_col, ps)); } if (sp.end_line, sp.end_col) != pe { why.push(format!("end {}:{} vs {:?}", sp.end_line, sp.end_col, pe)); } } _ => why.push("not on char boundary".into()) }
    let (fs, fe) = (fault_off, fault_off + fault.len()); if sp.range.end < fs || sp.range.start > fe { why.push(format!("span {:?} does not touch fault {fs}..{fe}", sp.range)); }
    else if sp.range.start < fs || sp.range.end > fe { why.push(format!("span {:?} leaks outside fault {fs}..{fe}", sp.range)); }
    else { let ts = fs + fault.find(tok).unwrap(); let te = ts + tok.len(); if (sp.range.end <= ts || sp.range.start >= te) && !(sp.range.is_empty() && sp.range.start >= ts && sp.range.start <= te) { why.push(format!("span {:?} misses token {tok:?} at {ts}..{te}", sp.range)); } }
    if !disp.contains(&format!("--> {fname}:{}:{}", sp.start_line, sp.start_col + 1)) { why.push("locus missing".into()); }
    if let Some(line) = src.split('\n').nth(sp.start_line.wrapping_sub(1)) { if !disp.contains(line) { why.push("line not quoted".into()); } }
}
fn main() {
    std::panic::set_hook(Box::new(|_| {}));
    let mut r = R(std::env::args().nth(1).map(|s| s.parse().unwrap()).unwrap_or(88172645463325252));
    let (mut n, mut bad, mut located) = (0, 0, 0); let mut classes = std::collections::BTreeMap::new();
    for _ in 0..60000 {
        let syntax = r.b(4) == 0; let (fault, tok) = if syntax { SYNTAX_FAULTS[r.b(8) as usize] } else { RENDER_FAULTS[r.b(16) as usize] };
        let placement = r.b(6); // 0 top-level of entry, 1 in block of parent, 2 in block of child, 3 in included, 4 in component body, 5 in included-of-included
        let pre = filler(&mut r); let post = filler(&mut r);
        let faulty_body = format!("{pre}{fault}{post}"); let fault_off = pre.len();
        let typed = "{% component typed(n: integer) %}{{ n }}{% endcomponent %}";
        let (mut tpls, entry, faulty_name, off): (Vec<(String, String)>, &str, &str, usize) = match placement {
            0 => (vec![("entry.html".into(), faulty_body.clone())], "entry.html", "entry.html", fault_off),
            1 => { let head = format!("{}{{% block a %}}", filler(&mut r)); (vec![("parent.html".into(), format!("{head}{faulty_body}{{% endblock %}}")), ("entry.html".into(), "{% extends \"parent.html\" %}".into())], "entry.html", "parent.html", head.len() + fault_off) }
            2 => { let head = format!("{{% extends \"parent.html\" %}}\n{{% block a %}}{{{{ super() }}}}"); (vec![("parent.html".into(), "P{% block a %}pa{% endblock %}".into()), ("entry.html".into(), format!("{head}{faulty_body}{{% endblock %}}"))], "entry.html", "entry.html", head.len() + fault_off) }
            3 => (vec![("inc.html".into(), faulty_body.clone()), ("entry.html".into(), format!("{}{{% include \"inc.html\" %}}", filler(&mut r)))], "entry.html", "inc.html", fault_off),
            4 => { let head = "{% component faulty(good, zero) %}".to_string(); (vec![("lib.html".into(), format!("{head}{faulty_body}{{% endcomponent %}}")), ("entry.html".into(), format!("{}{{{{ <faulty good={{good}} zero={{zero}} /> }}}}", filler(&mut r)))], "entry.html", "lib.html", head.len() + fault_off) }
            _ => (vec![("inc2.html".into(), faulty_body.clone()), ("inc.html".into(), format!("{}{{% include \"inc2.html\" %}}", filler(&mut r))), ("entry.html".into(), format!("é\n{{% include \"inc.html\" %}}"))], "entry.html", "inc2.html", fault_off),
        };
        tpls.push(("types.html".into(), typed.into()));
        let src = tpls.iter().find(|(n, _)| n == faulty_name).unwrap().1.clone();
        let mut t = Tera::default(); let mut ctx = Context::new(); ctx.insert("good", &std::collections::BTreeMap::from([("b", 5)])); ctx.insert("zero", &0);
        n += 1;
        let res = catch_unwind(AssertUnwindSafe(|| match t.add_raw_templates(tpls.clone()) { Err(e) => Err(e), Ok(()) => t.render(entry, &ctx).map(|_| ()) }));
        let mut why = vec![];
        match res { Err(_) => why.push("PANIC".to_string()), Ok(Ok(())) => why.push("no error".into()), Ok(Err(e)) => { let disp = catch_unwind(AssertUnwindSafe(|| e.to_string())); match disp { Err(_) => why.push("DISPLAY PANIC".into()), Ok(d) => match e.kind() {
            ErrorKind::SyntaxError(rep) if syntax => { located += 1; check(rep, &src, faulty_name, off, fault, tok, &d, &mut why) }
            ErrorKind::RenderingError(rep) if !syntax => { located += 1; check(rep, &src, faulty_name, off, fault, tok, &d, &mut why); let want_notes = match placement { 3 | 4 => 1, 5 => 2, _ => 0 }; let notes = d.matches("note: called from").count(); if notes != want_notes { why.push(format!("notes {notes} != {want_notes}")); } }
            k => why.push(format!("unexpected kind {k:?}").chars().take(80).collect()) } } } }
        if !why.is_empty() { bad += 1; let key: String = format!("{fault} @p{placement}: {}", why.join("; ")).chars().map(|c| if c.is_ascii_digit() { '#' } else { c }).collect(); let e = classes.entry(key.chars().take(150).collect::<String>()).or_insert((0, tpls.clone())); e.0 += 1; }
    }
    println!("faults={n} located={located} bad={bad}");
    let mut cl: Vec<_> = classes.iter().collect(); cl.sort_by(|a, b| b.1.0.cmp(&a.1.0)); for (k, (c, ex)) in cl.iter().take(45) { println!("{c:5} {k}\n        e.g. {:?}", format!("{ex:?}").chars().take(300).collect::<String>()); }
}
