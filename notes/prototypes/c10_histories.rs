// Prototype: C10 atomic, history-independent registration, using only public observables (the real check
// also compares the H4 digest). After every failed call the observables must equal the pre-call snapshot;
// after every successful call they must equal those of a fresh instance given the resulting set in one
// shuffled batch. 6 k histories / 34 k calls agreed. Throwaway design-time probe.
use std::collections::BTreeMap;
use tera::{Context, Tera};
struct R(u64);
impl R {
    fn n(&mut self) -> u64 { self.0 ^= self.0 << 13; self.0 ^= self.0 >> 7; self.0 ^= self.0 << 17; self.0 }
    fn b(&mut self, n: u64) -> u64 { self.n() % n }
}
fn observe(t: &Tera, names: &[&str]) -> BTreeMap<String, String> {
    let mut ctx = Context::new();
    ctx.insert("v", "<V>");
    let mut o = BTreeMap::new();
    let mut tn: Vec<&str> = t.get_template_names().collect();
    tn.sort();
    o.insert("__names".into(), format!("{tn:?}"));
    let line = |r: tera::TeraResult<String>| match r { Ok(s) => format!("OK {s}"), Err(e) => format!("ERR {}", e.to_string().lines().next().unwrap_or("")) };
    for n in names {
        o.insert(format!("r:{n}"), line(t.render(n, &ctx)));
        for b in ["a", "b"] { o.insert(format!("b:{n}:{b}"), line(t.render_block(n, b, &ctx))); }
    }
    for c in ["C1", "C2"] {
        o.insert(format!("c:{c}"), line(t.render_component(c, &Context::new(), None, true)));
        o.insert(format!("d:{c}"), format!("{:?}", t.get_component_definition(c).map(|i| (i.name().to_string(), i.args().len()))));
    }
    o
}
fn main() {
    let mut r = R(std::env::args().nth(1).map(|s| s.parse().unwrap()).unwrap_or(88172645463325252));
    let names = ["x.html", "y.html", "z.txt", "t/x.html", "w.html"];
    let menu: Vec<String> = vec![
        "plain {{ v }}".into(), "{% block a %}A{{ v }}{% endblock %}{% block b %}B{% endblock %}".into(),
        "{% extends \"x.html\" %}{% block a %}cx {{ super() }}{% endblock %}".into(), "{% extends \"y.html\" %}{% block b %}cy{{ super() }}{% endblock %}".into(), "{% extends \"w.html\" %}{% block a %}cw{% endblock %}".into(),
        "{% include \"x.html\" %}|{% include \"z.txt\" %}".into(), "{% include \"y.html\" %}".into(), "{% include \"w.html\" %}".into(),
        "{% component C1() %}c1 in NAME{% endcomponent %}body {{ v }}".into(), "{% component C2(a = 1) %}c2{{ a }}{% endcomponent %}{{ <C2 /> }}".into(), "{{ <C1 /> }}{{ v }}".into(), "{{ <C2 a={2} /> }}".into(),
        "{% block orphan %}{% endblock %}{% extends \"x.html\" %}".into(), "{% extends \"x.html\" %}{% block orphan %}o{% endblock %}".into(),
        "{{ v | nofilter }}".into(), "{% if %}".into(), "{{ nofn() }}".into(), "{{ v is notest }}".into(), "{% extends \"missing\" %}".into(), "{% include \"missing\" %}".into(), "{{ <Nope /> }}".into(),
        "{% extends \"x\" %}".into(), "{% block a %}{% block b %}nested{% endblock %}{{ v }}{% endblock %}".into(),
    ];
    let (mut hist, mut calls, mut fails, mut bad) = (0, 0, 0, 0);
    let mut shown = 0;
    for _ in 0..6000 {
        hist += 1;
        let use_prefix = r.b(2) == 0;
        let mut t = Tera::default();
        if use_prefix { t.set_fallback_prefixes(vec!["t/"]).unwrap(); }
        let mut model: BTreeMap<String, String> = BTreeMap::new(); // the sequential model of the template set
        let mut suffixes: Option<Vec<String>> = None;
        let mut log = vec![];
        for _ in 0..(1 + r.b(12)) {
            if r.b(8) == 0 { let s: Vec<String> = match r.b(3) { 0 => vec![], 1 => vec![".txt".into()], _ => vec![".html".into(), ".txt".into()] }; t.autoescape_on(s.clone()); suffixes = Some(s.clone()); log.push(format!("autoescape_on({s:?})")); continue; }
            let k = 1 + r.b(3) as usize;
            let batch: Vec<(String, String)> = (0..k).map(|_| { let n = names[r.b(names.len() as u64) as usize]; (n.to_string(), menu[r.b(menu.len() as u64) as usize].replace("NAME", n)) }).collect();
            let before = observe(&t, &names);
            calls += 1;
            log.push(format!("add({batch:?})"));
            match t.add_raw_templates(batch.clone()) {
                Err(_) => { fails += 1; let after = observe(&t, &names); if after != before { bad += 1; if shown < 6 { shown += 1; println!("ROLLBACK MISMATCH log={log:?}"); for (k, v) in &before { if after.get(k) != Some(v) { println!("   {k}: before={v:?} after={:?}", after.get(k)); } } } } }
                Ok(()) => {
                    for (n, s) in batch { model.insert(n, s); }
                    let mut fresh = Tera::default();
                    if use_prefix { fresh.set_fallback_prefixes(vec!["t/"]).unwrap(); }
                    if let Some(s) = &suffixes { fresh.autoescape_on(s.clone()); }
                    let mut all: Vec<(String, String)> = model.iter().map(|(a, b)| (a.clone(), b.clone())).collect();
                    for i in (1..all.len()).rev() { let j = r.b(i as u64 + 1) as usize; all.swap(i, j); }
                    match fresh.add_raw_templates(all) {
                        Err(e) => { bad += 1; if shown < 6 { shown += 1; println!("FRESH REJECTS what incremental accepted: {e}\n log={log:?}"); } }
                        Ok(()) => { let a = observe(&t, &names); let b = observe(&fresh, &names); if a != b { bad += 1; if shown < 6 { shown += 1; println!("HISTORY MISMATCH log={log:?}"); for (k, v) in &a { if b.get(k) != Some(v) { println!("   {k}: incr={v:?} fresh={:?}", b.get(k)); } } } } }
                    }
                }
            }
        }
    }
    println!("histories={hist} calls={calls} failed_calls={fails} bad={bad}");
}
