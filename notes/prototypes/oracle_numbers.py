#!/usr/bin/env python3
"""Prototype offline oracle for C13: reads TSV records  op \t repr:a \t repr:b \t output|ERR  produced by rendering
{{ a OP b }} / {{ -a }} with a, b as context values, and decides them with exact integers.
Design-time probe: on the pinned tree the only classes it reports are F7 (i128::MIN % -1 and {-1,0,1} ** huge)."""
import sys, math
I128MIN=-(1<<127); I128MAX=(1<<127)-1
def parse(s):
    k,v=s.split(':',1)
    return ('f', float(v)) if k=='f64' else ('i', int(v))
def fits(x): return I128MIN<=x<=I128MAX
def pf(out):
    if out=='ERR': return ('E',None)
    if out in('true','false'): return ('b', out=='true')
    if out=='NaN': return ('f', float('nan'))
    if out in('inf','-inf'): return ('f', float(out))
    if any(c in out for c in '.e'): return ('f', float(out))
    return ('i', int(out))
def feq(x,y):
    if math.isnan(x) or math.isnan(y): return math.isnan(x) and math.isnan(y)
    return x==y and math.copysign(1,x)==math.copysign(1,y)
def exact_cmp(a,b):
    (ka,va),(kb,vb)=a,b
    na = ka=='f' and math.isnan(va); nb = kb=='f' and math.isnan(vb)
    if na and nb: return 0
    if na: return 1
    if nb: return -1
    return (va>vb)-(va<vb)          # Python compares int and float exactly
bad={}; n=0
def report(kind,rec,exp): bad.setdefault(kind,[]).append((rec,exp))
for line in open(sys.argv[1]):
    op,an,bn,out=line.rstrip('\n').split('\t'); n+=1
    a=parse(an); r=pf(out)
    if op=='neg':
        if a[0]=='i': exp=('E',None) if not fits(a[1]) else (('i',-a[1]) if fits(-a[1]) else ('E',None))
        else: exp=('f',-a[1])
        ok = (r[0]==exp[0]) and (r[0]=='E' or (feq(r[1],exp[1]) if r[0]=='f' else r[1]==exp[1]))
        if not ok: report('neg',line.strip(),exp)
        continue
    b=parse(bn)
    if op in('==','!=','<','<=','>','>='):
        c=exact_cmp(a,b); e={'==':c==0,'!=':c!=0,'<':c<0,'<=':c<=0,'>':c>0,'>=':c>=0}[op]
        if r!=('b',e): report('cmp',line.strip(),e)
        continue
    anyf = a[0]=='f' or b[0]=='f'
    if (a[0]=='i' and not fits(a[1])) or (b[0]=='i' and not fits(b[1])):
        if r[0]!='E': report('operand-out-of-range',line.strip(),'ERR')
        continue
    if op=='/':
        fa=float(a[1]); fb=float(b[1])
        if fb==0: exp=('E',None)
        else:
            try: exp=('f',fa/fb)
            except OverflowError: exp=('f', math.copysign(math.inf, fa)*math.copysign(1,fb))
        if not (r[0]==exp[0] and (r[0]=='E' or feq(r[1],exp[1]))): report('div',line.strip(),exp)
        continue
    if not anyf:
        x,y=a[1],b[1]
        if op=='+': e=x+y
        elif op=='-': e=x-y
        elif op=='*': e=x*y
        elif op in('//','%'):
            if y==0: e=None
            else:
                rr = x % abs(y)            # Euclidean remainder: 0 <= rr < |y|
                q = (x-rr)//y
                e = q if op=='//' else rr
        elif op=='**':
            if y<0:
                if r[0]=='i': report('pow-negative-exponent-gave-int',line.strip(),'float')
                continue
            if abs(x)<=1: e = (1 if y==0 else 0) if x==0 else (1 if x==1 or y%2==0 else -1)
            elif y>130: e=1<<200
            else: e=x**y
        exp=('E',None) if (e is None or not fits(e)) else ('i',e)
        if r!=exp and not (r[0]=='E' and exp[0]=='E'): report('int-'+op,line.strip(),exp)
        continue
    fa=float(a[1]); fb=float(b[1])
    if r[0]=='i': report('float-op-gave-int',line.strip(),'float'); continue
    if op in('+','-','*'):
        e={'+':fa+fb,'-':fa-fb,'*':fa*fb}[op]
        if not (r[0]=='f' and feq(r[1],e)): report('float-'+op,line.strip(),e)
    elif op in('//','%') and fb==0 and r[0]!='E': report('float-divzero',line.strip(),'ERR')
print("records",n)
for k,v in bad.items():
    print("==",k,len(v))
    for rec,exp in v[:8]: print("   ",rec,"  expected:",exp)
sys.exit(1 if bad else 0)
