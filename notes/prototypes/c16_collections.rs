// Prototype: C16 collection filter contracts (sort/unique/group_by/first/last/nth/reverse/join/split/keys/values/pairs)
use tera::{Tera, Context, Value, value::{Map, Key}};
use std::panic::{catch_unwind, AssertUnwindSafe};
use std::cmp::Ordering;
struct R(u64);
impl R { fn n(&mut self) -> u64 { self.0 ^= self.0 << 13; self.0 ^= self.0 >> 7; self.0 ^= self.0 << 17; self.0 } fn b(&mut self, n: u64) -> u64 { self.n() % n } }
fn key(r: &mut R, mix: u64) -> Value { match r.b(mix) {
    0 => Value::from(r.b(4) as i64), 1 => Value::from(r.b(4) as u64), 2 => Value::from(r.b(4) as f64 + if r.b(2) == 0 { 0.5 } else { 0.0 }), 3 => Value::from(r.b(4) as i128),
    4 => Value::from(["a", "b", "ab", ""][r.b(4) as usize]), 5 => Value::from(r.b(2) == 0), 6 => Value::none(),
    7 => Value::from(vec![Value::from(r.b(3) as i64)]), 8 => Value::from(vec![Value::from(["x", "y"][r.b(2) as usize])]), 9 => { let mut m = Map::new(); m.insert("q".into(), Value::from(r.b(3) as i64)); Value::from(m) }
    10 => Value::from(f64::NAN), _ => Value::from(vec![Value::from(1), Value::from(vec![Value::from(r.b(2) as i64)])]) } }
// model comparability: same class and recursively comparable
fn pc(a: &Value, b: &Value) -> Option<Ordering> { a.partial_cmp(b) } // NOTE prototype uses engine partial_cmp as the "model order"; the real harness has its own
fn main() {
    std::panic::set_hook(Box::new(|_| {}));
    let mut t = Tera::default();
    t.add_raw_templates(vec![("sort_attr", "{% for e in xs | sort(attribute='k') %}{{ e.id }},{% endfor %}"), ("sort_plain", "{{ ks | sort | length }}"), ("uniq", "{% for e in ks | unique %}{{ e }};{% endfor %}"), ("uniq_ids", "{{ ks | unique | length }}"),
        ("grp", "{% for k, g in xs | group_by(attribute='k') %}{{ k }}=[{% for e in g %}{{ e.id }},{% endfor %}];{% endfor %}"),
        ("misc", "{{ ks | first == ks | nth(n=0) }}|{{ ks | last == ks | reverse | first }}|{{ ks | reverse | reverse == ks }}|{{ ks | length }}")]).unwrap();
    let mut r = R(std::env::args().nth(1).map(|s| s.parse().unwrap()).unwrap_or(88172645463325252));
    let (mut n, mut bad, mut errs, mut sorted_ok) = (0, 0, 0, 0); let mut shown = 0;
    macro_rules! fail { ($($a:tt)*) => {{ bad += 1; if shown < 10 { shown += 1; println!($($a)*); } }} }
    for _ in 0..40000 {
        let len = r.b(60) as usize; let mix = [3, 5, 7, 9, 12][r.b(5) as usize];
        let keys: Vec<Value> = (0..len).map(|_| key(&mut r, mix)).collect();
        let xs: Vec<Value> = keys.iter().enumerate().map(|(i, k)| { let mut m = Map::new(); m.insert("id".into(), Value::from(i as u64)); m.insert("k".into(), k.clone()); Value::from(m) }).collect();
        let mut ctx = Context::new(); ctx.insert_value("xs", Value::from(xs)); ctx.insert_value("ks", Value::from(keys.clone()));
        n += 1;
        // --- sort by attribute
        let incomparable = { let nn: Vec<&Value> = keys.iter().filter(|k| !k.is_none()).collect(); let mut inc = false; 'o: for i in 0..nn.len() { for j in i+1..nn.len() { if pc(nn[i], nn[j]).is_none() { inc = true; break 'o; } } } inc };
        match catch_unwind(AssertUnwindSafe(|| t.render("sort_attr", &ctx))) { Err(_) => fail!("SORT PANIC keys={keys:?}"),
            Ok(Err(_)) => { errs += 1; if !incomparable && len > 0 { fail!("SORT ERR but all comparable keys={keys:?}"); } }
            Ok(Ok(out)) => { if incomparable { fail!("SORT OK but incomparable keys={keys:?} out={out}"); } else { sorted_ok += 1;
                let ids: Vec<usize> = out.split(',').filter(|s| !s.is_empty()).map(|s| s.parse().unwrap()).collect();
                let mut perm = ids.clone(); perm.sort(); if perm != (0..len).collect::<Vec<_>>() { fail!("SORT not permutation keys={keys:?} ids={ids:?}"); }
                for w in ids.windows(2) { let (a, b) = (&keys[w[0]], &keys[w[1]]); if a.is_none() || b.is_none() { if a.is_none() && !b.is_none() { fail!("SORT none not last keys={keys:?} ids={ids:?}"); } continue; }
                    match pc(a, b) { Some(Ordering::Greater) => fail!("SORT not ordered keys={keys:?} ids={ids:?}"), Some(Ordering::Equal) => if w[0] > w[1] { fail!("SORT unstable keys={keys:?} ids={ids:?}") }, _ => {} } } } } }
        // --- unique
        match catch_unwind(AssertUnwindSafe(|| t.render("uniq_ids", &ctx))) { Err(_) => fail!("UNIQUE PANIC keys={keys:?}"), Ok(Err(e)) => fail!("UNIQUE ERR {e}"), Ok(Ok(out)) => {
            let mut reps: Vec<&Value> = vec![]; for k in &keys { if !reps.iter().any(|r| *r == k) { reps.push(k); } }
            if out != reps.len().to_string() { fail!("UNIQUE count {out} != {} keys={keys:?}", reps.len()); } } }
        // --- group_by (keys all present; non-key kinds -> error allowed)
        let groupable = keys.iter().all(|k| k.is_none() || k.is_string() || k.is_bool() || (k.is_number() && !k.is_f64()));
        match catch_unwind(AssertUnwindSafe(|| t.render("grp", &ctx))) { Err(_) => fail!("GROUP PANIC keys={keys:?}"), Ok(Err(_)) => { if groupable { fail!("GROUP ERR on groupable keys={keys:?}"); } }
            Ok(Ok(out)) => { if !groupable { fail!("GROUP OK on non-key kinds keys={keys:?}"); } else {
                let mut seen = vec![]; for g in out.split(';').filter(|s| !s.is_empty()) { let (_, ids) = g.split_once("=[").unwrap(); let ids: Vec<usize> = ids.trim_end_matches(']').split(',').filter(|s| !s.is_empty()).map(|s| s.parse().unwrap()).collect();
                    if ids.windows(2).any(|w| w[0] > w[1]) { fail!("GROUP order not preserved {out} keys={keys:?}"); } if ids.windows(2).any(|w| keys[w[0]] != keys[w[1]]) { fail!("GROUP mixes keys {out} keys={keys:?}"); } seen.extend(ids); }
                let mut exp: Vec<usize> = (0..len).filter(|i| !keys[*i].is_none()).collect(); seen.sort(); exp.sort(); if seen != exp { fail!("GROUP not a partition {out} keys={keys:?}"); }
                let ngroups = out.split(';').filter(|s| !s.is_empty()).count(); let mut reps: Vec<&Value> = vec![]; for k in keys.iter().filter(|k| !k.is_none()) { if !reps.iter().any(|r| *r == k) { reps.push(k); } } if ngroups != reps.len() { fail!("GROUP count {ngroups} != {} {out} keys={keys:?}", reps.len()); } } } }
        match catch_unwind(AssertUnwindSafe(|| t.render("misc", &ctx))) { Ok(Ok(out)) => { let exp = format!("true|true|true|{len}"); if out != exp && !(len == 0) { fail!("MISC {out} != {exp} keys={keys:?}"); } } Ok(Err(e)) => fail!("MISC ERR {e}"), Err(_) => fail!("MISC PANIC") }
    }
    println!("n={n} sort_errs={errs} sorted_ok={sorted_ok} bad={bad}");
}
