// Prototype: C07/C17 totality matrices under overflow-checks: built-ins x receivers x kwargs, and operators x hostile operands
use tera::{Tera, Context, Value};
use std::panic::{catch_unwind, AssertUnwindSafe};
fn main() {
    std::panic::set_hook(Box::new(|i| { eprintln!("PANIC: {i}"); }));
    let filters = ["safe","default","upper","lower","wordcount","escape_html","escape_xml","newlines_to_br","pluralize","trim","trim_start","trim_end","replace","capitalize","title","truncate","indent","str","int","float","length","reverse","split","abs","round","first","last","nth","join","sort","unique","get","values","keys","pairs","group_by"];
    let tests = ["string","number","map","bool","array","integer","float","none","iterable","defined","undefined","odd","even","divisible_by","starting_with","ending_with","containing"];
    let argnames = ["value","boolean","singular","plural","pat","from","to","length","end","width","first","blank","base","method","precision","n","sep","attribute","key","default","divisor"];
    let mut m = tera::value::Map::new(); m.insert("a".into(), Value::from(1)); m.insert("é".into(), Value::from("x")); m.insert(tera::value::Key::I64(3), Value::undefined());
    let mut nested = tera::value::Map::new(); nested.insert("a".into(), Value::from(m.clone()));
    let pool: Vec<Value> = vec![
        Value::undefined(), Value::none(), Value::from(true), Value::from(false), Value::from(0i64), Value::from(-1i64), Value::from(1u64), Value::from(u64::MAX), Value::from(i64::MIN), Value::from(i64::MAX), Value::from(i128::MIN), Value::from(i128::MAX), Value::from(u128::MAX), Value::from(5u128),
        Value::from(0.0), Value::from(-0.0), Value::from(1.5), Value::from(f64::NAN), Value::from(f64::INFINITY), Value::from(f64::NEG_INFINITY), Value::from(1e300), Value::from(-1e300), Value::from(5e-324), Value::from(1.7e38), Value::from(-1.8e38),
        Value::from(""), Value::from("a"), Value::from("é"), Value::from("日本語 hello wörld\n\r\n x"), Value::from("😀"), Value::from(" \t\u{a0}x \u{3000}"), Value::from("0x1f"), Value::from("-12"), Value::from("1.5"), Value::from("1e400"), Value::from("ǆßİı"), Value::safe_string("<b>"), Value::from("a".repeat(3000)), Value::from("-170141183460469231731687303715884105728"),
        Value::from(Vec::<Value>::new()), Value::from(vec![Value::from(1), Value::from("a"), Value::none()]), Value::from(vec![Value::from(m.clone()), Value::from(nested.clone())]), Value::from(vec![Value::from(vec![Value::from(1)]), Value::from(vec![Value::from("a")])]),
        Value::from(tera::value::Map::new()), Value::from(m.clone()), Value::from(nested.clone()), Value::bytes(vec![0xff, 0x00, 0x41]), Value::bytes(Vec::<u8>::new()),
        Value::from(2i64), Value::from(36i64), Value::from(37i64), Value::from(1000000i64), Value::from(i32::MAX as i64), Value::from(i32::MIN as i64), Value::from(400i64), Value::from(-400i64), Value::from(usize::MAX as u64), Value::from(-2i64), Value::from(3i64),
        Value::from("ceil"), Value::from("floor"), Value::from("a.a"), Value::from("…"),
    ];
    let mut t = Tera::default();
    let mut tpls: Vec<(String, String)> = vec![];
    for f in filters { tpls.push((format!("f0_{f}"), format!("{{{{ v | {f} }}}}"))); for a in argnames { tpls.push((format!("f1_{f}_{a}"), format!("{{{{ v | {f}({a}=x) }}}}"))); } }
    for f in tests { tpls.push((format!("t0_{f}"), format!("{{{{ v is {f} }}}}"))); for a in argnames { tpls.push((format!("t1_{f}_{a}"), format!("{{{{ v is {f}({a}=x) }}}}"))); } }
    for (f, a, b) in [("replace","from","to"),("truncate","length","end"),("indent","width","first"),("indent","width","blank"),("round","method","precision"),("default","value","boolean"),("get","key","default"),("pluralize","singular","plural")] { tpls.push((format!("f2_{f}_{a}_{b}"), format!("{{{{ v | {f}({a}=x, {b}=y) }}}}"))); }
    tpls.push(("fn_range".into(), "{{ range(end=x, start=v, step_by=y) | length }}".into())); tpls.push(("fn_throw".into(), "{{ throw(message=v) }}".into()));
    let exprs = ["v + x","v - x","v * x","v / x","v // x","v % x","v ** x","v == x","v != x","v < x","v <= x","v > x","v >= x","v and x","v or x","v ~ x","v in x","v not in x","v[x]","v?[x]","v[x:]","v[:x]","v[::x]","v[x:y]","v[x:y:y]","-v","not v","v.a","v.a.a","v?.a?.a","v if x else y","[v, x]","[...v, x]","{\"k\": v, ...x}","[q for q in v]","[q for q in v if x]","[k for k, w in v]","v | default(value=x)"];
    for (i, e) in exprs.iter().enumerate() { tpls.push((format!("e{i}"), format!("{{{{ {e} }}}}"))); tpls.push((format!("i{i}"), format!("{{% if {e} %}}y{{% endif %}}"))); }
    for (i, s) in ["{% for q in v %}{{ q }}{{ loop.index }}{% endfor %}","{% for k, w in v %}{{ k }}{{ w }}{% endfor %}","{% for q in v %}{% if x %}{% break %}{% endif %}{{ q }}{% else %}E{% endfor %}","{% set z %}{{ v }}{% endset %}{{ z | length }}","{% filter upper %}{{ v }}{{ x }}{% endfilter %}","{{ __tera_context }}"].iter().enumerate() { tpls.push((format!("st{i}.html"), s.to_string())); }
    if let Err(e) = t.add_raw_templates(tpls.clone()) { println!("ADD ERR {e}"); return; }
    let (mut ok, mut err, mut pan) = (0u64, 0u64, 0u64); let mut first = std::collections::BTreeMap::new();
    for (name, src) in &tpls { let three = name.starts_with("f2_") || name.starts_with("fn_range") || src.contains('y'); let one = name.starts_with("f0_") || name.starts_with("t0_");
        for (vi, v) in pool.iter().enumerate() { for (xi, x) in pool.iter().enumerate() { if one && xi > 0 { continue; }
            let ys: Vec<usize> = if three { (0..pool.len()).step_by(3).collect() } else { vec![0] };
            for yi in ys { let mut ctx = Context::new(); if !v.is_undefined() { ctx.insert_value("v", v.clone()); } if !x.is_undefined() { ctx.insert_value("x", x.clone()); } ctx.insert_value("y", pool[yi].clone());
                match catch_unwind(AssertUnwindSafe(|| { let mut out = Vec::new(); let r = t.render_to(name, &ctx, &mut out); (r, out) })) { Ok((Ok(()), out)) => { if std::str::from_utf8(&out).is_err() { pan += 1; first.entry(format!("UTF8 {src}")).or_insert((vi, xi, yi)); } ok += 1 } Ok((Err(e), _)) => { let _ = e.to_string(); err += 1 } Err(_) => { pan += 1; first.entry(src.clone()).or_insert((vi, xi, yi)); } } } } } }
    println!("ok={ok} err={err} panic_or_bad={pan}");
    for (k, v) in first { println!("BAD {k}: v={:?} x={:?} y={:?}", pool[v.0], pool[v.1], pool[v.2]); }
}
