// Prototype: C06 chaos over delimiter sets x delimiter-rich strings
use tera::{Tera, Context, Delimiters};
use std::panic::{catch_unwind, AssertUnwindSafe};
struct R(u64);
impl R { fn n(&mut self) -> u64 { self.0 ^= self.0 << 13; self.0 ^= self.0 >> 7; self.0 ^= self.0 << 17; self.0 } fn b(&mut self, n: u64) -> u64 { self.n() % n } }
fn main() {
    std::panic::set_hook(Box::new(|_| {}));
    let mut r = R(std::env::args().nth(1).map(|s| s.parse().unwrap()).unwrap_or(88172645463325252));
    let two: Vec<&str> = vec!["{{", "}}", "{%", "%}", "{#", "#}", "<<", ">>", "<%", "%>", "[[", "]]", "«", "»", "é", "ß", "--", "-}", "{-", "\"\"", "''", "  ", "\n\n", "a-", "if", "%%", "##", "(*", "*)", "$$", "@@", "..", "::", "|-", "ra", "w ", "\t\t", "ī", "Â", "ab"];
    let pieces: Vec<&str> = vec!["{{", "}}", "{%", "%}", "{#", "#}", "-", " ", "\n", "raw", "endraw", "if", "endif", "for", "x", "in", "endfor", "set", "=", "1", "\"", "'", "`", "\\", "a", ".", "[", "]", "(", ")", "|", "~", "é", "日", "«", "»", "<", ">", "/", "block", "endblock", "b", "filter", "upper", "endfilter", "component", "endcomponent", "c", ",", ":", "?", "...", "{", "}", "%", "#", "not", "is", "and", "or", "true", "none", "extends", "include", "super()", "break", "continue", "elif", "else", "endset", "*", "+", "0.5", "9999999999999999999999", "\u{a0}", "\r\n", "Â", "ī", "ß", "--", "$$", "@@", "(*", "*)", "<%", "%>", "<<", ">>", "[[", "]]", "##", "%%", "::", ".."];
    let (mut n, mut ok, mut err, mut pan, mut dsets_ok, mut slow) = (0u64, 0u64, 0u64, 0u64, 0u64, 0u64); let mut shown = 0;
    let t0 = std::time::Instant::now();
    while t0.elapsed().as_secs() < 60 {
        let pick = |r: &mut R| two[r.b(two.len() as u64) as usize].to_string();
        let d = if r.b(4) == 0 { Delimiters::default() } else { Delimiters { block_start: pick(&mut r).into(), block_end: pick(&mut r).into(), variable_start: pick(&mut r).into(), variable_end: pick(&mut r).into(), comment_start: pick(&mut r).into(), comment_end: pick(&mut r).into() } };
        let mut t = Tera::default(); if t.set_delimiters(d.clone()).is_err() { continue; } dsets_ok += 1;
        for _ in 0..200 {
            let k = r.b(24); let mut s = String::new(); for _ in 0..k { if r.b(3) == 0 { let ds = [&d.block_start, &d.block_end, &d.variable_start, &d.variable_end, &d.comment_start, &d.comment_end]; s.push_str(ds[r.b(6) as usize]); } else { s.push_str(pieces[r.b(pieces.len() as u64) as usize]); } if r.b(2) == 0 { s.push(' '); } }
            n += 1; let t1 = std::time::Instant::now();
            let res = catch_unwind(AssertUnwindSafe(|| { let a = t.render_str(&s, &Context::new(), r.b(2) == 0); match &a { Err(e) => { let _ = e.to_string(); } _ => {} } a.is_ok() }));
            if t1.elapsed().as_millis() > 200 { slow += 1; }
            match res { Ok(true) => ok += 1, Ok(false) => err += 1, Err(_) => { pan += 1; if shown < 10 { shown += 1; println!("PANIC delims={d:?} src={s:?}"); } } }
        }
    }
    println!("inputs={n} delimiter_sets={dsets_ok} ok={ok} err={err} panics={pan} slow={slow}");
}
