// Prototype: C08 item-list specification vs engine. A template is a list of items (text, expression, tag,
// comment, raw block, if/endif) each with its `-` markers; the expected output is computed from the list
// alone. 197 k templates x 3 delimiter sets: 748 mismatches on the pinned tree (all F3: a `-` end marker
// followed by comment(s) trims the text after them), 0 on the trial-fixed tree. Throwaway probe.
use tera::{Context, Delimiters, Tera};
struct R(u64);
impl R {
    fn n(&mut self) -> u64 { self.0 ^= self.0 << 13; self.0 ^= self.0 >> 7; self.0 ^= self.0 << 17; self.0 }
    fn b(&mut self, n: u64) -> u64 { self.n() % n }
}
#[derive(Debug, Clone)]
enum It { Text(String), Expr(bool, bool), SetTag(bool, bool), Comment(bool, bool, String), Raw { ol: bool, ir: bool, body: String, il: bool, or: bool }, IfOpen(bool, bool), IfClose(bool, bool) }
fn text(r: &mut R, d: &Delimiters) -> String {
    let pieces = [" ", "  ", "\n", "\t", "\r\n", "\u{a0}", "\u{3000}", "a", "b", "é", "日", "{", "}", "%}", "}}", "#}", "-", "%", "#", "x y", "«", "»", "Â", "ī", "<", ">", "\u{2003}"];
    loop {
        let n = r.b(6);
        let mut s = String::new();
        for _ in 0..n { s.push_str(pieces[r.b(pieces.len() as u64) as usize]); }
        if [&d.variable_start, &d.block_start, &d.comment_start].iter().any(|x| s.contains(x.as_ref())) { continue; }
        return s;
    }
}
fn first_start(s: &str, d: &Delimiters) -> Option<usize> { [&d.variable_start, &d.block_start, &d.comment_start].iter().filter_map(|x| s.find(x.as_ref())).min() }
fn main() {
    let seed: u64 = std::env::args().nth(1).map(|s| s.parse().unwrap()).unwrap_or(88172645463325252);
    let mut r = R(seed);
    let dsets = vec![
        Delimiters::default(),
        Delimiters { block_start: "<%".into(), block_end: "%>".into(), variable_start: "<<".into(), variable_end: ">>".into(), comment_start: "<#".into(), comment_end: "#>".into() },
        Delimiters { block_start: "«".into(), block_end: "»".into(), variable_start: "[[".into(), variable_end: "]]".into(), comment_start: "(*".into(), comment_end: "*)".into() },
    ];
    let (mut n, mut bad, mut rej) = (0u64, 0u64, 0u64);
    let mut shown = 0;
    for _ in 0..200000 {
        let d = dsets[r.b(dsets.len() as u64) as usize].clone();
        let mut items = vec![];
        let k = 1 + r.b(7);
        let mut open_ifs = 0;
        for _ in 0..k {
            match r.b(9) {
                0 | 1 | 2 => items.push(It::Text(text(&mut r, &d))),
                3 => items.push(It::Expr(r.b(2) == 0, r.b(2) == 0)),
                4 => items.push(It::SetTag(r.b(2) == 0, r.b(2) == 0)),
                5 => { let body = loop { let b = format!(" {} ", text(&mut r, &d)); if !b.contains(d.comment_end.as_ref()) { break b; } }; items.push(It::Comment(r.b(2) == 0, r.b(2) == 0, body)) }
                6 => { let mut b = text(&mut r, &d); if r.b(2) == 0 { b.push_str(&format!("{} 1 {}", d.variable_start, d.variable_end)); b.push_str(&text(&mut r, &d)); } if r.b(3) == 0 { b.push_str(&format!("{} if x {}", d.block_start, d.block_end)); } items.push(It::Raw { ol: r.b(2) == 0, ir: r.b(2) == 0, body: b, il: r.b(2) == 0, or: r.b(2) == 0 }) }
                7 => { items.push(It::IfOpen(r.b(2) == 0, r.b(2) == 0)); open_ifs += 1; }
                _ => { if open_ifs > 0 { items.push(It::IfClose(r.b(2) == 0, r.b(2) == 0)); open_ifs -= 1; } }
            }
        }
        for _ in 0..open_ifs { items.push(It::IfClose(r.b(2) == 0, r.b(2) == 0)); }
        // merge adjacent texts, then drop empty texts: two items with nothing between them are *directly adjacent*
        let mut merged: Vec<It> = vec![];
        for it in items { if let (Some(It::Text(a)), It::Text(b)) = (merged.last_mut(), &it) { a.push_str(b); } else { merged.push(it); } }
        let items: Vec<It> = merged.into_iter().filter(|it| !matches!(it, It::Text(t) if t.is_empty())).collect();
        let m = |b: bool| if b { "-" } else { "" };
        let mut src = String::new();
        let mut valid = true;
        for (i, it) in items.iter().enumerate() {
            match it {
                It::Text(t) => {
                    // the text is only literal text if the first start delimiter of text+next delimiter is at len(text)
                    let nextd = match items.get(i + 1) { Some(It::Expr(..)) => Some(d.variable_start.to_string()), Some(It::Comment(..)) => Some(d.comment_start.to_string()), Some(It::Text(_)) => None, Some(_) => Some(d.block_start.to_string()), None => None };
                    let probe = format!("{}{}", t, nextd.clone().unwrap_or_default());
                    match (first_start(&probe, &d), &nextd) { (Some(p), Some(_)) if p == t.len() => {} (None, None) => {} _ => valid = false }
                    src.push_str(t)
                }
                It::Expr(l, rr) => src.push_str(&format!("{}{} 7 {}{}", d.variable_start, m(*l), m(*rr), d.variable_end)),
                It::SetTag(l, rr) => src.push_str(&format!("{}{} set q = 1 {}{}", d.block_start, m(*l), m(*rr), d.block_end)),
                It::Comment(l, rr, b) => src.push_str(&format!("{}{}{}{}{}", d.comment_start, m(*l), b, m(*rr), d.comment_end)),
                It::Raw { ol, ir, body, il, or } => src.push_str(&format!("{}{} raw {}{}{}{}{} endraw {}{}", d.block_start, m(*ol), m(*ir), d.block_end, body, d.block_start, m(*il), m(*or), d.block_end)),
                It::IfOpen(l, rr) => src.push_str(&format!("{}{} if true {}{}", d.block_start, m(*l), m(*rr), d.block_end)),
                It::IfClose(l, rr) => src.push_str(&format!("{}{} endif {}{}", d.block_start, m(*l), m(*rr), d.block_end)),
            }
        }
        if !valid { rej += 1; continue; }
        // ---- the specification: each `-` trims the facing end of the directly adjacent literal text (a raw body counts)
        let lmark = |it: &It| match it { It::Expr(l, _) | It::SetTag(l, _) | It::IfOpen(l, _) | It::IfClose(l, _) => *l, It::Comment(l, _, _) => *l, It::Raw { ol, .. } => *ol, It::Text(_) => false };
        let rmark = |it: &It| match it { It::Expr(_, r) | It::SetTag(_, r) | It::IfOpen(_, r) | It::IfClose(_, r) => *r, It::Comment(_, r, _) => *r, It::Raw { or, .. } => *or, It::Text(_) => false };
        let mut exp = String::new();
        for (i, it) in items.iter().enumerate() {
            let prev_r = if i > 0 { rmark(&items[i - 1]) } else { false };
            let next_l = items.get(i + 1).map(|x| lmark(x)).unwrap_or(false);
            match it {
                It::Text(t) => { let mut s: &str = t; if prev_r { s = s.trim_start(); } if next_l { s = s.trim_end(); } exp.push_str(s); }
                It::Expr(..) => exp.push('7'),
                It::Raw { ir, body, il, .. } => { let mut s: &str = body; if *ir || prev_r { s = s.trim_start(); } if *il || next_l { s = s.trim_end(); } exp.push_str(s); }
                _ => {}
            }
        }
        let mut t = Tera::default();
        t.set_delimiters(d.clone()).unwrap();
        n += 1;
        match t.render_str(&src, &Context::new(), false) { Ok(out) if out == exp => {} other => { bad += 1; if shown < 15 { shown += 1; println!("MISMATCH src={src:?}\n   items={items:?}\n   exp={exp:?}\n   got={:?}", other.map_err(|e| e.to_string())); } } }
    }
    println!("n={n} rejected={rej} bad={bad}");
}
