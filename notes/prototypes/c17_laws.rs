// Prototype: C17 contract laws for string filters and conversions
use tera::{Tera, Context, Value};
struct R(u64);
impl R { fn n(&mut self) -> u64 { self.0 ^= self.0 << 13; self.0 ^= self.0 >> 7; self.0 ^= self.0 << 17; self.0 } fn b(&mut self, n: u64) -> u64 { self.n() % n } }
fn s(r: &mut R) -> String { let p = ["a", "b", "Z", " ", "  ", "\n", "\r\n", "\t", "é", "É", "日", "ж", "Ж", "ω", "-", "'", "\"", "<", ">", "&", "x y", ".", "1", "_", "\u{a0}", "😀", "ab", "ba", "\r"]; let mut o = String::new(); for _ in 0..r.b(9) { o += p[r.b(p.len() as u64) as usize]; } o }
fn unescape(x: &str) -> String { x.replace("&lt;", "<").replace("&gt;", ">").replace("&quot;", "\"").replace("&#39;", "'").replace("&#x27;", "'").replace("&apos;", "'").replace("&amp;", "&") }
fn main() {
    let mut t = Tera::default();
    let fl = ["upper", "lower", "capitalize", "title", "trim", "trim_start", "trim_end", "newlines_to_br", "escape_html", "escape_xml", "wordcount", "length", "reverse", "str", "indent", "indent(width=2, first=true)", "indent(blank=true)"];
    let mut tp: Vec<(String, String)> = fl.iter().enumerate().map(|(i, f)| (format!("f{i}"), format!("{{{{ v | {f} }}}}"))).collect();
    tp.push(("trunc".into(), "{{ v | truncate(length=n) }}".into())); tp.push(("trunc_e".into(), "{{ v | truncate(length=n, end=e) }}".into())); tp.push(("repl".into(), "{{ v | replace(from=a, to=b) }}".into())); tp.push(("trimp".into(), "{{ v | trim(pat=a) }}|{{ v | trim_start(pat=a) }}|{{ v | trim_end(pat=a) }}".into())); tp.push(("splitjoin".into(), "{{ v | split(pat=a) | join(sep=a) }}".into()));
    tp.push(("int".into(), "{{ v | int }}".into())); tp.push(("float".into(), "{{ v | float }}".into())); tp.push(("abs".into(), "{{ v | abs }}".into())); tp.push(("round".into(), "{{ v | round }}|{{ v | round(method=\"ceil\") }}|{{ v | round(method=\"floor\") }}".into())); tp.push(("roundp".into(), "{{ v | round(precision=n) }}".into()));
    t.add_raw_templates(tp).unwrap();
    let mut r = R(std::env::args().nth(1).map(|s| s.parse().unwrap()).unwrap_or(88172645463325252));
    let mut bad = std::collections::BTreeMap::new(); let mut n = 0u64;
    macro_rules! fail { ($k:expr, $($a:tt)*) => {{ let e = bad.entry($k.to_string()).or_insert((0u64, format!($($a)*))); e.0 += 1; }} }
    for _ in 0..200000 {
        let v = s(&mut r); let a = s(&mut r); let b = s(&mut r); let nlen = r.b(8) as usize;
        let mut ctx = Context::new(); ctx.insert("v", &v); ctx.insert("a", &a); ctx.insert("b", &b); ctx.insert("n", &nlen); ctx.insert("e", &b);
        let mut out = vec![]; for i in 0..fl.len() { out.push(t.render(&format!("f{i}"), &ctx).unwrap()); } n += 1;
        let simple = |c: char| c.is_ascii() || "éÉжЖ".contains(c);
        if v.chars().all(simple) { if out[0] != v.to_uppercase() || out[0].chars().count() != v.chars().count() { fail!("upper", "{v:?} -> {:?}", out[0]); } if out[1] != v.to_lowercase() { fail!("lower", "{v:?} -> {:?}", out[1]); }
            for k in [2, 3] { if out[k].to_lowercase() != v.to_lowercase() { fail!(fl[k], "only-case {v:?} -> {:?}", out[k]); } } }
        // capitalize: first upper, rest lower
        if let Some(f) = v.chars().next() { let exp: String = f.to_uppercase().chain(v[f.len_utf8()..].to_lowercase().chars()).collect(); if out[2] != exp { fail!("capitalize", "{v:?} -> {:?} exp {exp:?}", out[2]); } }
        // title: every char after whitespace/punct(except ') is upper if cased; others lower
        { let oc: Vec<char> = out[3].chars().collect(); let vc: Vec<char> = v.chars().collect(); if v.chars().all(simple) && oc.len() == vc.len() { let mut cap = true; for (i, c) in vc.iter().enumerate() { if c.is_ascii_punctuation() || c.is_whitespace() { if oc[i] != *c { fail!("title", "sep changed {v:?} -> {:?}", out[3]); } if *c != '\'' { cap = true; } } else { let want: String = if cap { c.to_uppercase().collect() } else { c.to_lowercase().collect() }; if oc[i].to_string() != want { fail!("title", "{v:?} -> {:?} at {i}", out[3]); } cap = false; } } } }
        if out[4] != v.trim() || out[5] != v.trim_start() || out[6] != v.trim_end() { fail!("trim", "{v:?} -> {:?}", &out[4..7]); }
        if out[7] != v.replace("\r\n", "<br>").replace('\n', "<br>").replace('\r', "<br>") { fail!("newlines_to_br", "{v:?} -> {:?}", out[7]); }
        for k in [8, 9] { if unescape(&out[k]) != v { fail!(fl[k], "unescape {v:?} -> {:?}", out[k]); } if out[k].chars().any(|c| "<>\"'".contains(c)) { fail!(fl[k], "raw special {v:?} -> {:?}", out[k]); } let stripped: String = v.chars().filter(|c| !"<>\"'&".contains(*c)).collect(); let ostripped = unescape(&out[k]).chars().filter(|c| !"<>\"'&".contains(*c)).collect::<String>(); if stripped != ostripped { fail!(fl[k], "other chars changed"); } }
        if out[10] != v.split_whitespace().count().to_string() { fail!("wordcount", "{v:?} -> {}", out[10]); } if out[11] != v.chars().count().to_string() { fail!("length", "{v:?}"); } if out[12] != v.chars().rev().collect::<String>() { fail!("reverse", "{v:?}"); } if out[13] != v { fail!("str", "{v:?}"); }
        // indent: doc model: prefix of width spaces at the start of each line except first (unless first) and blank lines (unless blank)
        for (k, width, first, blank) in [(14, 4, false, false), (15, 2, true, false), (16, 4, false, true)] { let ind = " ".repeat(width); let mut exp = String::new(); for (i, line) in v.split('\n').enumerate() { if i > 0 { exp.push('\n'); } let is_blank = line.trim_end_matches('\r').is_empty(); if (i > 0 || first) && (!is_blank || blank) && !(i > 0 && i == v.split('\n').count() - 1 && line.is_empty()) { exp += &ind; } exp += line; }
            if out[k] != exp && out[k] != exp.replace("\r\n", "\n") { fail!(fl[k], "{v:?} -> {:?} exp {exp:?}", out[k]); } else if out[k] != exp { fail!("indent-crlf-only", "{v:?}"); } }
        let tr = t.render("trunc", &ctx).unwrap(); let vc: Vec<char> = v.chars().collect(); let exp = if vc.len() > nlen { vc[..nlen].iter().collect::<String>() + "…" } else { v.clone() }; if tr != exp { fail!("truncate", "{v:?} n={nlen} -> {tr:?} exp {exp:?}"); }
        let tr = t.render("trunc_e", &ctx).unwrap(); let exp = if vc.len() > nlen { vc[..nlen].iter().collect::<String>() + &b } else { v.clone() }; if tr != exp { fail!("truncate-end", "{v:?} n={nlen} e={b:?} -> {tr:?}"); }
        if !a.is_empty() { let rp = t.render("repl", &ctx).unwrap(); let mut exp = String::new(); let mut rest = v.as_str(); while let Some(i) = rest.find(&a) { exp += &rest[..i]; exp += &b; rest = &rest[i + a.len()..]; } exp += rest; if rp != exp { fail!("replace", "{v:?} {a:?}->{b:?} = {rp:?} exp {exp:?}"); }
            let tp = t.render("trimp", &ctx).unwrap(); let mut st = v.as_str(); while !a.is_empty() && st.starts_with(&a) { st = &st[a.len()..]; } let mut en = v.as_str(); while en.ends_with(&a) { en = &en[..en.len() - a.len()]; } let mut both = st; while both.ends_with(&a) { both = &both[..both.len() - a.len()]; } let exp = format!("{both}|{st}|{en}"); if tp != exp { fail!("trim-pat", "{v:?} pat={a:?} -> {tp:?} exp {exp:?}"); }
            let sj = t.render("splitjoin", &ctx).unwrap(); if sj != v { fail!("split-join", "{v:?} pat={a:?} -> {sj:?}"); } }
        // conversions on numbers
        let num: Value = match r.b(6) { 0 => Value::from(r.b(1000) as i64 - 500), 1 => Value::from((r.n() as i64 as f64) / 1024.0), 2 => Value::from(r.b(100) as f64 / 8.0 - 6.0), 3 => Value::from(i128::MIN + r.b(3) as i128), 4 => Value::from(u64::MAX - r.b(3)), _ => Value::from((r.b(2000) as f64 - 1000.0) * 0.5) };
        let mut c2 = Context::new(); c2.insert_value("v", num.clone()); c2.insert("n", &(r.b(7) as i64 - 2));
        if let Some(f) = num.as_f64().filter(|_| num.is_f64()) { let o = t.render("round", &c2).unwrap(); let exp = format!("{:?}|{:?}|{:?}", f.round(), f.ceil(), f.floor()); if o != exp { fail!("round", "{f:?} -> {o} exp {exp}"); }
            let p = c2.get("n").unwrap().as_i128().unwrap() as i32; let o: f64 = t.render("roundp", &c2).unwrap().parse().unwrap(); let unit = 10f64.powi(-p); if (o - f).abs() > unit * 0.5000001 + f.abs() * 1e-15 { fail!("round-precision", "{f:?} p={p} -> {o:?}"); } let scaled = o / unit; if (scaled - scaled.round()).abs() > 1e-6 * scaled.abs().max(1.0) { fail!("round-precision-grid", "{f:?} p={p} -> {o:?}"); }
            match t.render("int", &c2) { Ok(o) => if f.fract() != 0.0 || o != format!("{}", f as i128) { fail!("int-of-float", "{f:?} -> {o}"); }, Err(_) => if f.fract() == 0.0 && f.abs() < 1e38 { fail!("int-of-float", "{f:?} refused"); } }
            let o = t.render("abs", &c2).unwrap(); if o != format!("{:?}", f.abs()) { fail!("abs-float", "{f:?} -> {o}"); } }
        if let Some(i) = num.as_i128().filter(|_| !num.is_f64()) { match t.render("abs", &c2) { Ok(o) => if i == i128::MIN || o != i.unsigned_abs().to_string() { fail!("abs-int", "{i} -> {o}"); }, Err(_) => if i != i128::MIN { fail!("abs-int", "{i} refused"); } }
            let o = t.render("int", &c2).unwrap(); if o != i.to_string() { fail!("int-of-int", "{i} -> {o}"); } let o = t.render("float", &c2).unwrap(); if o != format!("{:?}", i as f64) { fail!("float-of-int", "{i} -> {o}"); } }
    }
    println!("cases={n} law classes violated={}", bad.len()); for (k, (c, ex)) in &bad { println!("  {k}: {c} e.g. {}", ex.chars().take(300).collect::<String>()); }
}
