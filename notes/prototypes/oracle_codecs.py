#!/usr/bin/env python3
"""Prototype offline oracle for C20: records  name \t hex(input) \t hex(output)|ERR...  where name is
e<url_safe><padded> (b64_encode), r<..> (encode|decode round trip), ue/us (urlencode/_strict), sl (slug), js/jp (json_encode)."""
import sys, base64, re, json, urllib.parse
bad={}; n=0
def rep(k,x): bad.setdefault(k,[]).append(x)
for line in open(sys.argv[1]):
    p=line.rstrip('\n').split('\t')
    if p[0].startswith('JSON') or p[0]=='dec': continue
    name,sh,oh=p; s=bytes.fromhex(sh).decode(); n+=1
    if oh.startswith('ERR'): rep('err:'+name,(s,oh)); continue
    o=bytes.fromhex(oh).decode()
    if name[0]=='e':
        u,pd=name[1]=='1',name[2]=='1'
        alpha = r'[A-Za-z0-9\-_]' if u else r'[A-Za-z0-9+/]'
        if not re.fullmatch(alpha+r'*(=*)', o): rep('alphabet',(name,s,o))
        if not pd and '=' in o: rep('pad-unexpected',(name,s,o))
        if pd and len(o)%4!=0: rep('pad-missing',(name,s,o))
        padded = o + '='*((4-len(o)%4)%4)
        dec = base64.urlsafe_b64decode(padded) if u else base64.b64decode(padded)
        if dec!=s.encode(): rep('decode',(name,s,o))
    elif name[0]=='r':
        if o!=s: rep('roundtrip',(name,s,o))
    elif name=='ue':
        if not re.fullmatch(r'([A-Za-z0-9\-._~/]|%[0-9A-F]{2})*', o): rep('ue-alphabet',(s,o))
        if urllib.parse.unquote(o)!=s: rep('ue-decode',(s,o))
    elif name=='us':
        if not re.fullmatch(r'([A-Za-z0-9]|%[0-9A-F]{2})*', o): rep('us-alphabet',(s,o))
        if urllib.parse.unquote(o)!=s: rep('us-decode',(s,o))
    elif name=='sl':
        if not re.fullmatch(r'([a-z0-9]+(-[a-z0-9]+)*)?', o): rep('slug',(s,o))
    elif name in('js','jp'):
        try:
            if json.loads(o)!=s: rep('json',(s,o))
        except Exception as e: rep('json-invalid',(s,o,str(e)))
print("records",n)
for k,v in bad.items(): print(k,len(v),v[:3])
sys.exit(1 if bad else 0)
