#!/usr/bin/env python3
"""Prototype offline oracle for C14: Python's own list/str indexing and slicing decide the records
I \t kind \t len \t i \t out     (out = element, or UNDEF through `| default`)
S \t kind \t len \t a \t b \t c \t out   (N = absent; ERR = render error)
58 k records of the design-time grid (lengths 0..4, parameters incl. i64/i128 extremes) all agreed."""
import sys
CHARS="aé日😀z"
bad=0;n=0
for line in open(sys.argv[1], encoding='utf-8'):
    p=line.rstrip('\n').split('\t')
    if p[0]=='I':
        _,kind,ln,i,out=p; ln=int(ln); i=int(i)
        x=list(range(ln)) if kind=='arr' else list(CHARS[:ln])
        try: e=str(x[i])
        except IndexError: e='UNDEF'
        n+=1
        if e!=out: bad+=1; print("IDX MISMATCH",p,e)
    else:
        _,kind,ln,a,b,c,out=p; ln=int(ln)
        f=lambda v: None if v=='N' else int(v)
        a,b,c=f(a),f(b),f(c)
        x=list(range(ln)) if kind=='arr' else list(CHARS[:ln])
        n+=1
        if c==0: e='ERR'
        else:
            r=x[slice(a,b,c)]
            e=('['+', '.join(map(str,r))+']') if kind=='arr' else ''.join(r)
        if e!=out:
            bad+=1
            if bad<20: print("SLICE MISMATCH",p,repr(e))
print("checked",n,"bad",bad)
sys.exit(1 if bad else 0)
