// Prototype: C03 statement-tree reference model vs engine (restricted): if/else, for over arrays and strings,
// for-else, break/continue under if, set/set_global, set-blocks, filter sections, includes, loop.*,
// four-scope shadowing (loop / assignments / includer / context / global context).
// Throwaway design-time probe; the real harness re-implements this with sharding, replay and evidence.
use std::collections::BTreeMap;
use tera::{Context, Tera};
struct R(u64);
impl R {
    fn n(&mut self) -> u64 { self.0 ^= self.0 << 13; self.0 ^= self.0 >> 7; self.0 ^= self.0 << 17; self.0 }
    fn b(&mut self, n: u64) -> u64 { self.n() % n }
}
#[derive(Clone, Debug)]
enum S { T(String), P(usize), PL(u8), Set(usize, i64), SetG(usize, i64), SetFrom(usize, usize), If(usize, Vec<S>, Vec<S>), For(usize, Vec<i64>, Vec<S>, Vec<S>), ForStr(usize, String, Vec<S>), Break(usize), Continue(usize), SetBlock(usize, Vec<S>), Filt(Vec<S>), Inc(usize) }
const NAMES: [&str; 5] = ["a", "b", "c", "d", "e"];
fn gen_body(r: &mut R, d: u32, in_loop: bool, in_cap: bool, tpl: usize, ntpl: usize) -> Vec<S> {
    let n = 1 + r.b(4);
    let mut v = vec![];
    for _ in 0..n {
        let k = r.b(16);
        let s = match k {
            0 | 1 => S::T(["x", "y ", "z"][r.b(3) as usize].to_string()),
            2 | 3 => S::P(r.b(5) as usize),
            4 => S::Set(r.b(5) as usize, r.b(4) as i64),
            5 => S::SetG(r.b(5) as usize, r.b(4) as i64),
            6 => S::SetFrom(r.b(5) as usize, r.b(5) as usize),
            7 if d > 0 => S::If(r.b(5) as usize, gen_body(r, d - 1, in_loop, in_cap, tpl, ntpl), if r.b(2) == 0 { gen_body(r, d - 1, in_loop, in_cap, tpl, ntpl) } else { vec![] }),
            8 | 9 if d > 0 => { let len = r.b(4); S::For(r.b(5) as usize, (0..len).map(|_| r.b(4) as i64).collect(), gen_body(r, d - 1, true, false, tpl, ntpl), if r.b(3) == 0 { gen_body(r, d - 1, in_loop, in_cap, tpl, ntpl) } else { vec![] }) }
            10 if d > 0 => S::ForStr(r.b(5) as usize, ["", "q", "é日"][r.b(3) as usize].to_string(), gen_body(r, d - 1, true, false, tpl, ntpl)),
            11 if in_loop && !in_cap => if r.b(2) == 0 { S::Break(r.b(5) as usize) } else { S::Continue(r.b(5) as usize) },
            12 if d > 0 => S::SetBlock(r.b(5) as usize, gen_body(r, d - 1, in_loop, true, tpl, ntpl)),
            13 if d > 0 => S::Filt(gen_body(r, d - 1, in_loop, true, tpl, ntpl)),
            14 if tpl + 1 < ntpl => S::Inc(tpl + 1 + r.b((ntpl - tpl - 1) as u64) as usize),
            15 if in_loop => S::PL(r.b(5) as u8),
            _ => S::T("w".into()),
        };
        v.push(s);
    }
    v
}
fn pr(b: &[S], out: &mut String) {
    for s in b {
        match s {
            S::T(t) => out.push_str(t),
            S::P(n) => out.push_str(&format!("{{{{ {} | default(value='~') }}}}", NAMES[*n])),
            S::PL(k) => out.push_str(["{{ loop.index }}", "{{ loop.index0 }}", "{{ loop.first }}", "{{ loop.last }}", "{{ loop.length }}"][*k as usize]),
            S::Set(n, k) => out.push_str(&format!("{{% set {} = {} %}}", NAMES[*n], k)),
            S::SetG(n, k) => out.push_str(&format!("{{% set_global {} = {} %}}", NAMES[*n], k)),
            S::SetFrom(n, m) => out.push_str(&format!("{{% set {} = {} | default(value=9) %}}", NAMES[*n], NAMES[*m])),
            S::If(n, t, e) => { out.push_str(&format!("{{% if {} %}}", NAMES[*n])); pr(t, out); if !e.is_empty() { out.push_str("{% else %}"); pr(e, out); } out.push_str("{% endif %}"); }
            S::For(n, xs, body, els) => { out.push_str(&format!("{{% for {} in {:?} %}}", NAMES[*n], xs)); pr(body, out); if !els.is_empty() { out.push_str("{% else %}"); pr(els, out); } out.push_str("{% endfor %}"); }
            S::ForStr(n, s, body) => { out.push_str(&format!("{{% for {} in \"{}\" %}}", NAMES[*n], s)); pr(body, out); out.push_str("{% endfor %}"); }
            S::Break(n) => out.push_str(&format!("{{% if {} %}}{{% break %}}{{% endif %}}", NAMES[*n])),
            S::Continue(n) => out.push_str(&format!("{{% if {} %}}{{% continue %}}{{% endif %}}", NAMES[*n])),
            S::SetBlock(n, b) => { out.push_str(&format!("{{% set {} %}}", NAMES[*n])); pr(b, out); out.push_str("{% endset %}"); }
            S::Filt(b) => { out.push_str("{% filter upper %}"); pr(b, out); out.push_str("{% endfilter %}"); }
            S::Inc(i) => out.push_str(&format!("{{% include \"t{}\" %}}", i)),
        }
    }
}
#[derive(Clone, Debug, PartialEq)]
enum V { I(i64), S(String) }
impl V {
    fn truthy(&self) -> bool { match self { V::I(i) => *i != 0, V::S(s) => !s.is_empty() } }
    fn show(&self) -> String { match self { V::I(i) => i.to_string(), V::S(s) => s.clone() } }
}
struct Loop { var: usize, cur: V, locals: BTreeMap<usize, V>, idx: usize, len: usize }
struct St<'p> { loops: Vec<Loop>, sets: BTreeMap<usize, V>, parent: Option<&'p St<'p>>, ctx: &'p BTreeMap<usize, V>, g: &'p BTreeMap<usize, V> }
impl<'p> St<'p> {
    // documented resolution order: innermost loop .. outermost loop, assignments, includer's scopes, context, global context
    fn get(&self, n: usize) -> Option<V> {
        for l in self.loops.iter().rev() { if let Some(v) = l.locals.get(&n) { return Some(v.clone()); } if l.var == n { return Some(l.cur.clone()); } }
        if let Some(v) = self.sets.get(&n) { return Some(v.clone()); }
        if let Some(p) = self.parent { if let Some(v) = p.get(n) { return Some(v); } }
        if let Some(v) = self.ctx.get(&n) { return Some(v.clone()); }
        self.g.get(&n).cloned()
    }
    fn set(&mut self, n: usize, v: V) { if let Some(l) = self.loops.last_mut() { l.locals.insert(n, v); } else { self.sets.insert(n, v); } }
}
enum Flow { Normal, Break, Continue }
fn run(b: &[S], st: &mut St, out: &mut Vec<String>, tpls: &[Vec<S>]) -> Flow {
    for s in b {
        match s {
            S::T(t) => out.last_mut().unwrap().push_str(t),
            S::P(n) => { let s = st.get(*n).map(|v| v.show()).unwrap_or("~".into()); out.last_mut().unwrap().push_str(&s); }
            S::PL(k) => { let l = st.loops.last().unwrap(); let s = match k { 0 => (l.idx + 1).to_string(), 1 => l.idx.to_string(), 2 => (l.idx == 0).to_string(), 3 => (l.idx + 1 == l.len).to_string(), _ => l.len.to_string() }; out.last_mut().unwrap().push_str(&s); }
            S::Set(n, k) => st.set(*n, V::I(*k)),
            S::SetG(n, k) => { st.sets.insert(*n, V::I(*k)); }
            S::SetFrom(n, m) => { let v = st.get(*m).unwrap_or(V::I(9)); st.set(*n, v); }
            S::If(n, t, e) => { let c = st.get(*n).map(|v| v.truthy()).unwrap_or(false); match run(if c { t } else { e }, st, out, tpls) { Flow::Normal => {} f => return f } }
            S::For(n, xs, body, els) => {
                if xs.is_empty() { match run(els, st, out, tpls) { Flow::Normal => {} f => return f } } else {
                    st.loops.push(Loop { var: *n, cur: V::I(0), locals: BTreeMap::new(), idx: 0, len: xs.len() });
                    for (i, x) in xs.iter().enumerate() { { let l = st.loops.last_mut().unwrap(); l.cur = V::I(*x); l.idx = i; l.locals.clear(); } if let Flow::Break = run(body, st, out, tpls) { break; } }
                    st.loops.pop();
                }
            }
            S::ForStr(n, s, body) => {
                let cs: Vec<char> = s.chars().collect();
                if !cs.is_empty() {
                    st.loops.push(Loop { var: *n, cur: V::I(0), locals: BTreeMap::new(), idx: 0, len: cs.len() });
                    for (i, c) in cs.iter().enumerate() { { let l = st.loops.last_mut().unwrap(); l.cur = V::S(c.to_string()); l.idx = i; l.locals.clear(); } if let Flow::Break = run(body, st, out, tpls) { break; } }
                    st.loops.pop();
                }
            }
            S::Break(n) => if st.get(*n).map(|v| v.truthy()).unwrap_or(false) { return Flow::Break; },
            S::Continue(n) => if st.get(*n).map(|v| v.truthy()).unwrap_or(false) { return Flow::Continue; },
            S::SetBlock(n, b) => { out.push(String::new()); let f = run(b, st, out, tpls); let cap = out.pop().unwrap(); st.set(*n, V::S(cap)); if !matches!(f, Flow::Normal) { return f; } }
            S::Filt(b) => { out.push(String::new()); let f = run(b, st, out, tpls); let cap = out.pop().unwrap(); out.last_mut().unwrap().push_str(&cap.to_uppercase()); if !matches!(f, Flow::Normal) { return f; } }
            S::Inc(i) => { let mut sub = St { loops: vec![], sets: BTreeMap::new(), parent: Some(&*st), ctx: st.ctx, g: st.g }; let mut o = vec![String::new()]; run(&tpls[*i], &mut sub, &mut o, tpls); let text = o.pop().unwrap(); out.last_mut().unwrap().push_str(&text); }
        }
    }
    Flow::Normal
}
fn main() {
    let mut r = R(std::env::args().nth(1).map(|s| s.parse().unwrap()).unwrap_or(88172645463325252));
    let (mut n, mut bad, mut errs) = (0, 0, 0);
    let mut shown = 0;
    for _ in 0..60000 {
        let ntpl = 1 + r.b(3) as usize;
        let tpls: Vec<Vec<S>> = (0..ntpl).map(|i| gen_body(&mut r, 3, false, false, i, ntpl)).collect();
        let mut ctxm = BTreeMap::new();
        let mut gm = BTreeMap::new();
        for i in 0..5 { match r.b(4) { 0 => { ctxm.insert(i, V::I(r.b(3) as i64)); } 1 => { gm.insert(i, V::I(r.b(3) as i64 + 5)); } 2 => { ctxm.insert(i, V::I(1)); gm.insert(i, V::I(7)); } _ => {} } }
        let mut t = Tera::default();
        let mut ctx = Context::new();
        for (k, v) in &ctxm { if let V::I(i) = v { ctx.insert(NAMES[*k], i); } }
        for (k, v) in &gm { if let V::I(i) = v { t.global_context().insert(NAMES[*k], i); } }
        let srcs: Vec<(String, String)> = tpls.iter().enumerate().map(|(i, b)| { let mut s = String::new(); pr(b, &mut s); (format!("t{i}"), s) }).collect();
        if let Err(e) = t.add_raw_templates(srcs.clone()) { errs += 1; if shown < 5 { shown += 1; println!("ADD ERR {e}\n{srcs:?}"); } continue; }
        let mut st = St { loops: vec![], sets: BTreeMap::new(), parent: None, ctx: &ctxm, g: &gm };
        let mut o = vec![String::new()];
        run(&tpls[0], &mut st, &mut o, &tpls);
        let exp = o.pop().unwrap();
        n += 1;
        match t.render("t0", &ctx) { Ok(out) if out == exp => {} other => { bad += 1; if shown < 8 { shown += 1; println!("MISMATCH\n srcs={srcs:?}\n ctx={ctxm:?} g={gm:?}\n exp={exp:?}\n got={:?}", other.map_err(|e| e.to_string())); } } }
    }
    println!("n={n} add_errs={errs} bad={bad}");
}
