// Prototype: C15 key lookup coherence across access paths, key encodings and map sizes
use tera::{Tera, Context, Value, value::{Map, Key}};
struct R(u64);
impl R { fn n(&mut self) -> u64 { self.0 ^= self.0 << 13; self.0 ^= self.0 >> 7; self.0 ^= self.0 << 17; self.0 } fn b(&mut self, n: u64) -> u64 { self.n() % n } }
#[derive(Clone, Debug, PartialEq)] enum MK { B(bool), I(i128), U(u128), S(String) }
fn mk_key(k: &MK, r: &mut R) -> Key<'static> { match k { MK::B(b) => Key::Bool(*b), MK::S(s) => if r.b(2) == 0 { Key::String(s.as_str().into()) } else { Key::from(s.clone()) },
    MK::I(i) => { let mut opts = vec![Key::I128(*i)]; if let Ok(x) = i64::try_from(*i) { opts.push(Key::I64(x)); } if let Ok(x) = u64::try_from(*i) { opts.push(Key::U64(x)); } if let Ok(x) = u128::try_from(*i) { opts.push(Key::U128(x)); } opts[r.b(opts.len() as u64) as usize].clone() }
    MK::U(u) => Key::U128(*u) } }
fn mk_val(k: &MK, r: &mut R) -> Value { match k { MK::B(b) => Value::from(*b), MK::S(s) => if r.b(2) == 0 { Value::from(s.as_str()) } else { Value::safe_string(s) },
    MK::I(i) => { let mut opts = vec![Value::from(*i)]; if let Ok(x) = i64::try_from(*i) { opts.push(Value::from(x)); } if let Ok(x) = u64::try_from(*i) { opts.push(Value::from(x)); } if let Ok(x) = u128::try_from(*i) { opts.push(Value::from(x)); } opts[r.b(opts.len() as u64) as usize].clone() }
    MK::U(u) => Value::from(*u) } }
fn main() {
    let mut t = Tera::default();
    t.add_raw_templates(vec![("idx", "{{ m[k] | default(value=\"∅\") }}"), ("in", "{{ k in m }}"), ("cont", "{{ m is containing(pat=k) }}"), ("get", "{{ m | get(key=k, default=\"∅\") }}"), ("attr_a", "{{ m.a | default(value=\"∅\") }}"), ("attr_key7", "{{ m.key7 | default(value=\"∅\") }}")]).unwrap();
    let pool: Vec<MK> = vec![MK::B(true), MK::B(false), MK::I(0), MK::I(1), MK::I(-1), MK::I(7), MK::I(i64::MAX as i128), MK::I(i64::MAX as i128 + 1), MK::I(u64::MAX as i128), MK::I(u64::MAX as i128 + 1), MK::I(i128::MAX), MK::I(i128::MIN), MK::I(i64::MIN as i128), MK::U(u128::MAX), MK::U(i128::MAX as u128 + 1),
        MK::S("a".into()), MK::S("key7".into()), MK::S("".into()), MK::S("é".into()), MK::S("1".into()), MK::S("true".into()), MK::S("a b".into()), MK::S("k0".into()), MK::S("k1".into()), MK::S("k2".into()), MK::S("k3".into()), MK::S("k4".into()), MK::S("k5".into()), MK::S("k6".into()), MK::S("k8".into())];
    let mut r = R(std::env::args().nth(1).map(|s| s.parse().unwrap()).unwrap_or(88172645463325252));
    let (mut maps, mut lookups, mut bad) = (0, 0, 0); let mut shown = 0;
    for _ in 0..20000 {
        let size = r.b(14) as usize; let mut present: Vec<MK> = vec![]; while present.len() < size { let k = pool[r.b(pool.len() as u64) as usize].clone(); if !present.contains(&k) { present.push(k); } }
        let mut m = Map::new(); for (i, k) in present.iter().enumerate() { m.insert(mk_key(k, &mut r), Value::from(format!("v{i}"))); } maps += 1;
        if m.len() != present.len() { bad += 1; if shown < 5 { shown += 1; println!("MAP SIZE {} != {} for {present:?}", m.len(), present.len()); } }
        let mv = Value::from(m);
        for k in &pool { let exp = present.iter().position(|p| p == k).map(|i| format!("v{i}"));
            let mut ctx = Context::new(); ctx.insert_value("m", mv.clone()); ctx.insert_value("k", mk_val(k, &mut r));
            let mut obs = vec![("idx", t.render("idx", &ctx).unwrap() != "∅", t.render("idx", &ctx).ok()), ("in", t.render("in", &ctx).unwrap() == "true", None), ("cont", t.render("cont", &ctx).unwrap() == "true", None)];
            if let MK::S(s) = k { obs.push(("get", t.render("get", &ctx).unwrap() != "∅", t.render("get", &ctx).ok())); if s == "a" { obs.push(("attr", t.render("attr_a", &ctx).unwrap() != "∅", t.render("attr_a", &ctx).ok())); } if s == "key7" { obs.push(("attr", t.render("attr_key7", &ctx).unwrap() != "∅", t.render("attr_key7", &ctx).ok())); } }
            for (path, found, val) in obs { lookups += 1; let ok = found == exp.is_some() && (val.is_none() || !found || val == exp); if !ok { bad += 1; if shown < 8 { shown += 1; println!("LOOKUP {path} key={k:?} size={size} found={found} val={val:?} expected={exp:?} present={present:?}"); } } }
        }
    }
    println!("maps={maps} lookups={lookups} bad={bad}");
}
