// Prototype: C01 route generator + marking escaper depth oracle
use tera::{Tera, Context, Value, value::Map};
use std::io::Write;
use std::sync::atomic::{AtomicU64, Ordering};
struct R(u64);
impl R { fn n(&mut self) -> u64 { self.0 ^= self.0 << 13; self.0 ^= self.0 >> 7; self.0 ^= self.0 << 17; self.0 } fn b(&mut self, n: u64) -> u64 { self.n() % n } }
static ESC_CALLS: AtomicU64 = AtomicU64::new(0);
fn mark(s: &str, out: &mut dyn Write) -> std::io::Result<()> { ESC_CALLS.fetch_add(1, Ordering::Relaxed); assert!(std::str::from_utf8(s.as_bytes()).is_ok()); out.write_all("\u{e000}".as_bytes())?; out.write_all(s.as_bytes())?; out.write_all("\u{e001}".as_bytes()) }
// data alphabet: greek + specials. template text alphabet: ascii lowercase/space only
const DATA: &str = "αβγ<>\"'&";
fn is_data(c: char) -> bool { DATA.contains(c) || ('Α'..='Ω').contains(&c) }
struct Prog { tpls: Vec<(String, String)>, entry: String, passthrough: bool, safe: bool, ctx: Context }
fn build(r: &mut R, autoescape: bool) -> Prog {
    let ext = if autoescape { "html" } else { "txt" };
    let src_val: String = { let mut s = String::from("α"); for _ in 0..(1 + r.b(4)) { s.push(DATA.chars().nth(r.b(8) as usize).unwrap()); } s };
    let mut ctx = Context::new(); let mut tpls: Vec<(String, String)> = vec![]; let mut passthrough = true;
    // source expression
    let mut cur = match r.b(5) { 0 => { ctx.insert("v", &src_val); "v".to_string() } 1 => { let mut m = Map::new(); m.insert("k".into(), Value::from(src_val.as_str())); ctx.insert_value("m", Value::from(m)); "m.k".to_string() }
        2 => { ctx.insert("arr", &vec![src_val.clone()]); "arr[0]".to_string() } 3 => { ctx.insert("v", &src_val); "v".to_string() } _ => format!("\"{}\"", src_val.replace('\\', "").replace('"', "'")) };
    let mut pre = String::new(); let mut post_wrap: Vec<(String, String)> = vec![]; let mut nvar = 0; let mut extra_tpls = vec![]; let mut comps = String::new();
    let safe_at_end = r.b(4) == 0;
    for _ in 0..(1 + r.b(5)) { nvar += 1; let x = format!("x{nvar}"); match r.b(14) {
        0 => { pre += &format!("{{% set {x} = {cur} %}}"); cur = x; }
        1 if !safe_at_end => { pre += &format!("{{% set {x} %}}{{% for y{nvar} in [{cur}, {cur}] %}}{{% if loop.first %}}{{{{ y{nvar} }}}}{{% endif %}}{{% endfor %}}{{% endset %}}"); cur = x; }
        1 => { post_wrap.push((String::new(), String::new())); }
        2 if !safe_at_end => { pre += &format!("{{% set {x} %}}a{{{{ {cur} }}}}b{{% endset %}}"); cur = x; }   // capture: escaped once inside, printed as is
        3 if !safe_at_end => { pre += &format!("{{% set {x} %}}{{% filter trim %}} {{{{ {cur} }}}} {{% endfilter %}}{{% endset %}}"); passthrough = false; cur = x; } // filter rebuilds
        4 => { let name = format!("inc{nvar}.{ext}"); extra_tpls.push((name.clone(), format!("i{{{{ {cur} }}}}j"))); if !safe_at_end { pre += &format!("{{% set {x} %}}{{% include \"{name}\" %}}{{% endset %}}"); cur = x; } }
        5 if !safe_at_end => { comps += &format!("{{% component c{nvar}(p) %}}c{{{{ p }}}}d{{% endcomponent %}}"); pre += &format!("{{% set {x} = <c{nvar} p={{{cur}}} /> %}}"); cur = x; }
        6 if !safe_at_end => { comps += &format!("{{% component b{nvar}() %}}e{{{{ body }}}}f{{% endcomponent %}}"); pre += &format!("{{% set {x} %}}{{% <b{nvar}> %}}g{{{{ {cur} }}}}h{{% </b{nvar}> %}}{{% endset %}}"); cur = x; }
        7 => { pre += &format!("{{% set {x} = {cur} ~ \"\" %}}"); passthrough = passthrough && true; cur = x; } // rebuild: normal string (drops safe) -> still escaped once if it was raw data; if it was already-escaped capture -> double
        8 => { pre += &format!("{{% set {x} = {cur} | upper %}}"); cur = x; }
        9 => { pre += &format!("{{% set {x} = {cur} if true else \"\" %}}"); cur = x; }
        10 => { pre += &format!("{{% set {x} = nothing or {cur} %}}"); cur = x; }
        11 => { pre += &format!("{{% set {x} = [{cur}] | first %}}"); cur = x; }
        12 => { pre += &format!("{{% set {x} = {cur} | default(value=\"\") %}}"); cur = x; }
        _ => { pre += &format!("{{% set_global {x} = {cur}[0:] %}}"); cur = x; } } }
    // whether any capture-like step happened before a rebuilding step decides passthrough; compute conservatively by scanning pre
    let caplike = pre.contains("endset %}") || pre.contains("= <c"); let rebuild = pre.contains("~ \"\"") || pre.contains("| upper") || pre.contains("filter trim");
    if caplike && rebuild { passthrough = false; }
    let print = if safe_at_end { format!("{{{{ {cur} | safe }}}}") } else { format!("{{{{ {cur} }}}}") };
    let mut body = pre; for (o, _) in &post_wrap { body += o; } body += &format!("p{print}q"); for (_, c) in post_wrap.iter().rev() { body += c; }
    let entry = format!("entry.{ext}");
    // optionally route through inheritance
    if r.b(3) == 0 { tpls.push((format!("base.{ext}"), "s{% block main %}{% endblock %}t".into())); tpls.push((entry.clone(), format!("{{% extends \"base.{ext}\" %}}{{% block main %}}{body}{{% endblock %}}"))); } else { tpls.push((entry.clone(), body)); }
    tpls.push((format!("comps.{ext}"), comps)); tpls.extend(extra_tpls);
    Prog { tpls, entry, passthrough, safe: safe_at_end, ctx }
}
fn depths(out: &str) -> Vec<(char, i32)> { let mut d = 0; let mut v = vec![]; for c in out.chars() { match c { '\u{e000}' => d += 1, '\u{e001}' => d -= 1, c if is_data(c) => v.push((c, d)), _ => {} } } v }
fn main() {
    let mut r = R(std::env::args().nth(1).map(|s| s.parse().unwrap()).unwrap_or(88172645463325252));
    let (mut n, mut bad, mut a_checks, mut chars, mut pt, mut sf, mut off) = (0u64, 0u64, 0u64, 0u64, 0u64, 0u64, 0u64); let mut shown = 0;
    for _ in 0..60000 {
        let autoescape = r.b(5) != 0; let p = build(&mut r, autoescape);
        let mut t = Tera::default(); if let Err(e) = t.add_raw_templates(p.tpls.clone()) { bad += 1; if shown < 4 { shown += 1; println!("ADD ERR {e}\n{:?}", p.tpls); } continue; }
        n += 1;
        // mode A: default escaper
        let out_a = match t.render(&p.entry, &p.ctx) { Ok(o) => o, Err(e) => { bad += 1; if shown < 4 { shown += 1; println!("RENDER ERR {e}\n{:?}", p.tpls); } continue; } };
        if autoescape && !p.safe { a_checks += 1; if out_a.chars().any(|c| "<>\"'".contains(c)) { bad += 1; if shown < 8 { shown += 1; println!("MODE A raw special in {out_a:?}\n {:?}", p.tpls); } } }
        // mode B: marking escaper
        t.set_escape_fn(mark); let before = ESC_CALLS.load(Ordering::Relaxed); let out_b = t.render(&p.entry, &p.ctx).unwrap(); let calls = ESC_CALLS.load(Ordering::Relaxed) - before;
        let ds = depths(&out_b); chars += ds.len() as u64;
        let verdict = if !autoescape { off += 1; if calls != 0 || ds.iter().any(|(_, d)| *d != 0) { Some("escaper used although autoescape is off") } else { None } }
            else if p.safe { sf += 1; if ds.iter().any(|(_, d)| *d != 0) { Some("safe value escaped") } else { None } }
            else if p.passthrough { pt += 1; if ds.iter().any(|(_, d)| *d != 1) { Some("pass-through depth != 1") } else { None } }
            else { if ds.iter().any(|(_, d)| *d < 1) { Some("unescaped data") } else { None } };
        if ds.is_empty() { bad += 1; if shown < 8 { shown += 1; println!("NO DATA CHARS in {out_b:?} {:?}", p.tpls); } }
        if let Some(v) = verdict { bad += 1; if shown < 8 { shown += 1; println!("MODE B {v}: out={out_b:?}\n tpls={:?}", p.tpls); } }
    }
    println!("programs={n} modeA_checks={a_checks} data_chars={chars} passthrough={pt} safe={sf} off={off} bad={bad} escape_calls={}", ESC_CALLS.load(Ordering::Relaxed));
}
