// Prototype: C07 registry monitor — unknown names at every syntactic position must be rejected at add time
use tera::{Tera, Context};
fn main() {
    let refs: Vec<(&str, &str)> = vec![("filter", "v | nofilter"), ("filter-args", "v | nofilter(a=1)"), ("test", "v is notest"), ("test-neg", "v is not notest(a=1)"), ("function", "nofn()"), ("function-args", "nofn(a=v)"), ("component", "<NoComp a={1} />")];
    let positions: Vec<(&str, &str)> = vec![
        ("print", "{{ R }}"), ("set", "{% set x = R %}"), ("set_global", "{% set_global x = R %}"), ("if-cond", "{% if R %}a{% endif %}"), ("elif-cond", "{% if false %}{% elif R %}a{% endif %}"), ("if-dead-branch", "{% if false %}{{ R }}{% endif %}"), ("else-branch", "{% if true %}{% else %}{{ R }}{% endif %}"),
        ("for-target", "{% for i in [R] %}{% endfor %}"), ("for-body", "{% for i in [] %}{{ R }}{% endfor %}"), ("for-else", "{% for i in [1] %}{% else %}{{ R }}{% endfor %}"), ("ternary-untaken", "{{ 1 if true else R }}"), ("ternary-cond", "{{ 1 if R else 2 }}"), ("and-rhs", "{{ false and R }}"), ("or-rhs", "{{ true or R }}"),
        ("array-literal", "{{ [1, R] }}"), ("array-spread", "{{ [...[R]] }}"), ("map-value", "{{ {\"a\": R } }}"), ("subscript", "{{ [1][R] }}"), ("slice", "{{ [1][R:] }}"), ("comprehension-item", "{{ [R for i in []] }}"), ("comprehension-target", "{{ [i for i in [R]] }}"), ("comprehension-cond", "{{ [i for i in [] if R] }}"),
        ("filter-kwarg", "{{ 1 | default(value=R) }}"), ("test-kwarg", "{{ 1 is divisible_by(divisor=R) }}"), ("function-kwarg", "{{ range(end=R) }}"), ("component-arg", "{{ <Known a={R} /> }}"), ("component-spread", "{{ <Known {...{\"a\": R } } /> }}"), ("component-call-body", "{% <Known> %}{{ R }}{% </Known> %}"),
        ("set-block-body", "{% set x %}{{ R }}{% endset %}"), ("filter-section-body", "{% filter upper %}{{ R }}{% endfilter %}"), ("filter-section-kwarg", "{% filter default(value=R) %}{% endfilter %}"), ("block-body", "{% block b %}{{ R }}{% endblock %}"), ("nested-block", "{% block b %}{% block c %}{{ R }}{% endblock %}{% endblock %}"),
        ("component-def-body", "{% component Def() %}{{ R }}{% endcomponent %}"), ("component-def-nested", "{% component Def() %}{% if false %}{% for i in [] %}{{ R }}{% endfor %}{% endif %}{% endcomponent %}"), ("unary", "{{ not R }}"), ("neg", "{{ -(R) }}"), ("binop", "{{ 1 + (R) }}"), ("concat", "{{ \"a\" ~ (R) }}"), ("in-rhs", "{{ 1 in [R] }}"),
        ("filter-chain-mid", "{{ (R) | str | upper }}"), ("optional-chain-index", "{{ v?[R] }}"), ("break-guard", "{% for i in [1] %}{% if R %}{% break %}{% endif %}{% endfor %}"),
    ];
    let special: Vec<(&str, &str)> = vec![("set-block-filter-chain", "{% set x | upper | nofilter %}a{% endset %}"), ("set-block-filter-chain-first", "{% set x | nofilter | upper %}a{% endset %}"), ("set-block-filter-kwarg", "{% set x | default(value=nofn()) %}a{% endset %}"), ("filter-section-name", "{% filter nofilter %}a{% endfilter %}"),
        ("include", "{% include \"nope.html\" %}"), ("include-in-block", "{% block b %}{% include \"nope.html\" %}{% endblock %}"), ("include-in-component", "{% component D2() %}{% include \"nope.html\" %}{% endcomponent %}"), ("include-dead", "{% if false %}{% include \"nope.html\" %}{% endif %}"), ("include-in-capture", "{% set x %}{% include \"nope.html\" %}{% endset %}"),
        ("extends", "{% extends \"nope.html\" %}"), ("super-outside", "{{ super() }}"), ("body-component-name", "{% <NoComp> %}x{% </NoComp> %}")];
    let mut total = 0; let mut accepted = vec![];
    let known = ("known.html", "{% component Known(a = 1, ...rest) %}k{{ body | default(value=\"\") }}{% endcomponent %}");
    for (pn, pos) in &positions { for (rn, rf) in &refs { let src = pos.replace("R", rf); total += 1;
        for mode in ["registered", "render_str", "in-child", "in-included"] {
            let mut t = Tera::default(); t.add_raw_template(known.0, known.1).unwrap();
            let res: Result<(), String> = match mode { "registered" => t.add_raw_template("t.html", &src).map_err(|e| e.to_string()), "render_str" => { if src.contains("{% block") { continue; } match t.render_str(&src, &Context::new(), true) { Err(e) if e.to_string().contains("Unknown") => Err("rejected".into()), Err(e) => Ok(()).and_then(|_: ()| if e.to_string().contains("not") { Ok(()) } else { Ok(()) }), Ok(_) => Ok(()) } }
                "in-child" => { if src.contains("{% component") { continue; } let body = if src.contains("{% block b %}") { src.clone() } else { format!("{{% block b %}}{src}{{% endblock %}}") }; t.add_raw_templates(vec![("base.html", "{% block b %}{% block c %}{% endblock %}{% endblock %}".to_string()), ("t.html", format!("{{% extends \"base.html\" %}}{body}"))]).map_err(|e| e.to_string()) }
                _ => t.add_raw_templates(vec![("t.html", "{% include \"inc.html\" %}".to_string()), ("inc.html", src.clone())]).map_err(|e| e.to_string()) };
            if res.is_ok() { accepted.push(format!("{mode}: {pn} / {rn}: {src}")); } } } }
    for (pn, src) in &special { total += 1; let mut t = Tera::default(); t.add_raw_template(known.0, known.1).unwrap(); if t.add_raw_template("t.html", src).is_ok() { accepted.push(format!("special {pn}: {src}")); } }
    println!("cases={total} accepted-with-unknown-reference={}", accepted.len()); for a in accepted.iter().take(40) { println!("  {a}"); }
}
