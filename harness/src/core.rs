//! Shared plumbing: deterministic RNG, per-shard report, status file + CPU watchdog, panic recorder.
use serde_json::{json, Value as J};
use std::cell::RefCell;
use std::collections::{BTreeMap, BTreeSet};
use std::fs::File;
use std::io::Write;
use std::os::unix::fs::FileExt;
use std::panic::{catch_unwind, AssertUnwindSafe};
use std::sync::atomic::{AtomicI64, AtomicU64, Ordering};
use std::time::Instant;

// ------------------------------------------------------------------------------------------ rng

#[derive(Clone)]
pub struct Rng(u64);

pub fn mix(mut z: u64) -> u64 {
    z = z.wrapping_add(0x9E3779B97F4A7C15);
    z = (z ^ (z >> 30)).wrapping_mul(0xBF58476D1CE4E5B9);
    z = (z ^ (z >> 27)).wrapping_mul(0x94D049BB133111EB);
    z ^ (z >> 31)
}

pub fn hash_str(s: &str) -> u64 {
    let mut h = 0xcbf29ce484222325u64;
    for b in s.bytes() {
        h ^= b as u64;
        h = h.wrapping_mul(0x100000001b3);
    }
    mix(h)
}

impl Rng {
    pub fn new(seed: u64) -> Self {
        Rng(mix(seed ^ 0xA5A5_5A5A_1234_5678))
    }
    pub fn for_case(seed: u64, prop: &str, case: u64) -> Self {
        Rng(mix(mix(seed).wrapping_add(hash_str(prop)) ^ mix(case.wrapping_mul(0x2545F4914F6CDD1D))))
    }
    pub fn next(&mut self) -> u64 {
        self.0 = self.0.wrapping_add(0x9E3779B97F4A7C15);
        let mut z = self.0;
        z = (z ^ (z >> 30)).wrapping_mul(0xBF58476D1CE4E5B9);
        z = (z ^ (z >> 27)).wrapping_mul(0x94D049BB133111EB);
        z ^ (z >> 31)
    }
    /// uniform in 0..n (n > 0)
    pub fn below(&mut self, n: usize) -> usize {
        (self.next() % (n as u64)) as usize
    }
    /// uniform in a..=b
    pub fn range(&mut self, a: i64, b: i64) -> i64 {
        a + (self.next() % ((b - a + 1) as u64)) as i64
    }
    pub fn chance(&mut self, num: u32, den: u32) -> bool {
        (self.next() % den as u64) < num as u64
    }
    pub fn bool(&mut self) -> bool {
        self.next() & 1 == 1
    }
    pub fn pick<'a, T>(&mut self, xs: &'a [T]) -> &'a T {
        &xs[self.below(xs.len())]
    }
    pub fn f01(&mut self) -> f64 {
        (self.next() >> 11) as f64 / (1u64 << 53) as f64
    }
    pub fn shuffle<T>(&mut self, xs: &mut [T]) {
        for i in (1..xs.len()).rev() {
            let j = self.below(i + 1);
            xs.swap(i, j);
        }
    }
}

// ------------------------------------------------------------------------------------ panic guard

thread_local! {
    static LAST_PANIC: RefCell<Option<String>> = const { RefCell::new(None) };
    static IN_GUARD: std::cell::Cell<u32> = const { std::cell::Cell::new(0) };
}
pub static PANICS_SEEN: AtomicU64 = AtomicU64::new(0);
pub static UNGUARDED_ENGINE_PANIC: std::sync::atomic::AtomicBool = std::sync::atomic::AtomicBool::new(false);
/// exit code when the engine panicked inside a call the driver had not wrapped in `guard`
pub const EXIT_ENGINE_PANIC: i32 = 96;

pub fn install_panic_hook() {
    std::panic::set_hook(Box::new(|info| {
        let loc = info.location().map(|l| format!("{}:{}", l.file(), l.line())).unwrap_or_default();
        let msg = if let Some(s) = info.payload().downcast_ref::<&str>() {
            s.to_string()
        } else if let Some(s) = info.payload().downcast_ref::<String>() {
            s.clone()
        } else {
            "<non-string panic>".to_string()
        };
        if IN_GUARD.with(|g| g.get()) == 0 {
            // outside any monitored engine call: either a bug of the harness, or the engine panicked in a call
            // the driver did not wrap. The latter is a verdict about the engine (main.rs exits with EXIT_ENGINE_PANIC).
            eprintln!("harness panic: {msg} @ {loc}");
            if loc.starts_with("/repo/") || loc.contains("/tera/src/") || loc.contains("/tera-contrib/src/") {
                eprintln!("ENGINE-PANIC-SITE {}", loc.rsplit("/repo/").next().unwrap_or(&loc));
                UNGUARDED_ENGINE_PANIC.store(true, Ordering::Relaxed);
            }
            return;
        }
        PANICS_SEEN.fetch_add(1, Ordering::Relaxed);
        LAST_PANIC.with(|p| *p.borrow_mut() = Some(format!("{msg} @ {loc}")));
    }));
}

/// Runs `f`; a panic becomes `Err(message @ location)`.
pub fn guard<T>(f: impl FnOnce() -> T) -> Result<T, String> {
    IN_GUARD.with(|g| g.set(g.get() + 1));
    let r = catch_unwind(AssertUnwindSafe(f));
    IN_GUARD.with(|g| g.set(g.get() - 1));
    match r {
        Ok(v) => Ok(v),
        Err(_) => Err(LAST_PANIC.with(|p| p.borrow_mut().take()).unwrap_or_else(|| "panic".into())),
    }
}

/// Location part of a panic string, with line numbers kept (used in signatures)
pub fn panic_site(p: &str) -> String {
    let loc = p.rsplit(" @ ").next().unwrap_or("");
    // keep only the in-repo relative path
    let loc = loc.rsplit("/repo/").next().unwrap_or(loc);
    loc.to_string()
}

// ------------------------------------------------------------------------------------- supervision

static CUR_CASE: AtomicI64 = AtomicI64::new(-1);
static CASE_CPU_BUDGET_MS: AtomicU64 = AtomicU64::new(20_000);

fn process_cpu_ms() -> u64 {
    let mut ts = libc::timespec { tv_sec: 0, tv_nsec: 0 };
    unsafe { libc::clock_gettime(libc::CLOCK_PROCESS_CPUTIME_ID, &mut ts) };
    ts.tv_sec as u64 * 1000 + ts.tv_nsec as u64 / 1_000_000
}

/// Exit code used when one case exceeded its CPU budget (suspect hang; the driver re-runs it alone)
pub const EXIT_HANG: i32 = 97;

pub fn start_watchdog() {
    std::thread::Builder::new()
        .name("watchdog".into())
        .spawn(|| {
            let mut seen_case = -2i64;
            let mut cpu_at_start = 0u64;
            loop {
                std::thread::sleep(std::time::Duration::from_millis(50));
                let c = CUR_CASE.load(Ordering::Relaxed);
                let cpu = process_cpu_ms();
                if c != seen_case {
                    seen_case = c;
                    cpu_at_start = cpu;
                } else if c >= 0 && cpu - cpu_at_start > CASE_CPU_BUDGET_MS.load(Ordering::Relaxed) {
                    eprintln!("WATCHDOG: case {c} used more than its CPU budget");
                    unsafe { libc::_exit(EXIT_HANG) };
                }
            }
        })
        .unwrap();
}

#[derive(Clone, Copy, PartialEq, Eq, Debug)]
pub enum Tier {
    Quick,
    Thorough,
}

pub struct Violation {
    pub signature: String,
    pub message: String,
    pub case: u64,
    pub replay: J,
}

pub struct Cx {
    pub prop: String,
    pub tier: Tier,
    pub seed: u64,
    pub shard: u64,
    pub nshards: u64,
    pub start: u64,
    pub only: Option<u64>,
    /// multiplies the number of cases of the tier
    pub scale: f64,
    pub dump: bool,
    pub out: Option<String>,
    pub log_path: Option<String>,
    status: Option<File>,
    pub evaluations: u64,
    pub cells: BTreeSet<String>,
    pub counters: BTreeMap<String, u64>,
    pub samples: Vec<J>,
    pub violations: Vec<Violation>,
    pub violations_total: u64,
    sigs_seen: BTreeMap<String, u64>,
    pub cur_case: u64,
    last_flush: Instant,
    t0: Instant,
    pub log: Option<std::io::BufWriter<File>>,
    pub max_samples: usize,
    pub done: bool,
    last_family: Option<(String, Instant)>,
}

impl Cx {
    pub fn new(prop: &str) -> Self {
        Cx {
            prop: prop.to_string(),
            tier: Tier::Quick,
            seed: 1,
            shard: 0,
            nshards: 1,
            start: 0,
            only: None,
            scale: 1.0,
            dump: false,
            out: None,
            log_path: None,
            status: None,
            evaluations: 0,
            cells: BTreeSet::new(),
            counters: BTreeMap::new(),
            samples: Vec::new(),
            violations: Vec::new(),
            violations_total: 0,
            sigs_seen: BTreeMap::new(),
            cur_case: 0,
            last_flush: Instant::now(),
            t0: Instant::now(),
            log: None,
            max_samples: 6,
            done: false,
            last_family: None,
        }
    }
    pub fn open_status(&mut self, path: &str) {
        self.status = Some(File::create(path).expect("status file"));
    }
    pub fn open_log(&mut self) {
        if let Some(p) = &self.log_path {
            let f = std::fs::OpenOptions::new().create(true).append(true).open(p).expect("log file");
            self.log = Some(std::io::BufWriter::with_capacity(1 << 20, f));
        }
    }
    pub fn log_line(&mut self, line: &str) {
        if let Some(l) = self.log.as_mut() {
            let _ = write!(l, "{}\t", self.cur_case);
            let _ = l.write_all(line.as_bytes());
            let _ = l.write_all(b"\n");
        }
    }
    pub fn set_case_budget_ms(&self, ms: u64) {
        CASE_CPU_BUDGET_MS.store(ms, Ordering::Relaxed);
    }
    /// number of cases for this tier: `quick` for the quick tier, `thorough` for thorough, scaled
    pub fn total(&self, quick: u64, thorough: u64) -> u64 {
        let n = if self.tier == Tier::Quick { quick } else { thorough };
        ((n as f64) * self.scale).max(1.0) as u64
    }
    /// The case indices this shard has to run out of 0..total
    pub fn my_cases(&self, total: u64) -> Vec<u64> {
        if let Some(k) = self.only {
            return vec![k];
        }
        // cases are dealt to the shards by a multiplicative hash, not by `case % nshards`: the drivers pick their families
        // by `case % 8 / 12 / 16 / 32 / 64`, and a family living on one residue class would otherwise land on one shard
        (0..total).filter(|i| (i.wrapping_mul(0x9E37_79B9_7F4A_7C15) >> 40) % self.nshards == self.shard && *i >= self.start).collect()
    }
    pub fn rng(&self, case: u64) -> Rng {
        Rng::for_case(self.seed, &self.prop, case)
    }
    /// To call before running a case: records it in the status file so that a crash is attributable
    pub fn begin_case(&mut self, case: u64, family: &str) {
        // wall time per family (informational, in the evidence)
        let now = Instant::now();
        if let Some((fam, t)) = self.last_family.take() {
            *self.counters.entry(format!("ms:{fam}")).or_insert(0) += now.duration_since(t).as_millis() as u64;
        }
        let prefix = family.split(|c| c == ':' || c == '#').next().unwrap_or(family).to_string();
        self.last_family = Some((prefix, now));
        self.cur_case = case;
        CUR_CASE.store(case as i64, Ordering::Relaxed);
        if let Some(f) = &self.status {
            let mut buf = [b' '; 96];
            let s = format!("{case} {family}");
            let n = s.len().min(95);
            buf[..n].copy_from_slice(&s.as_bytes()[..n]);
            buf[95] = b'\n';
            let _ = f.write_at(&buf, 0);
        }
        if self.last_flush.elapsed().as_millis() > 1500 {
            self.flush(false);
        }
    }
    pub fn end_cases(&mut self) {
        if let Some((fam, t)) = self.last_family.take() {
            *self.counters.entry(format!("ms:{fam}")).or_insert(0) += t.elapsed().as_millis() as u64;
        }
        CUR_CASE.store(-1, Ordering::Relaxed);
    }
    pub fn eval(&mut self) {
        self.evaluations += 1;
    }
    pub fn evals(&mut self, n: u64) {
        self.evaluations += n;
    }
    pub fn cell(&mut self, c: impl Into<String>) {
        if self.cells.len() < 400_000 {
            self.cells.insert(c.into());
        }
    }
    pub fn count(&mut self, k: &str, n: u64) {
        *self.counters.entry(k.to_string()).or_insert(0) += n;
    }
    pub fn max(&mut self, k: &str, n: u64) {
        let e = self.counters.entry(k.to_string()).or_insert(0);
        if n > *e {
            *e = n;
        }
    }
    pub fn sample(&mut self, f: impl FnOnce() -> J) {
        if self.samples.len() < self.max_samples {
            self.samples.push(f());
        }
    }
    pub fn sample_tagged(&mut self, tag: &str, f: impl FnOnce() -> J) {
        let key = format!("sampled:{tag}");
        if !self.counters.contains_key(&key) && self.samples.len() < 40 {
            self.counters.insert(key, 1);
            self.samples.push(f());
        }
    }
    pub fn violation(&mut self, signature: &str, message: String, replay: J) {
        self.violations_total += 1;
        let n = self.sigs_seen.entry(signature.to_string()).or_insert(0);
        *n += 1;
        // keep a few witnesses per signature
        if *n <= 3 && self.violations.len() < 200 {
            self.violations.push(Violation {
                signature: signature.to_string(),
                message,
                case: self.cur_case,
                replay,
            });
        }
    }
    pub fn to_json(&self, complete: bool) -> J {
        json!({
            "property": self.prop,
            "complete": complete,
            "shard": self.shard,
            "seed": self.seed,
            "last_case": self.cur_case,
            "evaluations": self.evaluations,
            "cells": self.cells.iter().collect::<Vec<_>>(),
            "counters": self.counters,
            "samples": self.samples,
            "violations_total": self.violations_total,
            "signature_counts": self.sigs_seen,
            "violations": self.violations.iter().map(|v| json!({
                "signature": v.signature, "message": v.message, "case": v.case, "replay": v.replay
            })).collect::<Vec<_>>(),
            "panics_seen": PANICS_SEEN.load(Ordering::Relaxed),
            "wall_s": self.t0.elapsed().as_secs_f64(),
        })
    }
    pub fn flush(&mut self, complete: bool) {
        self.last_flush = Instant::now();
        if let Some(l) = self.log.as_mut() {
            let _ = l.flush();
        }
        if let Some(out) = &self.out {
            let tmp = format!("{out}.tmp");
            if let Ok(mut f) = File::create(&tmp) {
                let _ = f.write_all(serde_json::to_string(&self.to_json(complete)).unwrap().as_bytes());
                let _ = std::fs::rename(&tmp, out);
            }
        }
    }
}

/// Short, lossless-enough rendering of a string for messages
pub fn clip(s: &str, n: usize) -> String {
    if s.chars().count() <= n {
        s.to_string()
    } else {
        let t: String = s.chars().take(n).collect();
        format!("{t}…(+{} chars)", s.chars().count() - n)
    }
}
