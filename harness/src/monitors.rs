//! Monitors shared by several drivers: the span checker that runs on every error a driver meets.
use crate::core::guard;
use tera::{Error, ErrorKind, ReportError};

/// (line 1-based, column 0-based in characters) of a byte offset, None when it is not a valid position
pub fn pos(src: &str, off: usize) -> Option<(usize, usize)> {
    if off > src.len() || !src.is_char_boundary(off) {
        return None;
    }
    let before = &src[..off];
    Some((1 + before.matches('\n').count(), before.rsplit('\n').next().unwrap().chars().count()))
}

/// Checks of a located report that need no knowledge of where the fault was put:
/// span inside the source, on character boundaries, line/column designate the position of the byte range,
/// Display succeeds, shows `--> name:line:col` and quotes the line the span starts on.
pub fn check_report(r: &ReportError, src: &str, disp: &str, why: &mut Vec<String>) {
    let sp = r.span();
    if sp.range.start > sp.range.end || sp.range.end > src.len() {
        why.push(format!("span-out-of-source: range {:?} for a source of {} bytes", sp.range, src.len()));
        return;
    }
    match (pos(src, sp.range.start), pos(src, sp.range.end)) {
        (Some(ps), Some(pe)) => {
            // the zero-width end-of-input form reports the position of range.end
            if (sp.start_line, sp.start_col) != ps && (sp.start_line, sp.start_col) != pe {
                why.push(format!("start-position-inconsistent: reported {}:{} but byte {} is at {}:{}", sp.start_line, sp.start_col, sp.range.start, ps.0, ps.1));
            }
            if (sp.end_line, sp.end_col) != pe {
                why.push(format!("end-position-inconsistent: reported {}:{} but byte {} is at {}:{}", sp.end_line, sp.end_col, sp.range.end, pe.0, pe.1));
            }
        }
        _ => why.push(format!("span-off-char-boundary: range {:?}", sp.range)),
    }
    if !disp.contains(&format!("--> {}:{}:{}", r.filename(), sp.start_line, sp.start_col + 1)) {
        why.push(format!("display-locus-missing: no `--> {}:{}:{}` in the report", r.filename(), sp.start_line, sp.start_col + 1));
    }
    if let Some(line) = src.split('\n').nth(sp.start_line.wrapping_sub(1)) {
        let line = line.strip_suffix('\r').unwrap_or(line);
        if !disp.contains(line) {
            why.push("display-does-not-quote-the-line".to_string());
        }
    } else {
        why.push(format!("start-line-not-in-source: line {}", sp.start_line));
    }
}

/// To run on every error met by any driver: Display must not panic; located kinds must pass `check_report`
/// against the source of the template they name. Returns the list of problems (empty = fine).
pub fn check_any_error(e: &Error, source_of: &dyn Fn(&str) -> Option<String>) -> Vec<String> {
    let mut why = Vec::new();
    let disp = match guard(|| e.to_string()) {
        Ok(d) => d,
        Err(p) => {
            why.push(format!("display-panics: {p}"));
            return why;
        }
    };
    match e.kind() {
        ErrorKind::SyntaxError(r) | ErrorKind::RenderingError(r) => match source_of(r.filename()) {
            Some(src) => check_report(r, &src, &disp, &mut why),
            None => why.push(format!("unknown-template-named: {:?}", r.filename())),
        },
        _ => {}
    }
    why
}
