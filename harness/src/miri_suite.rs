//! Reduced, deterministic workloads for the Miri leg (UB and data races in the code the workload reaches; the four
//! `unsafe` sites are all `from_utf8_unchecked`: small-string `as_str`, the two escape sinks, the `escape_html` filter).
//! No files, no clocks, no libc: everything comes from argv. A Miri error aborts the interpreter (non-zero exit).
use crate::core::Rng;
use crate::values::*;
use std::io::Write;
use tera::{Context, Tera, Value};

fn mark(s: &str, out: &mut dyn Write) -> std::io::Result<()> {
    assert!(std::str::from_utf8(s.as_bytes()).is_ok());
    out.write_all("\u{e000}".as_bytes())?;
    out.write_all(s.as_bytes())?;
    out.write_all("\u{e001}".as_bytes())
}

fn strings(rng: &mut Rng) -> String {
    // around the 21-byte inline/heap boundary, multi-byte characters at the boundary
    let n = *rng.pick(&[0usize, 1, 5, 19, 20, 21, 22, 23, 40]);
    let mut s = String::new();
    while s.len() < n {
        s.push(*rng.pick(&['a', 'é', '日', '😀', '<', '&', '"', ' ']));
    }
    s
}

pub fn run(id: &str, seed: u64, ops: usize) -> u64 {
    let mut rng = Rng::for_case(seed, id, 0);
    let mut done = 0u64;
    match id {
        "C01" => {
            let mut t = Tera::default();
            t.add_raw_templates(vec![
                ("a.html", "{{ v }}|{{ m.k }}|{% set c %}{{ v }}{% endset %}{{ c }}|{{ v | safe }}|{{ [v] }}|{{ b }}|{{ v ~ v }}|{{ v | upper }}"),
                ("b.html", "{% for x in xs %}{{ x }}{% endfor %}{% filter upper %}{{ v }}{% endfilter %}{{ <c a={v} /> }}{% component c(a) %}[{{ a }}]{% endcomponent %}"),
                ("c.txt", "{{ v }}{{ m.k }}"),
            ])
            .unwrap();
            for i in 0..ops {
                let s = strings(&mut rng);
                let mut ctx = Context::new();
                ctx.insert_value("v", Value::from(s.as_str()));
                ctx.insert_value("b", Value::bytes(vec![0xff, 0x61, 0xfe]));
                ctx.insert("xs", &vec![s.clone(), strings(&mut rng)]);
                let mut m = tera::value::Map::new();
                m.insert("k".into(), Value::from(strings(&mut rng).as_str()));
                ctx.insert_value("m", Value::from(m));
                if i % 2 == 1 {
                    t.set_escape_fn(mark);
                } else {
                    t.reset_escape_fn();
                }
                for name in ["a.html", "b.html", "c.txt"] {
                    let out = t.render(name, &ctx).unwrap();
                    assert!(std::str::from_utf8(out.as_bytes()).is_ok());
                    done += 1;
                }
            }
        }
        "C07" => {
            let pool = kind_pool();
            let mut t = Tera::default();
            t.add_raw_templates(vec![
                ("p.html", "{{ v }}|{{ m.k }}|{% set c %}{{ v }}{% endset %}{{ c | length }}"),
                ("q.html", "{% for x in v %}{{ x }}{% endfor %}{{ v | default(value=1) }}{{ v is defined }}"),
                ("r.html", "{{ v + x }}{{ v ~ x }}{{ v == x }}{{ v[x] }}"),
            ])
            .unwrap();
            for i in 0..ops {
                let v = &pool[(i * 7 + seed as usize) % pool.len()];
                let x = &pool[(i * 13 + 3) % pool.len()];
                if v.depth() > 4 || matches!(v, V::Arr(a) if a.len() > 20) || matches!(v, V::Str(s) if s.len() > 100) {
                    continue;
                }
                let mut ctx = Context::new();
                ctx.insert_value("v", v.to_tera());
                ctx.insert_value("x", x.to_tera());
                let mut m = tera::value::Map::new();
                m.insert("k".into(), v.to_tera());
                ctx.insert_value("m", Value::from(m));
                for name in ["p.html", "q.html", "r.html"] {
                    let mut out = Vec::new();
                    let _ = t.render_to(name, &ctx, &mut out);
                    done += 1;
                }
            }
        }
        "C14" => {
            let t = Tera::default();
            for _ in 0..ops {
                let s = strings(&mut rng);
                let n = rng.below(s.chars().count() + 2) as i64;
                let mut ctx = Context::new();
                ctx.insert_value("s", Value::from(s.as_str()));
                ctx.insert("n", &n);
                ctx.insert("m", &(-n));
                let out = t
                    .render_str("{{ s[n] | default(value='U') }}{{ s[m:] }}{{ s[:n] }}{{ s[::-1] }}{{ s | truncate(length=n) }}{{ s | reverse }}{{ s | length }}{% for c in s %}{{ c }}{% endfor %}", &ctx, true)
                    .unwrap();
                assert!(std::str::from_utf8(out.as_bytes()).is_ok());
                done += 1;
            }
        }
        "C17" => {
            let t = Tera::default();
            let filters = ["upper", "lower", "capitalize", "title", "trim", "escape_html", "escape_xml", "newlines_to_br", "indent", "wordcount", "reverse", "str", "truncate(length=3)", "replace(from=\"a\", to=\"é\")", "split(pat=\"a\") | join(sep=\"日\")"];
            for i in 0..ops {
                let s = strings(&mut rng);
                let mut ctx = Context::new();
                ctx.insert_value("s", Value::from(s.as_str()));
                let f = filters[i % filters.len()];
                let out = t.render_str(&format!("{{{{ s | {f} }}}}"), &ctx, i % 2 == 0).unwrap();
                assert!(std::str::from_utf8(out.as_bytes()).is_ok());
                done += 1;
            }
        }
        "C18" => {
            // threads sharing one instance: UB + data races; distinct Miri seeds = distinct interleavings
            let mut t = Tera::default();
            t.register_filter("twice", |s: &str, _: tera::Kwargs, _: &tera::State| format!("{s}{s}"));
            t.global_context().insert("g", "G&");
            t.add_raw_templates(vec![
                ("comps.html", "{% component card(title: string, n = 1, ...rest) %}<c {{ title }} {{ n }}>{{ body | default(value='') }}</c>{% endcomponent %}"),
                ("base.html", "<{% block head %}H{{ g }}{% endblock %}|{% block body %}{% endblock %}>"),
                ("inc.html", "[{{ x | twice }}]"),
                ("page.html", "{% extends 'base.html' %}{% block body %}{{ super() }}{% for x in xs %}{% include 'inc.html' %}{% endfor %}{% set c %}{{ <card title={t} /> }}{% endset %}{{ c }}{{ xs | sort | unique | join(sep=',') }}{% endblock %}"),
            ])
            .unwrap();
            let tera = std::sync::Arc::new(t);
            let mk = |i: usize| {
                let mut c = Context::new();
                c.insert("xs", &vec![format!("é{i}<"), "b".to_string(), "a".to_string()]);
                c.insert("t", &format!("T{i}"));
                c
            };
            let ctxs = std::sync::Arc::new((0..3).map(mk).collect::<Vec<_>>());
            let threads = 3;
            let per = (ops / threads).max(1);
            let hs: Vec<_> = (0..threads)
                .map(|ti| {
                    let (t, c) = (tera.clone(), ctxs.clone());
                    std::thread::spawn(move || (0..per).map(|i| { let k = (i + ti) % c.len(); (k, t.render("page.html", &c[k]).unwrap(), t.render_block("page.html", "head", &c[k]).unwrap()) }).collect::<Vec<_>>())
                })
                .collect();
            let results: Vec<_> = hs.into_iter().map(|h| h.join().unwrap()).collect();
            let reference: Vec<_> = (0..ctxs.len()).map(|k| (tera.render("page.html", &ctxs[k]).unwrap(), tera.render_block("page.html", "head", &ctxs[k]).unwrap())).collect();
            for outs in &results {
                for (k, a, b) in outs {
                    assert_eq!((a, b), (&reference[*k].0, &reference[*k].1), "concurrent render differs from the sequential one");
                    done += 2;
                }
            }
        }
        _ => panic!("no miri suite for {id}"),
    }
    done
}
