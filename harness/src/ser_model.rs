//! An independent serde::Serializer targeting the harness's model value type `V`, written from the serde data
//! model and the documented encoding (structs/maps -> maps, sequences/tuples -> arrays, unit/none -> none,
//! enums externally tagged). It predicts what `{{ v }}` prints for any serialisable Rust value.
use crate::values::{K, V};
use serde::ser::{self, Serialize};
use std::fmt;

#[derive(Debug)]
pub struct ModelSerError(pub String);
impl fmt::Display for ModelSerError {
    fn fmt(&self, f: &mut fmt::Formatter<'_>) -> fmt::Result {
        write!(f, "{}", self.0)
    }
}
impl std::error::Error for ModelSerError {}
impl ser::Error for ModelSerError {
    fn custom<T: fmt::Display>(msg: T) -> Self {
        ModelSerError(msg.to_string())
    }
}

pub fn to_model<T: Serialize + ?Sized>(v: &T) -> Result<V, ModelSerError> {
    v.serialize(MS)
}

pub struct MS;
type R = Result<V, ModelSerError>;

fn key_of(v: V) -> Result<K, ModelSerError> {
    match v {
        V::Bool(b) => Ok(K::Bool(b)),
        V::I64(x) => Ok(K::I64(x)),
        V::U64(x) => Ok(K::U64(x)),
        V::I128(x) => Ok(K::I128(x)),
        V::U128(x) => Ok(K::U128(x)),
        V::Str(s) => Ok(K::Str(s)),
        other => Err(ModelSerError(format!("a {} cannot be a map key", other.kind()))),
    }
}

pub struct SeqS(Vec<V>, Option<&'static str>);
pub struct MapS(Vec<(K, V)>, Option<K>, Option<&'static str>);

impl ser::Serializer for MS {
    type Ok = V;
    type Error = ModelSerError;
    type SerializeSeq = SeqS;
    type SerializeTuple = SeqS;
    type SerializeTupleStruct = SeqS;
    type SerializeTupleVariant = SeqS;
    type SerializeMap = MapS;
    type SerializeStruct = MapS;
    type SerializeStructVariant = MapS;
    fn serialize_bool(self, v: bool) -> R { Ok(V::Bool(v)) }
    fn serialize_i8(self, v: i8) -> R { Ok(V::I64(v as i64)) }
    fn serialize_i16(self, v: i16) -> R { Ok(V::I64(v as i64)) }
    fn serialize_i32(self, v: i32) -> R { Ok(V::I64(v as i64)) }
    fn serialize_i64(self, v: i64) -> R { Ok(V::I64(v)) }
    fn serialize_i128(self, v: i128) -> R { Ok(V::I128(v)) }
    fn serialize_u8(self, v: u8) -> R { Ok(V::U64(v as u64)) }
    fn serialize_u16(self, v: u16) -> R { Ok(V::U64(v as u64)) }
    fn serialize_u32(self, v: u32) -> R { Ok(V::U64(v as u64)) }
    fn serialize_u64(self, v: u64) -> R { Ok(V::U64(v)) }
    fn serialize_u128(self, v: u128) -> R { Ok(V::U128(v)) }
    fn serialize_f32(self, v: f32) -> R { Ok(V::F64(v as f64)) }
    fn serialize_f64(self, v: f64) -> R { Ok(V::F64(v)) }
    fn serialize_char(self, v: char) -> R { Ok(V::Str(v.to_string())) }
    fn serialize_str(self, v: &str) -> R { Ok(V::Str(v.to_string())) }
    fn serialize_bytes(self, v: &[u8]) -> R { Ok(V::Bytes(v.to_vec())) }
    fn serialize_none(self) -> R { Ok(V::None) }
    fn serialize_some<T: Serialize + ?Sized>(self, value: &T) -> R { value.serialize(MS) }
    fn serialize_unit(self) -> R { Ok(V::None) }
    fn serialize_unit_struct(self, _name: &'static str) -> R { Ok(V::None) }
    fn serialize_unit_variant(self, _name: &'static str, _idx: u32, variant: &'static str) -> R { Ok(V::Str(variant.to_string())) }
    fn serialize_newtype_struct<T: Serialize + ?Sized>(self, _name: &'static str, value: &T) -> R { value.serialize(MS) }
    fn serialize_newtype_variant<T: Serialize + ?Sized>(self, _name: &'static str, _idx: u32, variant: &'static str, value: &T) -> R {
        Ok(V::Map(vec![(K::Str(variant.to_string()), value.serialize(MS)?)]))
    }
    fn serialize_seq(self, _len: Option<usize>) -> Result<SeqS, ModelSerError> { Ok(SeqS(Vec::new(), None)) }
    fn serialize_tuple(self, _len: usize) -> Result<SeqS, ModelSerError> { Ok(SeqS(Vec::new(), None)) }
    fn serialize_tuple_struct(self, _name: &'static str, _len: usize) -> Result<SeqS, ModelSerError> { Ok(SeqS(Vec::new(), None)) }
    fn serialize_tuple_variant(self, _name: &'static str, _idx: u32, variant: &'static str, _len: usize) -> Result<SeqS, ModelSerError> { Ok(SeqS(Vec::new(), Some(variant))) }
    fn serialize_map(self, _len: Option<usize>) -> Result<MapS, ModelSerError> { Ok(MapS(Vec::new(), None, None)) }
    fn serialize_struct(self, _name: &'static str, _len: usize) -> Result<MapS, ModelSerError> { Ok(MapS(Vec::new(), None, None)) }
    fn serialize_struct_variant(self, _name: &'static str, _idx: u32, variant: &'static str, _len: usize) -> Result<MapS, ModelSerError> { Ok(MapS(Vec::new(), None, Some(variant))) }
}

impl SeqS {
    fn finish(self) -> R {
        let arr = V::Arr(self.0);
        Ok(match self.1 {
            Some(variant) => V::Map(vec![(K::Str(variant.to_string()), arr)]),
            None => arr,
        })
    }
}
impl ser::SerializeSeq for SeqS {
    type Ok = V;
    type Error = ModelSerError;
    fn serialize_element<T: Serialize + ?Sized>(&mut self, value: &T) -> Result<(), ModelSerError> { self.0.push(value.serialize(MS)?); Ok(()) }
    fn end(self) -> R { self.finish() }
}
impl ser::SerializeTuple for SeqS {
    type Ok = V;
    type Error = ModelSerError;
    fn serialize_element<T: Serialize + ?Sized>(&mut self, value: &T) -> Result<(), ModelSerError> { self.0.push(value.serialize(MS)?); Ok(()) }
    fn end(self) -> R { self.finish() }
}
impl ser::SerializeTupleStruct for SeqS {
    type Ok = V;
    type Error = ModelSerError;
    fn serialize_field<T: Serialize + ?Sized>(&mut self, value: &T) -> Result<(), ModelSerError> { self.0.push(value.serialize(MS)?); Ok(()) }
    fn end(self) -> R { self.finish() }
}
impl ser::SerializeTupleVariant for SeqS {
    type Ok = V;
    type Error = ModelSerError;
    fn serialize_field<T: Serialize + ?Sized>(&mut self, value: &T) -> Result<(), ModelSerError> { self.0.push(value.serialize(MS)?); Ok(()) }
    fn end(self) -> R { self.finish() }
}
impl MapS {
    fn put(&mut self, k: K, v: V) {
        // a later entry with an equal key replaces the earlier one (map semantics)
        if let Some(e) = self.0.iter_mut().find(|(k2, _)| k2.same(&k)) {
            e.1 = v;
        } else {
            self.0.push((k, v));
        }
    }
    fn finish(self) -> R {
        let m = V::Map(self.0);
        Ok(match self.2 {
            Some(variant) => V::Map(vec![(K::Str(variant.to_string()), m)]),
            None => m,
        })
    }
}
impl ser::SerializeMap for MapS {
    type Ok = V;
    type Error = ModelSerError;
    fn serialize_key<T: Serialize + ?Sized>(&mut self, key: &T) -> Result<(), ModelSerError> { self.1 = Some(key_of(key.serialize(MS)?)?); Ok(()) }
    fn serialize_value<T: Serialize + ?Sized>(&mut self, value: &T) -> Result<(), ModelSerError> {
        let k = self.1.take().ok_or_else(|| ModelSerError("value without key".into()))?;
        let v = value.serialize(MS)?;
        self.put(k, v);
        Ok(())
    }
    fn end(self) -> R { self.finish() }
}
impl ser::SerializeStruct for MapS {
    type Ok = V;
    type Error = ModelSerError;
    fn serialize_field<T: Serialize + ?Sized>(&mut self, key: &'static str, value: &T) -> Result<(), ModelSerError> { let v = value.serialize(MS)?; self.put(K::Str(key.to_string()), v); Ok(()) }
    fn end(self) -> R { self.finish() }
}
impl ser::SerializeStructVariant for MapS {
    type Ok = V;
    type Error = ModelSerError;
    fn serialize_field<T: Serialize + ?Sized>(&mut self, key: &'static str, value: &T) -> Result<(), ModelSerError> { let v = value.serialize(MS)?; self.put(K::Str(key.to_string()), v); Ok(()) }
    fn end(self) -> R { self.finish() }
}
