//! Reference model, value layer: equality, ordering, truthiness and printing of the harness's own value
//! type `V`, written from docs/content/_index.md and MIGRATION.md (never from the VM).
use crate::values::*;
use std::cmp::Ordering;

/// exact comparison of two numbers of any representation; NaN equals itself and sorts after everything
pub fn num_cmp(a: &V, b: &V) -> Option<Ordering> {
    fn int_cmp(a: Int, b: Int) -> Ordering {
        match (a.0 && a.1 != 0, b.0 && b.1 != 0) {
            (false, true) => Ordering::Greater,
            (true, false) => Ordering::Less,
            (false, false) => a.1.cmp(&b.1),
            (true, true) => b.1.cmp(&a.1),
        }
    }
    /// exact comparison of a finite/infinite float with an integer
    fn float_int_cmp(f: f64, i: Int) -> Ordering {
        if f.is_nan() {
            return Ordering::Greater;
        }
        if f == f64::INFINITY {
            return Ordering::Greater;
        }
        if f == f64::NEG_INFINITY {
            return Ordering::Less;
        }
        let fs: i8 = if f > 0.0 { 1 } else if f < 0.0 { -1 } else { 0 };
        let is: i8 = if i.1 == 0 { 0 } else if i.0 { -1 } else { 1 };
        if fs != is {
            return fs.cmp(&is);
        }
        if fs == 0 {
            return Ordering::Equal;
        }
        let neg_f = fs < 0;
        // same sign: compare magnitudes exactly. |f| = m * 2^e with m a 53-bit integer
        let mag = f.abs();
        let ord = if mag >= 340282366920938463463374607431768211456.0 {
            Ordering::Greater // 2^128 and above: beyond u128::MAX
        } else {
            let fl = mag.floor();
            let fl_int = fl as u128; // exact: fl < 2^128 and is an integer representable in f64
            match fl_int.cmp(&i.1) {
                Ordering::Equal if mag > fl => Ordering::Greater,
                o => o,
            }
        };
        if neg_f {
            ord.reverse()
        } else {
            ord
        }
    }
    match (a, b) {
        (V::F64(x), V::F64(y)) => Some(match (x.is_nan(), y.is_nan()) {
            (true, true) => Ordering::Equal,
            (true, false) => Ordering::Greater,
            (false, true) => Ordering::Less,
            _ => x.partial_cmp(y).unwrap(),
        }),
        (V::F64(x), o) => o.int().map(|i| float_int_cmp(*x, i)),
        (o, V::F64(y)) => o.int().map(|i| float_int_cmp(*y, i).reverse()),
        _ => match (a.int(), b.int()) {
            (Some(x), Some(y)) => Some(int_cmp(x, y)),
            _ => None,
        },
    }
}

/// `==`: structural on arrays and maps, by mathematical value on numbers, ignoring the safe mark on strings
pub fn eq(a: &V, b: &V) -> bool {
    match (a, b) {
        (V::Undef, V::Undef) | (V::None, V::None) => true,
        (V::Bool(x), V::Bool(y)) => x == y,
        (V::Bytes(x), V::Bytes(y)) => x == y,
        (V::Arr(x), V::Arr(y)) => x.len() == y.len() && x.iter().zip(y).all(|(p, q)| eq(p, q)),
        (V::Map(x), V::Map(y)) => x.len() == y.len() && x.iter().all(|(k, v)| y.iter().any(|(k2, v2)| k.same(k2) && eq(v, v2))),
        _ => {
            if let (Some(x), Some(y)) = (a.as_str(), b.as_str()) {
                return x == y;
            }
            if a.is_number() && b.is_number() {
                return num_cmp(a, b) == Some(Ordering::Equal);
            }
            false
        }
    }
}

/// The documented comparability classes: numbers with numbers, strings with strings, bools with bools.
/// (Arrays are left to the engine's own order, whose lawfulness C15 checks; the docs and the code disagree on it.)
pub fn scalar_cmp(a: &V, b: &V) -> Option<Ordering> {
    match (a, b) {
        (V::Bool(x), V::Bool(y)) => Some(x.cmp(y)),
        _ => {
            if let (Some(x), Some(y)) = (a.as_str(), b.as_str()) {
                return Some(x.cmp(y));
            }
            if a.is_number() && b.is_number() {
                return num_cmp(a, b);
            }
            None
        }
    }
}

pub fn class(v: &V) -> &'static str {
    match v {
        V::Undef => "undef",
        V::None => "none",
        V::Bool(_) => "bool",
        V::F64(_) => "num",
        V::Str(_) | V::Safe(_) => "str",
        V::Bytes(_) => "bytes",
        V::Arr(_) => "arr",
        V::Map(_) => "map",
        _ => "num",
    }
}

/// documented truthiness: undefined/none/false/0/NaN?/""/empty containers are falsy
pub fn truthy(v: &V) -> bool {
    match v {
        V::Undef | V::None => false,
        V::Bool(b) => *b,
        V::F64(f) => *f != 0.0,
        V::Str(s) | V::Safe(s) => !s.is_empty(),
        V::Bytes(b) => !b.is_empty(),
        V::Arr(a) => !a.is_empty(),
        V::Map(m) => !m.is_empty(),
        i => i.int().map(|x| x.1 != 0).unwrap_or(false),
    }
}

fn print_int(i: Int) -> String {
    format!("{}{}", if i.0 && i.1 != 0 { "-" } else { "" }, i.1)
}

/// what `{{ v }}` writes (before escaping): strings raw at top level, quoted inside containers, maps in
/// sorted key order, floats in Rust `{:?}` form, integers exactly
pub fn print(v: &V) -> String {
    let mut s = String::new();
    print_into(v, &mut s, true);
    s
}

fn key_order(a: &K, b: &K) -> Ordering {
    // bools, then numbers, then strings (observed engine order of mixed keys is not documented;
    // generators that compare printed maps only use one key class per map)
    fn rank(k: &K) -> u8 {
        match k {
            K::Bool(_) => 0,
            K::Str(_) => 2,
            _ => 1,
        }
    }
    match (a, b) {
        (K::Str(x), K::Str(y)) => x.cmp(y),
        (K::Bool(x), K::Bool(y)) => x.cmp(y),
        _ => match (a.int(), b.int()) {
            (Some(_), Some(_)) => num_cmp(&a.to_v(), &b.to_v()).unwrap(),
            _ => rank(a).cmp(&rank(b)),
        },
    }
}

pub fn sorted_entries(m: &[(K, V)]) -> Vec<&(K, V)> {
    let mut e: Vec<&(K, V)> = m.iter().collect();
    e.sort_by(|a, b| key_order(&a.0, &b.0));
    e
}

fn print_into(v: &V, out: &mut String, top: bool) {
    match v {
        V::Undef | V::None => {}
        V::Bool(b) => out.push_str(if *b { "true" } else { "false" }),
        V::F64(f) => out.push_str(&format!("{f:?}")),
        V::Str(s) | V::Safe(s) => {
            if top {
                out.push_str(s)
            } else {
                out.push_str(&format!("{s:?}"))
            }
        }
        V::Bytes(b) => out.push_str(&String::from_utf8_lossy(b)),
        V::Arr(a) => {
            out.push('[');
            for (i, x) in a.iter().enumerate() {
                if i > 0 {
                    out.push_str(", ");
                }
                print_into(x, out, false);
            }
            out.push(']');
        }
        V::Map(m) => {
            out.push('{');
            for (i, (k, x)) in sorted_entries(m).into_iter().enumerate() {
                if i > 0 {
                    out.push_str(", ");
                }
                out.push_str(&k.print());
                out.push_str(": ");
                print_into(x, out, false);
            }
            out.push('}');
        }
        i => out.push_str(&print_int(i.int().unwrap())),
    }
}
