//! C18 — output channels agree, write failures surface, rendering is pure and thread-safe.
//! (1) channel differential for the four render variants, (2) fault enumeration over every write call and a set of
//! byte offsets with a failing writer, (3) purity (derived-state digest + context before/after), (4) concurrent
//! renders on one shared instance compared with the sequential reference.
use crate::core::*;
use crate::progs::{base_context, PGen, Program};
use serde_json::json;
use std::io::{self, Write};
use std::sync::{Arc, Barrier};
use tera::{Context, ErrorKind, Kwargs, State, Tera};

#[derive(Clone, Copy, Debug, PartialEq)]
enum FailKind {
    Other,
    WriteZero,
    InterruptedThenError,
    BrokenPipe,
}

/// Accepts bytes until the configured failure point; `max_chunk` forces short writes.
struct FaultyWriter {
    accepted: Vec<u8>,
    calls: usize,
    fail_at_call: Option<usize>,
    fail_at_byte: Option<usize>,
    kind: FailKind,
    interrupted_sent: bool,
    max_chunk: usize,
    failed: bool,
    writes_after_failure: usize,
}

impl FaultyWriter {
    fn counting() -> Self {
        FaultyWriter { accepted: Vec::new(), calls: 0, fail_at_call: None, fail_at_byte: None, kind: FailKind::Other, interrupted_sent: false, max_chunk: usize::MAX, failed: false, writes_after_failure: 0 }
    }
    fn fail(&mut self) -> io::Result<usize> {
        match self.kind {
            FailKind::InterruptedThenError if !self.interrupted_sent => {
                self.interrupted_sent = true;
                Err(io::Error::new(io::ErrorKind::Interrupted, "interrupted once"))
            }
            FailKind::WriteZero => {
                self.failed = true;
                Ok(0)
            }
            FailKind::BrokenPipe => {
                self.failed = true;
                Err(io::Error::new(io::ErrorKind::BrokenPipe, "injected"))
            }
            _ => {
                self.failed = true;
                Err(io::Error::other("injected"))
            }
        }
    }
}

impl Write for FaultyWriter {
    fn write(&mut self, buf: &[u8]) -> io::Result<usize> {
        if self.failed {
            self.writes_after_failure += 1;
            return Err(io::Error::other("already failed"));
        }
        if buf.is_empty() {
            return Ok(0);
        }
        if self.fail_at_call == Some(self.calls) {
            let r = self.fail();
            if self.failed {
                return r;
            }
            if r.is_err() {
                return r; // Interrupted: the call index is not consumed, write_all retries
            }
        }
        self.calls += 1;
        let mut n = buf.len().min(self.max_chunk);
        if let Some(limit) = self.fail_at_byte {
            if self.accepted.len() >= limit {
                self.calls -= 1;
                return self.fail();
            }
            n = n.min(limit - self.accepted.len());
        }
        self.accepted.extend_from_slice(&buf[..n]);
        Ok(n)
    }
    fn flush(&mut self) -> io::Result<()> {
        Ok(())
    }
}

#[derive(Clone, Debug)]
enum Job {
    Template(String),
    Block(String, String),
    Component(String, Option<String>, bool),
    OneOff(String, bool),
}

fn run_job_to(t: &Tera, ctx: &Context, job: &Job, w: &mut dyn Write) -> tera::TeraResult<()> {
    match job {
        Job::Template(n) => t.render_to(n, ctx, w),
        Job::Block(n, b) => t.render_block_to(n, b, ctx, w),
        Job::Component(c, body, esc) => t.render_component_to(c, ctx, body.as_deref(), *esc, w),
        Job::OneOff(src, esc) => t.render_str_to(src, ctx, *esc, w),
    }
}
fn run_job(t: &Tera, ctx: &Context, job: &Job) -> tera::TeraResult<String> {
    match job {
        Job::Template(n) => t.render(n, ctx),
        Job::Block(n, b) => t.render_block(n, b, ctx),
        Job::Component(c, body, esc) => t.render_component(c, ctx, body.as_deref(), *esc),
        Job::OneOff(src, esc) => t.render_str(src, ctx, *esc),
    }
}

pub fn build_engine(p: &Program) -> Result<Tera, String> {
    let mut t = Tera::default();
    t.register_filter("twice", |s: &str, _: Kwargs, _: &State| format!("{s}{s}"));
    t.register_function("answer", |_: Kwargs, st: &State| -> tera::TeraResult<i64> { Ok(st.get::<i64>("n1")?.unwrap_or(0) + 42) });
    t.register_filter("json_encode", tera_contrib::json::json_encode);
    // a filter whose result depends on the render context through the State it is handed
    t.register_filter("plus_n1", |v: i64, _: Kwargs, st: &State| -> tera::TeraResult<i64> { Ok(v + st.get::<i64>("n1")?.unwrap_or(0)) });
    t.global_context().insert("g", "G&<");
    t.add_raw_templates(p.templates.clone()).map_err(|e| e.to_string())?;
    Ok(t)
}

pub fn context_of(vars: &[(&'static str, crate::values::V)]) -> Context {
    let mut c = Context::new();
    for (n, v) in vars {
        c.insert_value(*n, v.to_tera());
    }
    c
}

fn jobs_of(p: &Program, rng: &mut Rng) -> Vec<Job> {
    let mut jobs: Vec<Job> = p.entries.iter().map(|e| Job::Template(e.clone())).collect();
    for (t, b) in p.blocks.iter().take(4) {
        jobs.push(Job::Block(t.clone(), b.clone()));
    }
    for c in &p.components {
        jobs.push(Job::Component(c.clone(), if rng.bool() { Some("body <b> & text".to_string()) } else { None }, rng.bool()));
    }
    jobs.push(Job::OneOff("{{ s1 }}{% for x in xs %}{{ x }},{% endfor %}{{ g }}{{ answer() }}{{ s2 | twice }}".to_string(), rng.bool()));
    // one-off strings without any expression or tag: plain text, and text whose only constructs are comments
    jobs.push(Job::OneOff("plain text, no delimiters: } % # { é".to_string(), rng.bool()));
    jobs.push(Job::OneOff("Dear customer,{# TODO #} thank you.{#- gone -#}   end".to_string(), rng.bool()));
    // everything whose output depends on the order in which a map is walked: the dump variable, maps built while
    // rendering, group_by results, keys/values/pairs, comprehensions and serialisation of such maps
    jobs.push(Job::OneOff(
        "{% for k, v in __tera_context %}{{ k }},{% endfor %}|{% set rm = {\"a\": n1, \"b\": s1, \"c\": n2, \"d\": f1, \"e\": b1, \"f\": xs} %}{% for k, v in rm %}{{ k }}={{ v }};{% endfor %}|{{ rm | keys }}|{{ rm | values }}|{{ rm | pairs }}|{% for g, it in items | group_by(attribute=\"name\") %}{{ g }}:{{ it | length }},{% endfor %}|{{ [k for k, v in rm] }}|{{ rm | json_encode }}|{% for k, v in mm.a %}{{ k }},{% endfor %}|{{ items | group_by(attribute=\"id\") | keys }}"
            .to_string(),
        rng.bool(),
    ));
    jobs
}

/// The channels must also agree where a render runs into one of the engine's nesting limits: recursive components
/// around the component recursion limit and include chains around the render depth limit, through all four entry
/// points. Both channels must succeed with the same bytes or both must fail.
fn limits_case(cx: &mut Cx, case: u64) {
    cx.begin_case(case, "limits");
    let n = 10 + case as i64; // 10..=41 component levels
    let chain = 160usize;
    let mut tpls: Vec<(String, String)> = vec![
        ("comps".into(), "{% component down(n) %}{{ n }}{% if n > 0 %},{{ <down n={n - 1} /> }}{% endif %}{% endcomponent %}{% component wrap(n) %}[{% include \"viainc\" %}]{% endcomponent %}".into()),
        ("viainc".into(), "{% if n > 0 %}{{ <wrap n={n - 1} /> }}{% else %}.{% endif %}".into()),
        ("page".into(), "<{{ <down n={n} /> }}>{% block b %}({{ <down n={n} /> }}){% endblock %}".into()),
        ("mixed".into(), "{{ <wrap n={n} /> }}".into()),
    ];
    for i in 0..chain {
        let body = if i + 1 < chain { format!("{i}:{{% include \"c{}\" %}}", i + 1) } else { "leaf".to_string() };
        tpls.push((format!("c{i}"), body));
    }
    let tera = match guard(|| {
        let mut t = Tera::default();
        t.add_raw_templates(tpls.clone()).map(|_| t).map_err(|e| e.to_string())
    }) {
        Ok(Ok(t)) => t,
        other => {
            cx.violation("C18/limits-world-rejected", format!("the nesting-limit templates were not accepted: {:?}", other.map(|r| r.map(|_| ()))), json!({"templates": tpls[..4]}));
            return;
        }
    };
    let mut ctx = Context::new();
    ctx.insert("n", &n);
    // include chains whose depth below the entry point is 96 + 2*case (64 .. 158 around the limit of 128)
    let depth = 96 + 2 * case as usize;
    let entry = format!("c{}", chain - 1 - depth.min(chain - 1));
    let jobs = vec![
        Job::Component("down".into(), None, true),
        Job::Component("wrap".into(), None, false),
        Job::Template("page".into()),
        Job::Template("mixed".into()),
        Job::Block("page".into(), "b".into()),
        Job::OneOff("{{ <down n={n} /> }}|{{ <wrap n={n} /> }}".into(), true),
        Job::OneOff(format!("{{% include \"{entry}\" %}}"), false),
        Job::Template(entry.clone()),
    ];
    for job in &jobs {
        let replay = json!({"templates": tpls[..4], "include_chain": format!("c0..c{} each including the next", chain - 1), "job": format!("{job:?}"), "n": n});
        let r = guard(|| {
            let a = run_job(&tera, &ctx, job).map_err(|e| e.to_string());
            let mut w = FaultyWriter::counting();
            let b = run_job_to(&tera, &ctx, job, &mut w).map_err(|e| e.to_string());
            (a, b, w)
        });
        cx.evals(2);
        let jk = match job {
            Job::Template(_) => "render",
            Job::Block(..) => "render_block",
            Job::Component(..) => "render_component",
            Job::OneOff(..) => "render_str",
        };
        match r {
            Err(p) => cx.violation(&format!("C18/panic/{}", panic_site(&p)), format!("render panicked on {job:?} (n = {n}): {p}"), replay),
            Ok((a, b, w)) => {
                cx.count("channel_pairs_at_nesting_limits", 1);
                cx.cell(format!("limits|{jk}|{}", if a.is_ok() { "ok" } else { "err" }));
                let same = match (&a, &b) {
                    (Ok(s), Ok(())) => s.as_bytes() == w.accepted.as_slice(),
                    (Err(_), Err(_)) => true,
                    _ => false,
                };
                if !same {
                    cx.violation(&format!("C18/channels-differ/{jk}"), format!("{jk} at nesting level {n} / include depth {depth}: {:?} vs the _to variant {:?} writing {:?}", a.as_ref().map(|s| clip(s, 120)), b, clip(&String::from_utf8_lossy(&w.accepted), 120)), replay);
                }
            }
        }
    }
}

/// the same variable names as the base context, other values (and one more variable)
fn second_context() -> Context {
    let mut ctx2 = Context::new();
    ctx2.insert("s1", "Other <text> & more");
    ctx2.insert("s2", "deux");
    ctx2.insert("n1", &8);
    ctx2.insert("n2", &5);
    ctx2.insert("f1", &0.25);
    ctx2.insert("b1", &false);
    ctx2.insert("b0", &true);
    ctx2.insert("xs", &vec!["q<", "r"]);
    ctx2.insert("ns", &vec![9, 8]);
    ctx2.insert("empty", &vec![0]);
    ctx2.insert("a", "B<arg>");
    ctx2.insert("n", &2);
    ctx2.insert("extra", "only in the second context");
    ctx2
}

pub fn run(cx: &mut Cx) {
    let total = cx.total(1000, 100_000);
    let vars = base_context();
    for case in cx.my_cases(total) {
        if case < 32 {
            limits_case(cx, case);
            continue;
        }
        cx.begin_case(case, "program");
        let mut rng = cx.rng(case);
        let mut program = {
            let mut g = PGen::new(&mut rng);
            g.program()
        };
        // partials that name no ordinary variable and still depend on the context (the dump variable, a registered filter
        // reading the State), next to one that really is static; an entry including all three
        program.templates.push(("cf/dump.html".into(), "[{% for k, v in __tera_context %}{{ k }}={{ v }};{% endfor %}]".into()));
        program.templates.push(("cf/state.html".into(), "({{ 1 | plus_n1 }})".into()));
        program.templates.push(("cf/static.html".into(), "static <text>".into()));
        program.templates.push(("cf/page.html".into(), "{% include \"cf/dump.html\" %}|{% include \"cf/state.html\" %}|{% include \"cf/static.html\" %}|{{ s1 }}{% for i in [1, 2] %}{% include \"cf/state.html\" %}{% endfor %}".into()));
        program.entries.push("cf/page.html".into());
        let tera = match guard(|| build_engine(&program)) {
            Ok(Ok(t)) => t,
            Ok(Err(e)) => {
                cx.count("programs_rejected", 1);
                if std::env::var("TVH_DEBUG_ERRS").is_ok() {
                    let first = e.lines().next().unwrap_or("").to_string();
                    cx.count(&format!("rej:{}", clip(&first, 90)), 1);
                }
                cx.sample_tagged("rejected", || json!({"rejected_program": program.templates, "error": e}));
                continue;
            }
            Err(p) => {
                cx.violation(&format!("C18/panic/{}", panic_site(&p)), format!("registration panicked: {p}"), json!({"templates": program.templates}));
                continue;
            }
        };
        cx.count("programs", 1);
        let mut ctx = context_of(&vars);
        // component renders through the API need the component's own parameters
        ctx.insert("a", "A<arg>");
        ctx.insert("n", &3);
        let ctx_before = format!("{ctx:?}");
        let digest_before = tera.verif_digest();
        let jobs = jobs_of(&program, &mut rng);
        let mut reference: Vec<Result<Vec<u8>, String>> = Vec::new();
        for job in &jobs {
            let replay = json!({"templates": program.templates, "job": format!("{job:?}")});
            // ---- (1) channel differential + repetition
            let r = guard(|| {
                let a = run_job(&tera, &ctx, job);
                let mut w = FaultyWriter::counting();
                let b = run_job_to(&tera, &ctx, job, &mut w);
                let a2 = run_job(&tera, &ctx, job);
                (a.map_err(|e| e.to_string()), b.map_err(|e| e.to_string()), w, a2.map_err(|e| e.to_string()))
            });
            cx.evals(3);
            let (a, b, w, a2) = match r {
                Ok(x) => x,
                Err(p) => {
                    cx.violation(&format!("C18/panic/{}", panic_site(&p)), format!("render panicked on {job:?}: {p}"), replay);
                    reference.push(Err("panic".into()));
                    continue;
                }
            };
            let jk = match job {
                Job::Template(_) => "render",
                Job::Block(..) => "render_block",
                Job::Component(..) => "render_component",
                Job::OneOff(..) => "render_str",
            };
            cx.cell(format!("channel|{jk}|{}", if a.is_ok() { "ok" } else { "err" }));
            match (&a, &b) {
                (Ok(s), Ok(())) => {
                    if s.as_bytes() != w.accepted.as_slice() {
                        cx.violation(&format!("C18/channels-differ/{jk}"), format!("{jk} returned {:?} but the _to variant wrote {:?}", clip(s, 300), clip(&String::from_utf8_lossy(&w.accepted), 300)), replay.clone());
                    }
                    cx.count("channel_pairs_compared", 1);
                }
                (Err(e), Err(_)) => {
                    cx.count("channel_pairs_both_err", 1);
                    if std::env::var("TVH_DEBUG_ERRS").is_ok() {
                        let first = e.lines().next().unwrap_or("").to_string();
                        cx.count(&format!("err:{}", clip(&first, 70)), 1);
                    }
                }
                _ => cx.violation(&format!("C18/channels-differ/{jk}"), format!("{jk}: one channel failed, the other did not: {:?} vs {:?}", a.as_ref().map(|s| clip(s, 100)), b), replay.clone()),
            }
            if a != a2 {
                cx.violation(&format!("C18/render-not-repeatable/{jk}"), format!("{jk}: repeating the render changed the result: {:?} then {:?}", a.as_ref().map(|s| clip(s, 200)), a2.as_ref().map(|s| clip(s, 200))), replay.clone());
            }
            reference.push(a.clone().map(|s| s.into_bytes()));
            // ---- (2) fault enumeration
            let Ok(full) = a else { continue };
            let full = full.into_bytes();
            let (ncalls, nbytes) = (w.calls, full.len());
            cx.max("max:write_calls_in_one_render", ncalls as u64);
            let mut points: Vec<(Option<usize>, Option<usize>)> = (0..ncalls.min(160)).map(|k| (Some(k), None)).collect();
            let mut offs: Vec<usize> = vec![0, 1, nbytes / 2, nbytes.saturating_sub(1)];
            offs.extend((0..nbytes).step_by(7).take(60));
            offs.sort();
            offs.dedup();
            points.extend(offs.into_iter().filter(|o| *o < nbytes).map(|o| (None, Some(o))));
            for (pi, (call, byte)) in points.iter().enumerate() {
                let kind = [FailKind::Other, FailKind::WriteZero, FailKind::InterruptedThenError, FailKind::BrokenPipe][(pi + case as usize) % 4];
                let short = pi % 5 == 0;
                let mut fw = FaultyWriter { fail_at_call: *call, fail_at_byte: *byte, kind, max_chunk: if short { 1 + pi % 3 } else { usize::MAX }, ..FaultyWriter::counting() };
                let r = guard(|| run_job_to(&tera, &ctx, job, &mut fw).map_err(|e| (format!("{:?}", e.kind()), matches!(e.kind(), ErrorKind::Io(_)), e.to_string())));
                cx.eval();
                cx.count("failure_points_injected", 1);
                let site = if call.is_some() { "call" } else { "byte" };
                cx.cell(format!("fault|{jk}|{site}|{kind:?}|{}", if short { "short-writes" } else { "full-writes" }));
                let freplay = json!({"templates": program.templates, "job": format!("{job:?}"), "fail_at_call": call, "fail_at_byte": byte, "kind": format!("{kind:?}"), "short_writes": short});
                match r {
                    Err(p) => cx.violation(&format!("C18/panic-on-write-failure/{}", panic_site(&p)), format!("{jk} panicked when the writer failed at {site} {:?}: {p}", call.or(*byte)), freplay),
                    Ok(Ok(())) => {
                        // the failure point may not have been reached only if the writer never failed
                        if fw.failed || fw.accepted != full {
                            cx.violation(&format!("C18/write-failure-swallowed/{jk}"), format!("{jk} returned Ok although the writer failed ({kind:?}) at {site} {:?}; accepted {} of {} bytes", call.or(*byte), fw.accepted.len(), nbytes), freplay);
                        }
                    }
                    Ok(Err((kind_dbg, is_io, _msg))) => {
                        if !is_io {
                            cx.violation(&format!("C18/write-failure-not-an-io-error/{jk}"), format!("{jk}: writer failure ({kind:?}) at {site} {:?} surfaced as {}", call.or(*byte), clip(&kind_dbg, 120)), freplay.clone());
                        }
                        if !full.starts_with(&fw.accepted) {
                            cx.violation(&format!("C18/accepted-bytes-not-a-prefix/{jk}"), format!("{jk}: after a failure at {site} {:?} the writer holds {:?}, not a prefix of {:?}", call.or(*byte), clip(&String::from_utf8_lossy(&fw.accepted), 200), clip(&String::from_utf8_lossy(&full), 200)), freplay.clone());
                        }
                        if fw.writes_after_failure > 0 {
                            cx.count("writes_attempted_after_failure", fw.writes_after_failure as u64);
                        }
                    }
                }
            }
            // short writes alone (no failure) must give the same bytes
            for chunk in [1usize, 2, 5] {
                let mut fw = FaultyWriter { max_chunk: chunk, ..FaultyWriter::counting() };
                let r = guard(|| run_job_to(&tera, &ctx, job, &mut fw).is_ok());
                cx.eval();
                if r != Ok(true) || fw.accepted != full {
                    cx.violation(&format!("C18/short-writes-change-output/{jk}"), format!("{jk} with a writer accepting {chunk} byte(s) per call: {r:?}, {} of {} bytes", fw.accepted.len(), nbytes), replay.clone());
                }
            }
        }
        // ---- (2b) a registered template included from a one-off string renders what rendering it directly gives
        // (what `__tera_context` lists inside an included template is not specified — it leaves out the global context
        // today — so programs that use the dump are left out of this comparison)
        let uses_dump = program.templates.iter().any(|(n, s)| !n.starts_with("cf/") && s.contains("__tera_context"));
        for e in program.entries.iter().take(if uses_dump { 0 } else { 2 }) {
            let r = guard(|| (tera.render(e, &ctx).map_err(|x| x.to_string()), tera.render_str(&format!("{{% include \"{e}\" %}}"), &ctx, true).map_err(|x| x.to_string())));
            cx.evals(2);
            match r {
                Ok((a, b)) => {
                    cx.count("includes_from_one_off_strings_compared", 1);
                    let same = match (&a, &b) {
                        (Ok(x), Ok(y)) => x == y,
                        (Err(_), Err(_)) => true,
                        _ => false,
                    };
                    if !same && std::env::var("TVH_TRACE").is_ok() && !std::path::Path::new("/tmp/c18_a.txt").exists() {
                        let _ = std::fs::write("/tmp/c18_a.txt", format!("{a:?}"));
                        let _ = std::fs::write("/tmp/c18_b.txt", format!("{b:?}"));
                    }
                    if !same {
                        cx.violation("C18/include-from-render_str-differs-from-render", format!("render({e}) gave {:?}, render_str with an include of it {:?}", a.as_ref().map(|s| clip(s, 200)), b.as_ref().map(|s| clip(s, 200))), json!({"templates": program.templates, "entry": e}));
                    }
                }
                Err(p) => cx.violation(&format!("C18/panic/{}", panic_site(&p)), format!("include of {e} from a one-off string panicked: {p}"), json!({"templates": program.templates})),
            }
        }
        // ---- (2c) a render is a function of the templates and the context it is given, not of the renders before it: the
        // same jobs with a second context (same variable names, other values) on this engine, which has rendered them all
        // with the first one, give what an engine that has never rendered anything gives; and the first context again gives
        // the reference
        if case % 2 == 1 {
            let ctx2 = second_context();
            if let Ok(Ok(fresh)) = guard(|| build_engine(&program)) {
                for (k, job) in jobs.iter().enumerate() {
                    let r = guard(|| {
                        let b = run_job(&tera, &ctx2, job).map_err(|e| e.to_string());
                        let bf = run_job(&fresh, &ctx2, job).map_err(|e| e.to_string());
                        let a3 = run_job(&tera, &ctx, job).map(|s| s.into_bytes()).map_err(|e| e.to_string());
                        (b, bf, a3)
                    });
                    cx.evals(3);
                    let Ok((b, bf, a3)) = r else {
                        cx.violation("C18/panic/second-context", format!("render panicked on {job:?} with a second context"), json!({"templates": program.templates, "job": format!("{job:?}")}));
                        continue;
                    };
                    cx.count("context_alternations_compared", 1);
                    let same = |x: &Result<String, String>, y: &Result<String, String>| match (x, y) {
                        (Ok(a), Ok(b)) => a == b,
                        (Err(_), Err(_)) => true,
                        _ => false,
                    };
                    if !same(&b, &bf) {
                        cx.violation("C18/render-depends-on-earlier-renders", format!("{job:?} with a second context gave {:?} on the engine that had rendered it with the first one, {:?} on a new engine", b.as_ref().map(|s| clip(s, 200)), bf.as_ref().map(|s| clip(s, 200))), json!({"templates": program.templates, "job": format!("{job:?}")}));
                    }
                    let back = match (&a3, &reference[k]) {
                        (Ok(a), Ok(b)) => a == b,
                        (Err(_), Err(_)) => true,
                        _ => false,
                    };
                    if !back {
                        cx.violation("C18/render-depends-on-earlier-renders", format!("{job:?} with the first context again, after a render with another one, gave {:?}, at first {:?}", a3.as_ref().map(|b| clip(&String::from_utf8_lossy(b), 200)), reference[k].as_ref().map(|b| clip(&String::from_utf8_lossy(b), 200))), json!({"templates": program.templates, "job": format!("{job:?}")}));
                    }
                }
            }
        }
        // ---- (3) purity
        if tera.verif_digest() != digest_before {
            cx.violation("C18/engine-modified-by-render", "the derived-state digest of the engine changed while rendering".into(), json!({"templates": program.templates}));
        }
        if format!("{ctx:?}") != ctx_before {
            cx.violation("C18/context-modified-by-render", "the context changed while rendering".into(), json!({"templates": program.templates}));
        }
        cx.count("purity_checks", 1);
        // ---- (4) concurrency: a fresh engine (so that lazily initialised state is first touched concurrently)
        if case % 4 == 0 {
            let threads = [2usize, 4, 8, 16][(case / 4 % 4) as usize];
            let Ok(Ok(fresh)) = guard(|| build_engine(&program)) else { continue };
            // half of the renders use the second context: its sequential reference comes from another new engine
            let ctx2 = second_context();
            let Ok(Ok(fresh2)) = guard(|| build_engine(&program)) else { continue };
            let Ok(reference2) = guard(|| jobs.iter().map(|j| run_job(&fresh2, &ctx2, j).map(|s| s.into_bytes()).map_err(|e| e.to_string())).collect::<Vec<_>>()) else { continue };
            let shared = Arc::new(fresh);
            let sctx = Arc::new([ctx.clone(), ctx2]);
            let sjobs = Arc::new(jobs.clone());
            let barrier = Arc::new(Barrier::new(threads));
            let rounds = 3;
            let handles: Vec<_> = (0..threads)
                .map(|ti| {
                    let (t, c, j, b) = (shared.clone(), sctx.clone(), sjobs.clone(), barrier.clone());
                    let seed = case * 131 + ti as u64;
                    std::thread::spawn(move || {
                        let mut order: Vec<usize> = (0..j.len()).collect();
                        let mut r = Rng::new(seed);
                        b.wait();
                        let mut outs = Vec::new();
                        for round in 0..rounds {
                            r.shuffle(&mut order);
                            for k in &order {
                                let which = (ti + round + *k) % 2;
                                let o = std::panic::catch_unwind(std::panic::AssertUnwindSafe(|| run_job(&t, &c[which], &j[*k]).map(|s| s.into_bytes()).map_err(|e| e.to_string())));
                                outs.push((*k, which, o.unwrap_or_else(|_| Err("panic".into()))));
                            }
                        }
                        outs
                    })
                })
                .collect();
            let mut mismatches = 0;
            let mut n = 0u64;
            for h in handles {
                match h.join() {
                    Ok(outs) => {
                        for (k, which, o) in outs {
                            n += 1;
                            let refs = if which == 0 { &reference } else { &reference2 };
                            let same = match (&o, &refs[k]) {
                                (Ok(a), Ok(b)) => a == b,
                                (Err(_), Err(_)) => true,
                                _ => false,
                            };
                            if !same {
                                mismatches += 1;
                                if mismatches <= 2 {
                                    cx.violation("C18/concurrent-render-differs-from-sequential", format!("job {:?} on {threads} threads (two contexts in turn, this render with the {}) gave {:?}, sequentially on a new engine {:?}", jobs[k], if which == 0 { "first" } else { "second" }, o.as_ref().map(|b| clip(&String::from_utf8_lossy(b), 200)), refs[k].as_ref().map(|b| clip(&String::from_utf8_lossy(b), 200))), json!({"templates": program.templates, "threads": threads}));
                                }
                            }
                        }
                    }
                    Err(_) => cx.violation("C18/thread-panicked", format!("a render thread panicked ({threads} threads)"), json!({"templates": program.templates})),
                }
            }
            cx.evals(n);
            cx.count("concurrent_renders_compared", n);
            cx.count("concurrent_rounds", 1);
            cx.cell(format!("threads|{threads}"));
        }
        let p2 = program.templates.clone();
        cx.sample(|| json!({"templates": p2, "jobs": jobs.len()}));
    }
}

/// `Send + Sync` for the public types is a compile-time fact: a regression here is a build error of the harness,
/// attributable to C18 (bin/check reports an inconclusive build, the compiler message names this function).
#[allow(dead_code)]
fn assert_send_sync() {
    fn ok<T: Send + Sync>() {}
    ok::<Tera>();
    ok::<Context>();
    ok::<tera::Value>();
    ok::<tera::value::Key<'static>>();
    ok::<tera::Kwargs>();
    ok::<tera::Error>();
    ok::<tera::Number>();
}
