//! C05 — components: arguments checked and bound, scope isolated, recursion bounded.
//! (1) binder model vs the engine's own `{{ __tera_context }}` dump placed first in every generated component body;
//! (2) accept/reject agreement for missing/unknown/mistyped arguments; (3) API-vs-template differential;
//! (4) escaping of results and bodies; (5) priority by fallback prefix; (6) recursion without base case must be an error.
use crate::core::*;
use serde_json::json;
use std::collections::BTreeMap;
use tera::{value::Map, Context, Tera, Value};

#[derive(Clone, Debug, PartialEq)]
enum V {
    I(i64),
    F(f64),
    S(String),
    B(bool),
    N,
    A(Vec<V>),
    M(Vec<(String, V)>),
}
impl V {
    fn kind(&self) -> &'static str {
        match self {
            V::I(_) => "integer",
            V::F(_) => "float",
            V::S(_) => "string",
            V::B(_) => "bool",
            V::N => "none",
            V::A(_) => "array",
            V::M(_) => "map",
        }
    }
    fn lit(&self) -> String {
        match self {
            V::I(i) => i.to_string(),
            V::F(f) => format!("{f:?}"),
            V::S(s) => format!("\"{}\"", s.replace('\\', "\\\\").replace('"', "\\\"")),
            V::B(b) => b.to_string(),
            V::N => "none".into(),
            V::A(a) => format!("[{}]", a.iter().map(|x| x.lit()).collect::<Vec<_>>().join(", ")),
            // a map literal inside the `name={..}` braces must not form `{{` / `}}`
            V::M(m) => format!("{{{} }}", m.iter().map(|(k, v)| format!("\"{k}\": {}", v.lit())).collect::<Vec<_>>().join(", ")),
        }
    }
    fn show_in(&self) -> String {
        match self {
            V::S(s) => format!("{s:?}"),
            V::N => String::new(),
            V::A(a) => format!("[{}]", a.iter().map(|x| x.show_in()).collect::<Vec<_>>().join(", ")),
            V::M(m) => {
                let mut m = m.clone();
                m.sort_by(|a, b| a.0.cmp(&b.0));
                format!("{{{}}}", m.iter().map(|(k, v)| format!("{k:?}: {}", v.show_in())).collect::<Vec<_>>().join(", "))
            }
            V::I(i) => i.to_string(),
            V::F(f) => format!("{f:?}"),
            V::B(b) => b.to_string(),
        }
    }
    fn to_tera(&self) -> Value {
        match self {
            V::I(i) => Value::from(*i),
            V::F(f) => Value::from(*f),
            V::S(s) => Value::from(s.as_str()),
            V::B(b) => Value::from(*b),
            V::N => Value::none(),
            V::A(a) => Value::from(a.iter().map(|x| x.to_tera()).collect::<Vec<_>>()),
            V::M(m) => {
                let mut o = Map::new();
                for (k, v) in m {
                    o.insert(k.clone().into(), v.to_tera());
                }
                Value::from(o)
            }
        }
    }
}

fn val(r: &mut Rng) -> V {
    match r.below(9) {
        0 => V::I(r.below(5) as i64 - 2),
        // whole floats too: `2.0` is a float, not an integer, whatever its value
        1 => V::F(*r.pick(&[1.5, 2.0, 0.0, 7.0, -3.0])),
        2 => V::S(r.pick(&["s", "", "é<", "x y", "q\"t", "b\\s"]).to_string()),
        3 => V::B(r.bool()),
        4 => V::N,
        5 => V::A(vec![V::I(1), V::S("a".into())]),
        6 => V::M(vec![("k".into(), V::I(1))]),
        7 => V::I(i64::MAX),
        _ => V::I(7),
    }
}

/// negative numbers are not accepted as parameter defaults (generator exclusion)
fn default_val(r: &mut Rng) -> V {
    loop {
        let v = val(r);
        if !matches!(v, V::I(i) if i < 0) && !matches!(v, V::F(f) if f < 0.0) {
            return v;
        }
    }
}

fn matches_type(t: &str, v: &V) -> bool {
    match t {
        "string" => matches!(v, V::S(_)),
        "bool" => matches!(v, V::B(_)),
        "integer" => matches!(v, V::I(_)),
        "float" => matches!(v, V::F(_)),
        "number" => matches!(v, V::I(_) | V::F(_)),
        "array" => matches!(v, V::A(_)),
        "map" => matches!(v, V::M(_)),
        _ => true,
    }
}

struct Param {
    name: String,
    typ: Option<&'static str>,
    default: Option<V>,
}

const PNAMES: [&str; 5] = ["pa", "pb", "pc", "pd", "pe"];
const TYPES: [&str; 7] = ["string", "bool", "integer", "float", "number", "array", "map"];

fn binder_case(cx: &mut Cx, r: &mut Rng) {
    let np = r.below(6);
    let params: Vec<Param> = (0..np).map(|i| Param { name: PNAMES[i].into(), typ: if r.bool() { Some(TYPES[r.below(7)]) } else { None }, default: if r.bool() { Some(default_val(r)) } else { None } }).collect();
    // a typed parameter whose default does not match its own type is a definition problem: not generated
    let params: Vec<Param> = params.into_iter().map(|mut p| {
        if let (Some(t), Some(d)) = (p.typ, &p.default) {
            if !matches_type(t, d) {
                p.default = None;
            }
        }
        p
    }).collect();
    let rest = r.bool();
    let sig = params
        .iter()
        .map(|p| format!("{}{}{}", p.name, p.typ.map(|t| format!(": {t}")).unwrap_or_default(), p.default.as_ref().map(|d| format!(" = {}", d.lit())).unwrap_or_default()))
        .chain(rest.then(|| "...others".to_string()))
        .collect::<Vec<_>>()
        .join(", ");
    let comp = format!("{{% component cmp({sig}) %}}{{{{ __tera_context }}}}|{{{{ body | default(value=\"nobody\") }}}}{{% endcomponent %}}");
    // call: a subset of the parameters + maybe unknown arguments; values come as literals, caller variables
    // (shorthand), or through a spread
    let mut supplied: Vec<(String, V, u8)> = vec![];
    for p in &params {
        let required = p.default.is_none();
        if (required && r.chance(9, 10)) || (!required && r.bool()) {
            // mostly a value of the declared / inferred type, sometimes any value
            let t = p.typ.or(p.default.as_ref().and_then(|d| match d.kind() {
                "none" => None,
                k => Some(k),
            }));
            let mut v = val(r);
            if let Some(t) = t {
                if r.chance(5, 6) {
                    for _ in 0..40 {
                        if matches_type(t, &v) {
                            break;
                        }
                        v = val(r);
                    }
                }
            }
            supplied.push((p.name.clone(), v, r.below(4) as u8));
        }
    }
    for extra in ["xa", "xb"] {
        if r.chance(1, if rest { 3 } else { 10 }) {
            supplied.push((extra.into(), val(r), r.below(4) as u8));
        }
    }
    let with_body = r.chance(1, 3);
    let mut ctxm: Vec<(String, V)> = vec![("decoy".into(), V::S("D".into()))];
    let mut attrs = vec![];
    let mut spread: Vec<(String, V)> = vec![];
    for (name, v, how) in &supplied {
        match how {
            0 => {
                ctxm.push((name.clone(), v.clone()));
                attrs.push(name.clone());
            }
            1 => spread.push((name.clone(), v.clone())),
            2 if matches!(v, V::S(_)) => attrs.push(format!("{name}={}", v.lit())),
            // a map literal inside the `name={..}` braces must not form `{{` / `}}`
            _ => attrs.push(format!("{name}={{ {} }}", v.lit())),
        }
    }
    if !spread.is_empty() {
        ctxm.push(("sp".into(), V::M(spread.clone())));
        attrs.push("{...sp}".into());
    }
    let call_core = if with_body { format!("{{% <cmp {}> %}}B{{{{ decoy }}}}{{% </cmp> %}}", attrs.join(" ")) } else { format!("{{{{ <cmp {} /> }}}}", attrs.join(" ")) };
    // the call site: top level, inside a loop, a block, an include, another component's body, a capture
    let site = r.below(6);
    let (call, extra_tpls): (String, Vec<(String, String)>) = match site {
        0 => (call_core.clone(), vec![]),
        1 => (format!("{{% for i in [1] %}}{call_core}{{% endfor %}}"), vec![]),
        2 => (format!("{{% block bl %}}{call_core}{{% endblock %}}"), vec![]),
        3 => ("{% include \"inc\" %}".to_string(), vec![("inc".to_string(), call_core.clone())]),
        4 => (format!("{{% set cap %}}{call_core}{{% endset %}}{{{{ cap }}}}"), vec![]),
        _ => (format!("{{% <wrap> %}}{call_core}{{% </wrap> %}}"), vec![("w".to_string(), "{% component wrap() %}{{ body }}{% endcomponent %}".to_string())]),
    };
    let site_name = ["top", "loop", "block", "include", "capture", "component-body"][site];
    // ---- model of the binding rules
    let mut bound: BTreeMap<String, V> = BTreeMap::new();
    let mut others: Vec<(String, V)> = vec![];
    let mut reject: Option<&str> = None;
    for (name, v, _) in &supplied {
        if !params.iter().any(|p| p.name == *name) {
            if rest {
                others.push((name.clone(), v.clone()));
            } else {
                reject = Some("unknown-argument");
            }
        }
    }
    for p in &params {
        match supplied.iter().find(|(n, _, _)| *n == p.name) {
            Some((_, v, _)) => {
                // declared type, else the type inferred from the default value
                let t = p.typ.or(p.default.as_ref().and_then(|d| match d.kind() {
                    "none" => None,
                    k => Some(k),
                }));
                if let Some(t) = t {
                    if !matches_type(t, v) {
                        reject = reject.or(Some("type-mismatch"));
                    }
                }
                bound.insert(p.name.clone(), v.clone());
            }
            None => match &p.default {
                Some(d) => {
                    bound.insert(p.name.clone(), d.clone());
                }
                None => reject = reject.or(Some("missing-required")),
            },
        }
    }
    if rest {
        bound.insert("others".into(), V::M(others));
    }
    if with_body {
        bound.insert("body".into(), V::S("BD".into()));
    }
    let expected = format!("{{{}}}|{}", bound.iter().map(|(k, v)| format!("{k:?}: {}", v.show_in())).collect::<Vec<_>>().join(", "), if with_body { "BD" } else { "nobody" });
    let mut tpls = vec![("c".to_string(), comp.clone()), ("t".to_string(), call.clone())];
    tpls.extend(extra_tpls);
    let replay = json!({"templates": tpls, "context": format!("{ctxm:?}"), "model_rejects": reject});
    cx.eval();
    let built = guard(|| {
        let mut t = Tera::default();
        t.autoescape_on(Vec::<&'static str>::new());
        t.global_context().insert("gdecoy", "G");
        t.add_raw_templates(tpls.clone()).map(|_| t).map_err(|e| e.to_string())
    });
    let t = match built {
        Ok(Ok(t)) => t,
        Ok(Err(e)) => {
            cx.violation("C05/valid-component-program-rejected", format!("registration failed: {}", clip(&e, 300)), replay);
            return;
        }
        Err(p) => {
            cx.violation(&format!("C05/panic/{}", panic_site(&p)), format!("registration panicked: {p}"), replay);
            return;
        }
    };
    let mut ctx = Context::new();
    for (k, v) in &ctxm {
        ctx.insert_value(k.clone(), v.to_tera());
    }
    let got = match guard(|| t.render("t", &ctx).map_err(|e| e.to_string())) {
        Ok(g) => g,
        Err(p) => {
            cx.violation(&format!("C05/panic/{}", panic_site(&p)), format!("render panicked: {p}"), replay);
            return;
        }
    };
    let shape = format!("params{np}|{}|{}|{}", if rest { "rest" } else { "closed" }, if with_body { "body" } else { "inline" }, site_name);
    cx.cell(format!("bind|{shape}|{}", reject.unwrap_or("bound")));
    match (&got, reject) {
        (Ok(o), None) if *o == expected => cx.count("context_dumps_compared", 1),
        (Err(_), Some(_)) => cx.count("rejections_agree", 1),
        (Ok(o), None) => cx.violation("C05/bound-context-differs", format!("inside the component `__tera_context`|body rendered {:?}, the binding rules give {:?}", clip(o, 400), clip(&expected, 400)), replay.clone()),
        (Ok(o), Some(why)) => cx.violation(&format!("C05/call-accepted-despite-{why}"), format!("the call rendered {:?} although the rules reject it ({why})", clip(o, 300)), replay.clone()),
        (Err(e), None) => cx.violation("C05/valid-call-rejected", format!("the call failed: {}; expected {:?}", clip(e, 300), clip(&expected, 200)), replay.clone()),
    }
    // ---- the same call from a one-off string: registered components are callable from render_str just the same
    if site == 0 {
        cx.eval();
        match guard(|| t.render_str(&call, &ctx, false).map_err(|e| e.to_string())) {
            Ok(rs) => {
                cx.count("render_str_calls_compared", 1);
                let same = match (&rs, &got) {
                    (Ok(a), Ok(b)) => a == b,
                    (Err(_), Err(_)) => true,
                    _ => false,
                };
                if !same {
                    cx.violation("C05/render_str-differs-from-registered-template", format!("the call rendered through render_str gave {:?}, as a registered template {:?}", rs.as_ref().map(|s| clip(s, 200)), got.as_ref().map(|s| clip(s, 200))), replay.clone());
                }
            }
            Err(p) => cx.violation(&format!("C05/panic/{}", panic_site(&p)), format!("render_str panicked: {p}"), replay.clone()),
        }
    }
    // ---- API equivalence: render_component(name, ctx, body, flag) == the equivalent call from a template
    if site == 0 {
        let mut actx = Context::new();
        for (k, v, _) in &supplied {
            actx.insert_value(k.clone(), v.to_tera());
        }
        let body = if with_body { Some("BD") } else { None };
        let a = guard(|| t.render_component("cmp", &actx, body, false).map_err(|e| e.to_string()));
        cx.eval();
        cx.count("api_template_pairs", 1);
        match a {
            Ok(a) => {
                let same = match (&a, &got) {
                    (Ok(x), Ok(y)) => x == y,
                    (Err(_), Err(_)) => true,
                    _ => false,
                };
                if !same {
                    cx.violation("C05/api-differs-from-template-call", format!("render_component gave {:?}, the equivalent template call {:?}", a.as_ref().map(|s| clip(s, 200)), got.as_ref().map(|s| clip(s, 200))), replay.clone());
                }
            }
            Err(p) => cx.violation(&format!("C05/panic/{}", panic_site(&p)), format!("render_component panicked: {p}"), replay.clone()),
        }
    }
    let c2 = comp.clone();
    cx.sample(|| json!({"component": c2, "call": call, "expected": clip(&expected, 200), "model_rejects": reject}));
}

fn escape_case(cx: &mut Cx, r: &mut Rng) {
    // result inserted without being escaped again; body rendered in the caller's scope and escaping mode
    let caller_escaped = r.bool();
    let comp_tpl_escaped = r.bool();
    let name = if caller_escaped { "t.html" } else { "t.txt" };
    let cname = if comp_tpl_escaped { "c.html" } else { "c.txt" };
    let with_body = r.bool();
    let call = if with_body { "{% <e a={x}> %}<b>{{ x }}{% </e> %}" } else { "{{ <e a={x} /> }}" };
    let tpls = vec![(cname.to_string(), "{% component e(a) %}[{{ a }}|{{ body | default(value=\"-\") }}]{% endcomponent %}".to_string()), (name.to_string(), call.to_string())];
    let mut ctx = Context::new();
    ctx.insert("x", "<x&>");
    // the component's own prints follow the escaping mode of the template that defines it; the body follows the
    // caller's; the result is never escaped again by the caller
    // which mode the component's own prints follow when caller and definer disagree is not stated by the property:
    // both are accepted there; the body part and the absence of a second escaping are always asserted
    let b = if !with_body { "-".to_string() } else if caller_escaped { "<b>&lt;x&amp;&gt;".to_string() } else { "<b><x&>".to_string() };
    let accepted: Vec<String> = if comp_tpl_escaped == caller_escaped {
        vec![format!("[{}|{b}]", if caller_escaped { "&lt;x&amp;&gt;" } else { "<x&>" })]
    } else {
        vec![format!("[&lt;x&amp;&gt;|{b}]"), format!("[<x&>|{b}]")]
    };
    let expected = accepted[0].clone();
    cx.eval();
    let r = guard(|| {
        let mut t = Tera::default();
        t.add_raw_templates(tpls.clone()).map_err(|e| e.to_string())?;
        t.render(name, &ctx).map_err(|e| e.to_string())
    });
    cx.cell(format!("escape|caller-{}|definer-{}|{}", caller_escaped, comp_tpl_escaped, if with_body { "body" } else { "inline" }));
    cx.count("escape_checks", 1);
    match r {
        Ok(Ok(o)) if accepted.contains(&o) => {}
        Ok(o) => cx.violation("C05/component-result-or-body-escaping", format!("caller autoescape={caller_escaped}, defining template autoescape={comp_tpl_escaped}: rendered {o:?}, expected {expected:?}"), json!({"templates": tpls})),
        Err(p) => cx.violation(&format!("C05/panic/{}", panic_site(&p)), format!("panicked: {p}"), json!({"templates": tpls})),
    }
}

fn priority_case(cx: &mut Cx, r: &mut Rng) {
    // the same component defined under several fallback prefixes: the highest-priority definition is used
    let nprefix = 1 + r.below(3);
    let prefixes: Vec<String> = (0..nprefix).map(|i| format!("p{i}/")).collect();
    let mut defs: Vec<(String, usize)> = Vec::new(); // (template name, priority)
    for (i, p) in prefixes.iter().enumerate() {
        if r.bool() {
            defs.push((format!("{p}c.html"), i + 1));
        }
    }
    if r.bool() {
        defs.push(("user.html".to_string(), 0));
    }
    let dup = r.chance(1, 6) && !defs.is_empty();
    if dup {
        let (n, pr) = defs[r.below(defs.len())].clone();
        let other = if pr == 0 { "user2.html".to_string() } else { n.replace("c.html", "d.html") };
        defs.push((other, pr));
    }
    // every defining template also calls the component itself, directly and through a second component defined next to
    // it: the call site must not influence which definition is chosen
    let mut tpls: Vec<(String, String)> = defs
        .iter()
        .enumerate()
        .map(|(i, (n, _))| (n.clone(), format!("{{% component X() %}}from {n}{{% endcomponent X %}}{{% component W{i}() %}}w{{{{ <X /> }}}}{{% endcomponent W{i} %}}[{{{{ <X /> }}}}|{{{{ <W{i} /> }}}}]")))
        .collect();
    r.shuffle(&mut tpls);
    tpls.push(("page.html".into(), "{{ <X /> }}".into()));
    let best = defs.iter().map(|d| d.1).min();
    let replay = json!({"fallback_prefixes": prefixes, "templates": tpls});
    cx.eval();
    let res = guard(|| {
        let mut t = Tera::default();
        t.set_fallback_prefixes(prefixes.clone()).map_err(|e| e.to_string())?;
        let batched = tpls.len() % 2 == 0;
        if batched {
            t.add_raw_templates(tpls.clone()).map_err(|e| e.to_string())?;
        } else {
            for (n, s) in &tpls {
                // one by one: the page comes last, definitions in shuffled order
                t.add_raw_template(n, s).map_err(|e| e.to_string())?;
            }
        }
        let api = t.render_component("X", &Context::new(), None, true).map_err(|e| e.to_string())?;
        let tpl = t.render("page.html", &Context::new()).map_err(|e| e.to_string())?;
        let mut from_definers = Vec::new();
        for (n, _) in &defs {
            from_definers.push((n.clone(), t.render(n, &Context::new()).map_err(|e| e.to_string())?));
        }
        Ok::<(String, String, Vec<(String, String)>), String>((api, tpl, from_definers))
    });
    cx.cell(format!("priority|prefixes{nprefix}|defs{}|{}", defs.len(), if dup { "duplicate" } else { "unique" }));
    cx.count("priority_checks", 1);
    match res {
        Err(p) => cx.violation(&format!("C05/panic/{}", panic_site(&p)), format!("panicked: {p}"), replay),
        Ok(Err(e)) => {
            if !(dup || defs.is_empty()) {
                cx.violation("C05/priority-set-rejected", format!("a set with distinct priorities was rejected: {}", clip(&e, 200)), replay);
            }
        }
        Ok(Ok((api, tpl, from_definers))) => {
            let dup_at_best = dup && best.map(|b| defs.iter().filter(|d| d.1 == b).count() > 1).unwrap_or(false);
            if dup_at_best {
                cx.violation("C05/duplicate-component-at-equal-priority-accepted", format!("two definitions at the winning priority were accepted; rendered {tpl:?}"), replay);
            } else if let Some(b) = best {
                // a duplicate shadowed by a higher-priority definition may be accepted or refused; the winner is fixed
                let winner = &defs.iter().find(|d| d.1 == b).unwrap().0;
                let exp = format!("from {winner}");
                if api != exp || tpl != exp {
                    cx.violation("C05/wrong-definition-chosen", format!("expected the definition of {winner}; the API rendered {api:?}, the template call {tpl:?}"), replay.clone());
                }
                for (n, out) in &from_definers {
                    let want = format!("[{exp}|w{exp}]");
                    if *out != want {
                        cx.violation("C05/wrong-definition-chosen/call-site-in-a-defining-template", format!("a call located in {n} (which defines the component at another priority) rendered {out:?}, expected {want:?}"), replay.clone());
                    }
                }
            }
        }
    }
}

/// A template included from inside a component body sees what the body sees (parameters, the body's own assignments and
/// loop variables) and nothing of the caller: not its context, assignments or loop variables, nor the global context —
/// however the component is reached (template call, call from an include, call inside a loop, the API).
fn isolation_through_include_case(cx: &mut Cx, r: &mut Rng) {
    let probe = "probe[{{ cv | default(value=\"hidden\") }}|{{ gv | default(value=\"hidden\") }}|{{ p | default(value=\"noarg\") }}|{{ local | default(value=\"nolocal\") }}|{{ lv | default(value=\"noloopvar\") }}|{{ cs | default(value=\"hidden\") }}|{{ inner | default(value=\"noinner\") }}]";
    let nested = r.bool();
    let comp = if nested {
        "{% component card(p) %}{% set local = 1 %}{% for inner in [7] %}{% include \"mid\" %}{% endfor %}{% endcomponent %}"
    } else {
        "{% component card(p) %}{% set local = 1 %}{% for inner in [7] %}{% include \"probe\" %}{% endfor %}{% endcomponent %}"
    };
    let site = r.below(4);
    let page = match site {
        0 => "{% set cs = 5 %}{{ <card p={\"arg\"} /> }}",
        1 => "{% set cs = 5 %}{% for lv in [1] %}{{ <card p={\"arg\"} /> }}{% endfor %}",
        2 => "{% set cs = 5 %}{% for lv in [1] %}{% include \"viainc\" %}{% endfor %}",
        _ => "{% set cs = 5 %}{% set cap %}{% for lv in [1] %}{{ <card p={\"arg\"} /> }}{% endfor %}{% endset %}{{ cap }}",
    };
    let tpls: Vec<(String, String)> = vec![("probe".into(), probe.into()), ("mid".into(), "{% include \"probe\" %}".into()), ("comps".into(), comp.into()), ("viainc".into(), "{{ <card p={\"arg\"} /> }}".into()), ("page".into(), page.into())];
    let expected = "probe[hidden|hidden|arg|1|noloopvar|hidden|7]";
    cx.eval();
    let res = guard(|| {
        let mut t = Tera::default();
        t.autoescape_on(Vec::<&'static str>::new());
        t.global_context().insert("gv", "GLOBAL");
        t.add_raw_templates(tpls.clone()).map_err(|e| format!("add: {e}"))?;
        let mut c = Context::new();
        c.insert("cv", "CALLER");
        let a = t.render("page", &c).map_err(|e| e.to_string())?;
        let mut k = Context::new();
        k.insert("p", "arg");
        let b = t.render_component("card", &k, None, false).map_err(|e| e.to_string())?;
        Ok::<_, String>((a, b))
    });
    cx.cell(format!("isolation-through-include|site{site}|{}", if nested { "nested-include" } else { "direct-include" }));
    cx.count("isolation_through_include_checks", 1);
    match res {
        Ok(Ok((a, b))) => {
            for (how, o) in [("template call", a), ("render_component", b)] {
                if o != expected {
                    cx.violation("C05/caller-or-global-visible-through-include-in-body", format!("{how}: the template included from the component body rendered {o:?}, isolation gives {expected:?}"), json!({"templates": tpls}));
                }
            }
        }
        Ok(Err(e)) => cx.violation("C05/isolation-program-fails", format!("{e}"), json!({"templates": tpls})),
        Err(p) => cx.violation(&format!("C05/panic/{}", panic_site(&p)), format!("{p}"), json!({"templates": tpls})),
    }
}

/// A call's result depends on that call's own arguments and body only: a template making several calls in a row — the same
/// component again and again with arguments that are equal but not identical (1 and 1.0, the same text once marked safe and
/// once not, the same value reached through different variables or representations), from a loop over such values, with and
/// without bodies — renders exactly the concatenation of what each call renders when it is the only one in its template,
/// and fails if any of them fails alone. Autoescaping is on, so a safe mark that travels (or fails to travel) with an
/// argument shows in the text.
fn sequence_case(cx: &mut Cx, r: &mut Rng) {
    const NS: &[&str] = &["1", "1.0", "2", "2.0", "i1", "f1", "u1", "w1", "\"1\"", "true", "[1]", "[1.0]", "[i1]", "{\"k\": 1}", "{\"k\": 1.0}", "i1 + 0", "f1 * 1"];
    const SS: &[&str] = &["raw", "raw | safe", "raw2", "\"<l>\"", "\"<l>\" | safe", "raw ~ \"\"", "raw2 | safe"];
    let typ = *r.pick(&["", ": integer", ": float", ": number", ": array", ": map", ""]);
    let comps = format!("{{% component sq(n{typ}, s = \"d\") %}}<{{% if n is integer %}}i{{% elif n is float %}}f{{% else %}}o{{% endif %}}{{{{ n }}}}|{{{{ s }}}}|{{{{ body | default(value=\"-\") }}}}>{{% endcomponent %}}{{% component sq2(n{typ}, s = \"d\") %}}<{{{{ n }}}}|{{{{ s }}}}|{{{{ body | default(value=\"-\") }}}}>{{% endcomponent %}}");
    let ncalls = 2 + r.below(4);
    // mostly a narrow pool, so that neighbours are equal-but-not-identical often
    let narrow_n: Vec<&str> = (0..2 + r.below(2)).map(|_| *r.pick(NS)).collect();
    let narrow_s: Vec<&str> = (0..2).map(|_| *r.pick(SS)).collect();
    let mut calls: Vec<String> = Vec::new();
    let in_loop = r.chance(1, 4);
    if in_loop {
        let s = *r.pick(&narrow_s);
        let cmp = if r.chance(1, 5) { "sq2" } else { "sq" };
        for i in 0..ncalls {
            calls.push(format!("{{{{ <{cmp} n={{xs[{i}]}} s={{{s}}} /> }}}}"));
        }
        let xs: Vec<&str> = (0..ncalls).map(|_| *r.pick(&narrow_n)).collect();
        let seq = format!("{{% for x in xs %}}{{{{ <{cmp} n={{x}} s={{{s}}} /> }}}}{{% endfor %}}");
        return sequence_check(cx, comps, calls, seq, format!("[{}]", xs.join(", ")), "loop");
    }
    for _ in 0..ncalls {
        let n = if r.chance(4, 5) { *r.pick(&narrow_n) } else { *r.pick(NS) };
        let s = if r.chance(4, 5) { *r.pick(&narrow_s) } else { *r.pick(SS) };
        let cmp = if r.chance(1, 6) { "sq2" } else { "sq" };
        calls.push(match r.below(4) {
            0 => format!("{{% <{cmp} n={{ {n} }} s={{ {s} }}> %}}B{{{{ {} }}}}{{% </{cmp}> %}}", *r.pick(&["raw", "raw | safe"])),
            1 => format!("{{{{ <{cmp} n={{ {n} }} /> }}}}"),
            _ => format!("{{{{ <{cmp} n={{ {n} }} s={{ {s} }} /> }}}}"),
        });
    }
    let seq = calls.concat();
    sequence_check(cx, comps, calls, seq, "[]".to_string(), "inline")
}

fn sequence_check(cx: &mut Cx, comps: String, calls: Vec<String>, seq: String, xs: String, shape: &str) {
    let pre = format!("{{% set xs = {xs} %}}");
    let mut tpls: Vec<(String, String)> = vec![("c.html".into(), comps), ("t.html".into(), format!("{pre}{seq}"))];
    for (i, c) in calls.iter().enumerate() {
        tpls.push((format!("k{i}.html"), format!("{pre}{c}")));
    }
    let replay = json!({"templates": tpls});
    cx.eval();
    let built = guard(|| {
        let mut t = Tera::default();
        t.add_raw_templates(tpls.clone()).map(|_| t).map_err(|e| e.to_string())
    });
    let t = match built {
        Ok(Ok(t)) => t,
        Ok(Err(e)) => {
            cx.violation("C05/valid-component-program-rejected/sequence", format!("registration failed: {}", clip(&e, 300)), replay);
            return;
        }
        Err(p) => {
            cx.violation(&format!("C05/panic/{}", panic_site(&p)), format!("registration panicked: {p}"), replay);
            return;
        }
    };
    let mut ctx = Context::new();
    ctx.insert("raw", "<r&>");
    ctx.insert("raw2", "<r&>");
    ctx.insert("i1", &1i64);
    ctx.insert("f1", &1.0f64);
    ctx.insert("u1", &1u64);
    ctx.insert("w1", &1i128);
    let mut alone: Vec<Result<String, String>> = Vec::new();
    for i in 0..calls.len() {
        cx.eval();
        match guard(|| t.render(&format!("k{i}.html"), &ctx).map_err(|e| e.to_string())) {
            Ok(x) => alone.push(x),
            Err(p) => {
                cx.violation(&format!("C05/panic/{}", panic_site(&p)), format!("render panicked: {p}"), replay);
                return;
            }
        }
    }
    cx.eval();
    let got = match guard(|| t.render("t.html", &ctx).map_err(|e| e.to_string())) {
        Ok(g) => g,
        Err(p) => {
            cx.violation(&format!("C05/panic/{}", panic_site(&p)), format!("render panicked: {p}"), replay);
            return;
        }
    };
    cx.count("call_sequences_compared", 1);
    let any_err = alone.iter().any(|a| a.is_err());
    cx.cell(format!("sequence|{shape}|calls{}|{}", calls.len(), if any_err { "one-fails" } else { "all-render" }));
    match (&got, any_err) {
        (Err(_), true) => {}
        (Ok(o), true) => cx.violation("C05/call-sequence/accepted-although-one-call-fails-alone", format!("the sequence rendered {:?} although a call in it fails when rendered alone: {:?}", clip(o, 300), alone), replay),
        (Err(e), false) => cx.violation("C05/call-sequence/fails-although-every-call-renders-alone", format!("the sequence failed: {}", clip(e, 300)), replay),
        (Ok(o), false) => {
            let exp: String = alone.iter().map(|a| a.clone().unwrap()).collect();
            if *o != exp {
                cx.violation("C05/call-sequence/differs-from-the-calls-rendered-alone", format!("the sequence rendered {:?}, the calls one by one {:?}", clip(o, 400), clip(&exp, 400)), replay);
            }
        }
    }
}

fn recursion_case(cx: &mut Cx, r: &mut Rng) {
    let shapes: [(&str, &str, bool); 7] = [
        ("self", "{% component r(n) %}{{ <r n={n + 1} /> }}{% endcomponent %}{{ <r n={0} /> }}", false),
        ("self-with-base-case", "{% component r(n) %}{{ n }}{% if n < 5 %}{{ <r n={n + 1} /> }}{% endif %}{% endcomponent %}{{ <r n={0} /> }}", true),
        ("mutual", "{% component a() %}{{ <b /> }}{% endcomponent %}{% component b() %}{{ <a /> }}{% endcomponent %}{{ <a /> }}", false),
        ("through-body", "{% component w() %}{{ body }}{% endcomponent %}{% component r() %}{% <w> %}{{ <r /> }}{% </w> %}{% endcomponent %}{{ <r /> }}", false),
        ("through-include", "{% component r() %}{% include \"inc\" %}{% endcomponent %}{{ <r /> }}", false),
        ("counter-to-15", "{% component r(n) %}{% if n < 15 %}{{ <r n={n + 1} /> }}{% else %}end{% endif %}{% endcomponent %}{{ <r n={0} /> }}", true),
        // 40 levels with a base case: beyond today's limit of 20, but the limit's value is the engine's business — either
        // the limit stops it, or it renders exactly what the recursion says
        ("counter-to-40", "{% component r(n) %}{% if n < 40 %}{{ <r n={n + 1} /> }}{% else %}end{% endif %}{% endcomponent %}{{ <r n={0} /> }}", true),
    ];
    let (name, src, terminates) = shapes[r.below(shapes.len())];
    let may_hit_limit = name == "counter-to-40";
    let tpls = vec![("t".to_string(), src.to_string()), ("inc".to_string(), "{{ <r /> }}".to_string())];
    cx.eval();
    let res = guard(|| {
        let mut t = Tera::default();
        t.add_raw_templates(tpls.clone()).map_err(|e| format!("add: {e}"))?;
        t.render("t", &Context::new()).map_err(|e| e.to_string())
    });
    cx.cell(format!("recursion|{name}"));
    cx.count("recursion_checks", 1);
    match res {
        Err(p) => cx.violation(&format!("C05/panic/{}", panic_site(&p)), format!("{name} panicked: {p}"), json!({"templates": tpls})),
        Ok(Ok(o)) => {
            if !terminates {
                cx.violation("C05/unbounded-recursion-rendered", format!("{name} rendered {:?} although the nesting limit must stop it", clip(&o, 100)), json!({"templates": tpls}));
            } else {
                let exp = match name {
                    "self-with-base-case" => "012345",
                    _ => "end",
                };
                if o != exp {
                    cx.violation("C05/bounded-recursion-wrong-output", format!("{name} rendered {o:?}, expected {exp:?}"), json!({"templates": tpls}));
                }
            }
        }
        Ok(Err(e)) => {
            if terminates && !may_hit_limit {
                cx.violation("C05/bounded-recursion-refused", format!("{name} (within the nesting limit) failed: {}", clip(&e, 200)), json!({"templates": tpls}));
            }
        }
    }
}

pub fn run(cx: &mut Cx) {
    let total = cx.total(400_000, 6_000_000);
    for case in cx.my_cases(total) {
        let mut r = cx.rng(case);
        match case % 20 {
            17 => {
                cx.begin_case(case, "escaping");
                escape_case(cx, &mut r);
            }
            18 => {
                cx.begin_case(case, "priority");
                priority_case(cx, &mut r);
            }
            19 => {
                cx.begin_case(case, "recursion");
                recursion_case(cx, &mut r);
            }
            15 | 14 => {
                cx.begin_case(case, "call-sequence");
                sequence_case(cx, &mut r);
            }
            16 => {
                cx.begin_case(case, "isolation-through-include");
                isolation_through_include_case(cx, &mut r);
            }
            _ => {
                cx.begin_case(case, "binder");
                binder_case(cx, &mut r);
            }
        }
    }
}
