//! C16 — collection filter contracts. Elements carry a unique id so that outputs identify their inputs:
//! permutation / order / stability / refusal for `sort`, first-representative partition for `unique`,
//! partition contract for `group_by`, algebraic identities for the element-access filters.
use crate::core::*;
use crate::model;
use crate::values::*;
use serde_json::json;
use std::cmp::Ordering;
use tera::{Context, Tera};

fn gen_key_value(rng: &mut Rng, mix: usize) -> V {
    match rng.below(mix) {
        0 => V::I64(rng.range(-2, 4)),
        // the same numbers in every width, among them the band 2^63..2^64 that only three of the four widths hold
        1 if rng.chance(1, 3) => {
            let x = *rng.pick(&[1u128 << 63, (1u128 << 63) + 1, u64::MAX as u128, i64::MAX as u128, 3]);
            match rng.below(3) {
                0 => V::U64(x as u64),
                1 => V::I128(x as i128),
                _ => V::U128(x),
            }
        }
        1 => V::U64(rng.below(4) as u64),
        2 => V::F64(rng.below(4) as f64 + if rng.bool() { 0.5 } else { 0.0 }),
        3 => V::I128(rng.range(-2, 4) as i128),
        4 => V::Str((*rng.pick(&["a", "b", "ab", "", "B", "é"])).to_string()),
        5 => V::None,
        6 => V::Bool(rng.bool()),
        7 => V::Arr(vec![V::I64(rng.below(3) as i64)]),
        8 => V::Arr(vec![V::Str((*rng.pick(&["x", "y"])).to_string())]),
        9 => V::Map(vec![(K::Str("q".into()), V::I64(rng.below(3) as i64))]),
        10 => V::F64(f64::NAN),
        11 => V::U128(*rng.pick(&[u128::MAX, 1, 3])),
        12 => V::Safe((*rng.pick(&["a", "b"])).to_string()),
        13 => V::Arr(vec![V::I64(1), V::Arr(vec![V::I64(rng.below(2) as i64)])]),
        14 => V::Bytes(vec![rng.below(3) as u8]),
        15 => V::F64(*rng.pick(&[f64::INFINITY, f64::NEG_INFINITY, -0.0, 1e300])),
        _ => prefix_array(rng),
    }
}

/// arrays sharing prefixes: whether two of them are comparable is decided at the first position where they differ, so
/// comparability is not transitive among them
fn prefix_array(rng: &mut Rng) -> V {
    let i = |x: i64| V::I64(x);
    let st = |x: &str| V::Str(x.to_string());
    V::Arr(
        rng.pick(&[
            vec![i(1), i(2)], vec![i(0)], vec![i(1), st("a")], vec![i(1)], vec![i(1), i(2), st("x")], vec![i(1), V::Arr(vec![i(2)])], vec![i(1), i(2), i(3)], vec![st("a")], vec![i(1), st("b")],
            vec![V::Arr(vec![i(1)]), i(2)], vec![V::Arr(vec![i(1)]), st("a")], vec![i(2)], vec![], vec![i(1), V::F64(2.5)], vec![i(1), V::Bool(true)], vec![i(0), st("z")],
        ])
        .clone(),
    )
}

/// whether the engine's documented classes make two keys comparable: numbers with numbers, strings with strings, bools
/// with bools, bytes with bytes, arrays element by element up to the first position that decides
fn comparable(a: &V, b: &V) -> bool {
    match (a, b) {
        (V::Arr(x), V::Arr(y)) => {
            for (p, q) in x.iter().zip(y) {
                if !comparable(p, q) {
                    return false;
                }
                if !model::eq(p, q) {
                    return true;
                }
            }
            true
        }
        (V::Bytes(_), V::Bytes(_)) => true,
        (V::None, V::None) => true,
        _ => model::scalar_cmp(a, b).is_some(),
    }
}

fn parse_ids(s: &str) -> Option<Vec<usize>> {
    s.split(',').filter(|x| !x.is_empty()).map(|x| x.parse().ok()).collect()
}

fn is_scalar_class(v: &V) -> bool {
    matches!(model::class(v), "num" | "str" | "bool")
}

pub fn run(cx: &mut Cx) {
    let mut tera = Tera::default();
    tera.add_raw_templates(vec![
        ("sort_attr", "{% for e in xs | sort(attribute='k') %}{{ e.id }},{% endfor %}"),
        ("sort_path", "{% for e in ys | sort(attribute='n.k') %}{{ e.id }},{% endfor %}"),
        ("sort_tuple", "{% for e in zs | sort(attribute='t.1') %}{{ e.id }},{% endfor %}"),
        ("sort_digitkeys", "{% for e in ws | sort(attribute='1st.2024_total.99999999999999999999999') %}{{ e.id }},{% endfor %}"),
        ("sort_plain", "{{ ks | sort }}"),
        ("uniq", "{{ ks | unique }}"),
        ("uniq_ids", "{% for e in xs | unique %}{{ e.id }},{% endfor %}"),
        ("grp", "{% for k, g in xs | group_by(attribute='k') %}{{ k }}=[{% for e in g %}{{ e.id }},{% endfor %}]\u{1}{% endfor %}"),
        ("grp_path", "{% for k, g in ys | group_by(attribute='n.k') %}{{ k }}=[{% for e in g %}{{ e.id }},{% endfor %}]\u{1}{% endfor %}"),
        ("grp_digitkeys", "{% for k, g in ws | group_by(attribute='1st.2024_total.99999999999999999999999') %}{{ k }}=[{% for e in g %}{{ e.id }},{% endfor %}]\u{1}{% endfor %}"),
        ("misc", "{{ ks | first == ks | nth(n=0) }}|{{ ks | last == ks | reverse | first }}|{{ ks | reverse | reverse == ks }}|{{ ks | length }}|{{ ks | reverse | length }}|{{ ks | first == ks[0] }}|{{ ks | last == ks[-1] }}"),
        ("nth", "{{ ks | nth(n=n) == ks[n] | default(value=none) }}|{{ ks | nth(n=n) is none }}"),
        ("join", "{{ ks | join(sep=sep) }}"),
        ("join_nosep", "{{ ks | join }}"),
        ("rev", "{{ ks | reverse }}"),
        ("revsb", "{{ s | reverse }}\u{1}{{ s | reverse | reverse == s }}"),
        ("splitjoin", "{{ s | split(pat=p) | join(sep=p) }}"),
        ("split", "{{ s | split(pat=p) | length }}"),
        ("mapf", "{{ m | keys | length }}|{{ m | values | length }}|{{ m | pairs | length }}|{{ m | length }}|{% for p in m | pairs %}{{ m[p[0]] == p[1] }},{% endfor %}|{% for k in m | keys %}{{ k in m }},{% endfor %}"),
        ("mapsorted", "{{ m | keys | sort }}|{{ m | pairs | sort | length }}"),
    ])
    .unwrap();
    let total = cx.total(60_000, 3_000_000);
    for case in cx.my_cases(total) {
        cx.begin_case(case, "arrays");
        let mut rng = cx.rng(case);
        let len = match rng.below(6) {
            0 => rng.below(3),
            1 => 18 + rng.below(8), // around the insertion-sort / merge threshold of slice::sort
            2 => 21 + rng.below(180),
            _ => rng.below(40),
        };
        let mix = *rng.pick(&[2usize, 4, 5, 6, 7, 9, 10, 11, 13, 16, 18]);
        // mix 18: nothing but prefix-sharing arrays (short lists, so that comparable sets occur too)
        let len = if mix == 18 { len.min(2 + case as usize % 5) } else { len };
        let keys: Vec<V> = (0..len).map(|_| if mix == 18 { prefix_array(&mut rng) } else { gen_key_value(&mut rng, mix) }).collect();
        let missing: Vec<bool> = (0..len).map(|_| mix == 16 && rng.chance(1, 15)).collect();
        let elems = |shape: u8| -> V {
            V::Arr(
                keys.iter()
                    .enumerate()
                    .map(|(i, k)| {
                        let mut m = vec![(K::Str("id".into()), V::U64(i as u64))];
                        if !missing[i] {
                            match shape {
                                0 => m.push((K::Str("k".into()), k.clone())),
                                1 => m.push((K::Str("n".into()), V::Map(vec![(K::Str("k".into()), k.clone())]))),
                                // map keys that start with a digit without being array indices
                                3 => m.push((K::Str("1st".into()), V::Map(vec![(K::Str("2024_total".into()), V::Map(vec![(K::Str("99999999999999999999999".into()), k.clone())]))]))),
                                _ => m.push((K::Str("t".into()), V::Arr(vec![V::I64(0), k.clone()]))),
                            }
                        }
                        V::Map(m)
                    })
                    .collect(),
            )
        };
        let tkeys: Vec<tera::Value> = keys.iter().map(|k| k.to_tera()).collect();
        let mut ctx = Context::new();
        ctx.insert_value("xs", elems(0).to_tera());
        ctx.insert_value("ys", elems(1).to_tera());
        ctx.insert_value("zs", elems(2).to_tera());
        ctx.insert_value("ws", elems(3).to_tera());
        ctx.insert_value("ks", V::Arr(keys.clone()).to_tera());
        let any_missing = missing.iter().any(|m| *m);
        let len_class = match len { 0 => "0", 1 => "1", 2..=20 => "small", 21..=40 => "merge", _ => "large" };
        let kinds: std::collections::BTreeSet<&str> = keys.iter().map(model::class).collect();
        let kindmix = kinds.into_iter().collect::<Vec<_>>().join("+");
        let replay = json!({"keys": V::Arr(keys.clone()).tagged(), "missing": missing});

        // model comparability of the non-none keys
        let nn: Vec<&V> = keys.iter().enumerate().filter(|(i, k)| !missing[*i] && !matches!(k, V::None)).map(|(_, k)| k).collect();
        let classes: std::collections::BTreeSet<&str> = nn.iter().map(|k| model::class(k)).collect();
        let all_scalar = nn.iter().all(|k| is_scalar_class(k));
        // certainly refused: two scalar kinds, or a scalar and a container, or two maps
        let nmaps = nn.iter().filter(|k| matches!(k, V::Map(_))).count();
        // … or any two keys that are not comparable with each other, wherever they stand ("mutually" is pairwise)
        let pair_incomparable = (0..nn.len()).any(|i| (i + 1..nn.len()).any(|j| !comparable(nn[i], nn[j])));
        let must_refuse = classes.len() > 1 || nmaps > 1 || pair_incomparable;
        let must_accept = all_scalar && classes.len() <= 1;

        macro_rules! render {
            ($name:expr, $ctx:expr) => {{
                cx.eval();
                match guard(|| tera.render($name, $ctx)) {
                    Ok(r) => Some(r),
                    Err(p) => {
                        cx.violation(&format!("C16/panic/{}/{}", $name, panic_site(&p)), format!("{} panicked: {p}; keys={keys:?}", $name), replay.clone());
                        None
                    }
                }
            }};
        }

        // ---------------- sort by attribute (three attribute shapes must agree)
        let mut sorted_ids: Option<Vec<usize>> = None;
        for (ti, tpl) in ["sort_attr", "sort_path", "sort_tuple", "sort_digitkeys"].iter().enumerate() {
            let Some(r) = render!(tpl, &ctx) else { continue };
            cx.cell(format!("{tpl}|{kindmix}|{len_class}|{}", if r.is_ok() { "ok" } else { "err" }));
            match r {
                Err(_) => {
                    if must_accept && !any_missing && len > 0 {
                        cx.violation("C16/sort-refuses-comparable-keys", format!("{tpl} failed although all keys are mutually comparable: {keys:?}"), replay.clone());
                    }
                    if ti > 0 && sorted_ids.is_some() {
                        cx.violation("C16/sort-attribute-paths-disagree", format!("{tpl} failed but sort(attribute='k') succeeded: {keys:?}"), replay.clone());
                    }
                }
                Ok(out) => {
                    let Some(ids) = parse_ids(&out) else {
                        cx.violation("C16/sort-output-unparsable", format!("{tpl}: {out}"), replay.clone());
                        continue;
                    };
                    if any_missing {
                        // a missing attribute may be an error or be tolerated; nothing else is asserted then
                        continue;
                    }
                    if must_refuse {
                        cx.violation("C16/sort-accepts-incomparable-keys", format!("{tpl} sorted keys that are not mutually comparable: {keys:?} -> ids {ids:?}"), replay.clone());
                        continue;
                    }
                    let mut perm = ids.clone();
                    perm.sort();
                    if perm != (0..len).collect::<Vec<_>>() {
                        cx.violation("C16/sort-not-a-permutation", format!("{tpl}: ids {ids:?} for {len} elements; keys={keys:?}"), replay.clone());
                        continue;
                    }
                    // order + stability over the non-none keys; nones keep their relative order
                    let nn_ids: Vec<usize> = ids.iter().copied().filter(|i| !matches!(keys[*i], V::None)).collect();
                    for w in nn_ids.windows(2) {
                        let (a, b) = (&keys[w[0]], &keys[w[1]]);
                        let ord = match model::scalar_cmp(a, b) {
                            Some(o) => o,
                            None => tkeys[w[0]].cmp(&tkeys[w[1]]), // arrays/bytes: the engine's own (law-checked) order
                        };
                        if ord == Ordering::Greater {
                            cx.violation("C16/sort-not-ordered", format!("{tpl}: key {a:?} (id {}) comes before {b:?} (id {}); keys={keys:?}", w[0], w[1]), replay.clone());
                            break;
                        }
                        if ord == Ordering::Equal && w[0] > w[1] {
                            cx.violation("C16/sort-not-stable", format!("{tpl}: equal keys {a:?}, {b:?} left input order (ids {} then {}); keys={keys:?}", w[0], w[1]), replay.clone());
                            break;
                        }
                    }
                    let none_ids: Vec<usize> = ids.iter().copied().filter(|i| matches!(keys[*i], V::None)).collect();
                    if none_ids.windows(2).any(|w| w[0] > w[1]) {
                        cx.violation("C16/sort-not-stable", format!("{tpl}: none keys left input order {none_ids:?}"), replay.clone());
                    }
                    if ti == 0 {
                        sorted_ids = Some(ids);
                    } else if let Some(first) = &sorted_ids {
                        if *first != ids {
                            cx.violation("C16/sort-attribute-paths-disagree", format!("{tpl} gave {ids:?}, sort(attribute='k') gave {first:?}"), replay.clone());
                        }
                    }
                    cx.count("sorts_verified", 1);
                }
            }
        }
        // ---------------- hostile attribute paths: empty segments, stray dots, signs, huge indices — an answer or an error
        if len > 0 && case % 8 == 0 {
            for a in ["", ".", "k.", ".k", "k..k", "t.", "t..1", "0", "-1", "+1", " k", "k ", "t.1.", "99999999999999999999", "t.99999999999999999999", "n.", "n..k", "é", "k.é.", "t.1.0.0"] {
                let mut c2 = ctx.clone();
                c2.insert("a", a);
                for (what, tpl) in [("sort", "{{ xs | sort(attribute=a) | length }}{{ zs | sort(attribute=a) | length }}{{ ys | sort(attribute=a) | length }}"), ("group_by", "{{ xs | group_by(attribute=a) | length }}{{ zs | group_by(attribute=a) | length }}{{ ys | group_by(attribute=a) | length }}")] {
                    cx.eval();
                    cx.count("hostile_attribute_paths", 1);
                    if let Err(p) = guard(|| tera.render_str(tpl, &c2, false).is_ok()) {
                        cx.violation(&format!("C16/panic/{what}-attribute-path/{}", panic_site(&p)), format!("{what}(attribute={a:?}) panicked: {p}"), json!({"attribute": a, "keys": V::Arr(keys.clone()).tagged()}));
                    }
                }
            }
        }
        // ---------------- plain sort: same order as the attribute sort of the same keys
        if let Some(r) = render!("sort_plain", &ctx) {
            match (r, &sorted_ids) {
                (Ok(out), Some(ids)) if !any_missing => {
                    let exp = model::print(&V::Arr(ids.iter().map(|i| keys[*i].clone()).collect()));
                    if out != exp {
                        cx.violation("C16/sort-plain-differs-from-attribute-sort", format!("ks | sort rendered {out}, sorting by attribute gives {exp}"), replay.clone());
                    }
                }
                (Err(_), Some(_)) if !any_missing && len > 0 => cx.violation("C16/sort-plain-differs-from-attribute-sort", format!("ks | sort failed but the attribute sort succeeded; keys={keys:?}"), replay.clone()),
                (Ok(_), None) if !any_missing && must_refuse => cx.violation("C16/sort-accepts-incomparable-keys", format!("ks | sort accepted {keys:?}"), replay.clone()),
                _ => {}
            }
        }
        // ---------------- unique: first representative of every class of equal elements, first-occurrence order
        let mut reps: Vec<usize> = Vec::new();
        for (i, k) in keys.iter().enumerate() {
            if !reps.iter().any(|r| model::eq(&keys[*r], k)) {
                reps.push(i);
            }
        }
        if let Some(r) = render!("uniq", &ctx) {
            cx.cell(format!("unique|{kindmix}|{len_class}"));
            match r {
                Ok(out) => {
                    let exp = model::print(&V::Arr(reps.iter().map(|i| keys[*i].clone()).collect()));
                    if out != exp {
                        cx.violation("C16/unique-wrong-representatives", format!("ks | unique rendered {out}, expected {exp}; keys={keys:?}"), replay.clone());
                    }
                    cx.count("uniques_verified", 1);
                }
                Err(e) => cx.violation("C16/unique-error", format!("unique failed: {e}; keys={keys:?}"), replay.clone()),
            }
        }
        if let Some(Ok(out)) = render!("uniq_ids", &ctx) {
            // every element has a distinct id, so nothing may be dropped
            if parse_ids(&out) != Some((0..len).collect()) {
                cx.violation("C16/unique-drops-distinct-elements", format!("xs | unique kept ids {out} of {len} pairwise different maps"), replay.clone());
            }
        }
        // ---------------- group_by
        let groupable = nn.iter().all(|k| matches!(model::class(k), "str" | "bool") || k.is_int());
        for tpl in ["grp", "grp_path", "grp_digitkeys"] {
            let Some(r) = render!(tpl, &ctx) else { continue };
            cx.cell(format!("{tpl}|{kindmix}|{len_class}|{}", if r.is_ok() { "ok" } else { "err" }));
            match r {
                Err(e) => {
                    if groupable && !any_missing {
                        cx.violation("C16/group_by-error", format!("{tpl} failed on string/integer/bool/none attributes: {e}; keys={keys:?}"), replay.clone());
                    }
                }
                Ok(out) => {
                    if !groupable {
                        // the engine accepted attribute kinds we do not model as keys: only the partition shape below is checked
                    }
                    let mut seen: Vec<usize> = Vec::new();
                    let mut ngroups = 0;
                    let mut ok = true;
                    for g in out.split('\u{1}').filter(|s| !s.is_empty()) {
                        ngroups += 1;
                        let Some((kprinted, ids)) = g.rsplit_once("=[") else { ok = false; break };
                        let Some(ids) = parse_ids(ids.trim_end_matches(']')) else { ok = false; break };
                        if ids.is_empty() || ids.iter().any(|i| *i >= len) {
                            ok = false;
                            break;
                        }
                        if ids.windows(2).any(|w| w[0] >= w[1]) {
                            cx.violation("C16/group_by-order-not-preserved", format!("{tpl}: group {g}; keys={keys:?}"), replay.clone());
                        }
                        if ids.iter().any(|i| !model::eq(&keys[*i], &keys[ids[0]])) {
                            cx.violation("C16/group_by-mixes-keys", format!("{tpl}: group {g} holds different attribute values; keys={keys:?}"), replay.clone());
                        }
                        if model::print(&keys[ids[0]]) != kprinted && groupable {
                            cx.violation("C16/group_by-wrong-key", format!("{tpl}: group keyed {kprinted:?} holds elements whose attribute is {:?}", keys[ids[0]]), replay.clone());
                        }
                        seen.extend(ids);
                    }
                    if !ok {
                        cx.violation("C16/group_by-output-unparsable", format!("{tpl}: {out:?}"), replay.clone());
                        continue;
                    }
                    seen.sort();
                    let exp: Vec<usize> = (0..len).filter(|i| !missing[*i] && !matches!(keys[*i], V::None)).collect();
                    if seen != exp {
                        cx.violation("C16/group_by-not-a-partition", format!("{tpl}: grouped ids {seen:?}, elements with a non-none attribute are {exp:?}; keys={keys:?}"), replay.clone());
                    }
                    let mut greps: Vec<&V> = Vec::new();
                    for i in &exp {
                        if !greps.iter().any(|r| model::eq(r, &keys[*i])) {
                            greps.push(&keys[*i]);
                        }
                    }
                    if ngroups != greps.len() {
                        cx.violation("C16/group_by-wrong-group-count", format!("{tpl}: {ngroups} groups for {} distinct attribute values; keys={keys:?}", greps.len()), replay.clone());
                    }
                    cx.count("group_bys_verified", 1);
                }
            }
        }
        // ---------------- identities between the element-access filters
        if let Some(r) = render!("misc", &ctx) {
            cx.cell(format!("misc|{len_class}"));
            match r {
                Ok(out) => {
                    // on an empty array first/last are none while ks[0] is undefined: only the first five hold there
                    let exp = if len == 0 { format!("true|true|true|0|0|{}", out.splitn(6, '|').nth(5).unwrap_or("")) } else { format!("true|true|true|{len}|{len}|true|true") };
                    if out != exp {
                        cx.violation("C16/access-filters-disagree", format!("first==nth(0)|last==reverse|first|reverse|reverse==id|length|… rendered {out}, expected {exp}; keys={keys:?}"), replay.clone());
                    }
                }
                Err(e) => cx.violation("C16/access-filter-error", format!("misc identities failed: {e}; keys={keys:?}"), replay.clone()),
            }
        }
        for n in [0usize, len / 2, len.saturating_sub(1), len, len + 3] {
            let mut c2 = ctx.clone();
            c2.insert_value("n", tera::Value::from(n as u64));
            if let Some(r) = render!("nth", &c2) {
                let exp = format!("true|{}", n >= len || matches!(keys[n], V::None));
                match r {
                    Ok(out) if out == exp => cx.count("nth_verified", 1),
                    Ok(out) => cx.violation("C16/nth-wrong-element", format!("nth(n={n}) on {len} elements rendered {out}, expected {exp}; keys={keys:?}"), replay.clone()),
                    Err(e) => cx.violation("C16/access-filter-error", format!("nth(n={n}) failed: {e}"), replay.clone()),
                }
            }
        }
        if let Some(r) = render!("rev", &ctx) {
            let exp = model::print(&V::Arr(keys.iter().rev().cloned().collect()));
            match r {
                Ok(out) if out == exp => {}
                Ok(out) => cx.violation("C16/reverse-wrong", format!("reverse rendered {out}, expected {exp}"), replay.clone()),
                Err(e) => cx.violation("C16/access-filter-error", format!("reverse failed: {e}"), replay.clone()),
            }
        }
        // reverse of a string: by characters (what reversing bytes gives is C17's business: the quantifier here is arrays)
        {
            let s = gen_string(&mut rng);
            let mut cr = Context::new();
            cr.insert_value("s", tera::Value::from(s.as_str()));
            if let Some(r) = render!("revsb", &cr) {
                let exp = format!("{}\u{1}true", s.chars().rev().collect::<String>());
                cx.cell(format!("reverse-string|{}", if s.is_ascii() { "ascii" } else { "unicode" }));
                match r {
                    Ok(out) if out == exp => cx.count("string_reversals_verified", 1),
                    Ok(out) => cx.violation("C16/reverse-wrong/string", format!("reverse of {s:?} rendered {out:?}, expected {exp:?}"), json!({"s": s})),
                    Err(e) => cx.violation("C16/access-filter-error", format!("reverse failed on {s:?}: {e}"), json!({"s": s})),
                }
            }
        }
        let sep = gen_string(&mut rng);
        let mut c3 = ctx.clone();
        c3.insert_value("sep", tera::Value::from(sep.as_str()));
        let printed: Vec<String> = keys.iter().map(model::print).collect();
        for (tpl, exp) in [("join", printed.join(&sep)), ("join_nosep", printed.join(""))] {
            if let Some(r) = render!(tpl, &c3) {
                match r {
                    Ok(out) if out == exp => cx.count("joins_verified", 1),
                    Ok(out) => cx.violation("C16/join-wrong", format!("{tpl} with sep {sep:?} rendered {out:?}, expected {exp:?}"), replay.clone()),
                    Err(e) => cx.violation("C16/access-filter-error", format!("{tpl} failed: {e}"), replay.clone()),
                }
            }
        }
        // split then join on the same separator gives back the input
        let s = gen_string(&mut rng);
        let p = if rng.bool() { gen_string(&mut rng) } else { s.chars().skip(rng.below(s.chars().count() + 1)).take(1 + rng.below(2)).collect() };
        let mut c4 = Context::new();
        c4.insert_value("s", tera::Value::from(s.as_str()));
        c4.insert_value("p", tera::Value::from(p.as_str()));
        if let Some(r) = render!("splitjoin", &c4) {
            cx.cell(format!("splitjoin|{}|{}", if p.is_empty() { "emptypat" } else if s.contains(&p) { "hit" } else { "miss" }, if s.is_ascii() { "ascii" } else { "unicode" }));
            match r {
                Ok(out) if out == s => cx.count("splitjoins_verified", 1),
                Ok(out) => cx.violation("C16/split-join-not-identity", format!("{s:?} | split(pat={p:?}) | join(sep={p:?}) rendered {out:?}"), json!({"s": s, "p": p})),
                Err(e) => cx.violation("C16/access-filter-error", format!("split|join failed on {s:?}, {p:?}: {e}"), json!({"s": s, "p": p})),
            }
        }
        if !p.is_empty() {
            if let Some(Ok(out)) = render!("split", &c4) {
                let exp = s.matches(&p).count() + 1;
                if out != exp.to_string() {
                    cx.violation("C16/split-wrong-piece-count", format!("{s:?} | split(pat={p:?}) has {out} pieces, expected {exp}"), json!({"s": s, "p": p}));
                }
            }
        }
        // keys / values / pairs / length of a map
        let msize = rng.below(12);
        let mut m: Vec<(K, V)> = Vec::new();
        for _ in 0..msize {
            let k = gen_key(&mut rng);
            if !m.iter().any(|(k2, _)| k2.same(&k)) {
                m.push((k, gen_key_value(&mut rng, 5)));
            }
        }
        let n = m.len();
        let mut c5 = Context::new();
        c5.insert_value("m", V::Map(m.clone()).to_tera());
        if let Some(r) = render!("mapf", &c5) {
            cx.cell(format!("mapfilters|{}", if n <= 6 { "scan" } else { "hash" }));
            let exp = format!("{n}|{n}|{n}|{n}|{}|{}", "true,".repeat(n), "true,".repeat(n));
            match r {
                Ok(out) if out == exp => cx.count("map_filters_verified", 1),
                Ok(out) => cx.violation("C16/keys-values-pairs-disagree", format!("map {m:?}: rendered {out}, expected {exp}"), json!({"map": V::Map(m.clone()).tagged()})),
                Err(e) => cx.violation("C16/access-filter-error", format!("keys/values/pairs failed on {m:?}: {e}"), json!({"map": V::Map(m.clone()).tagged()})),
            }
        }
        let k2 = keys.clone();
        cx.sample(|| json!({"keys": V::Arr(k2.into_iter().take(8).collect()).tagged(), "len": len, "must_refuse_sort": must_refuse}));
    }
}
