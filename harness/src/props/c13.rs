//! C13 — exact integer arithmetic and mixed comparison. Produces an event log
//! `op \t spelling \t repr:a \t repr:b \t output|ERR` decided offline by oracles/numbers.py.
use crate::core::*;
use serde_json::json;
use tera::{Context, Tera, Value};

#[derive(Clone, Debug)]
pub enum Num {
    I64(i64),
    U64(u64),
    I128(i128),
    U128(u128),
    F64(f64),
}

impl Num {
    pub fn to_value(&self) -> Value {
        match self {
            Num::I64(v) => Value::from(*v),
            Num::U64(v) => Value::from(*v),
            Num::I128(v) => Value::from(*v),
            Num::U128(v) => Value::from(*v),
            Num::F64(v) => Value::from(*v),
        }
    }
    pub fn log(&self) -> String {
        match self {
            Num::I64(v) => format!("i64:{v}"),
            Num::U64(v) => format!("u64:{v}"),
            Num::I128(v) => format!("i128:{v}"),
            Num::U128(v) => format!("u128:{v}"),
            Num::F64(v) => format!("f64:{:016x}", v.to_bits()),
        }
    }
    fn repr(&self) -> &'static str {
        match self {
            Num::I64(_) => "i64",
            Num::U64(_) => "u64",
            Num::I128(_) => "i128",
            Num::U128(_) => "u128",
            Num::F64(_) => "f64",
        }
    }
    /// coarse class of the magnitude, for the coverage cells
    fn class(&self) -> &'static str {
        let f = match self {
            Num::I64(v) => *v as f64,
            Num::U64(v) => *v as f64,
            Num::I128(v) => *v as f64,
            Num::U128(v) => *v as f64,
            Num::F64(v) => *v,
        };
        if f.is_nan() {
            "nan"
        } else if f.is_infinite() {
            "inf"
        } else if f == 0.0 {
            "zero"
        } else if f.abs() < 1.0 {
            "frac"
        } else if f.abs() < 2147483648.0 {
            "small"
        } else if f.abs() < 9.3e18 {
            "w64"
        } else if f.abs() < 1.8e19 {
            "wu64"
        } else if f.abs() < 1.8e38 {
            "w128"
        } else {
            "huge"
        }
    }
    /// template literal spelling when there is one
    fn literal(&self) -> Option<String> {
        match self {
            Num::I64(v) if *v >= 0 => Some(format!("{v}")),
            Num::I64(v) if *v > i64::MIN => Some(format!("(-{})", -(*v as i128))),
            Num::F64(v) if v.is_finite() => {
                let s = format!("{:?}", v.abs());
                if s.contains('e') || !s.contains('.') {
                    return None;
                }
                Some(if v.is_sign_negative() { format!("(-{s})") } else { s })
            }
            _ => None,
        }
    }
}

/// every representation able to hold the integer `n` (given as sign + magnitude)
fn reprs_of(neg: bool, mag: u128, out: &mut Vec<Num>) {
    if !neg {
        if mag <= i64::MAX as u128 {
            out.push(Num::I64(mag as i64));
        }
        if mag <= u64::MAX as u128 {
            out.push(Num::U64(mag as u64));
        }
        if mag <= i128::MAX as u128 {
            out.push(Num::I128(mag as i128));
        }
        out.push(Num::U128(mag));
    } else {
        if mag <= (i64::MAX as u128) + 1 {
            out.push(Num::I64((mag as i128).wrapping_neg() as i64));
        }
        if mag <= (i128::MAX as u128) + 1 {
            out.push(Num::I128((mag as i128).wrapping_neg()));
        }
    }
}

pub fn boundary_pool() -> Vec<Num> {
    let mut out = Vec::new();
    let mut mags: Vec<u128> = vec![0, 1, 2, 3, 7, 10];
    for k in [31u32, 32, 53, 63, 64, 100, 126, 127] {
        let p = 1u128 << k;
        mags.extend([p - 1, p, p + 1]);
    }
    mags.extend([u128::MAX, u128::MAX - 1]);
    mags.sort();
    mags.dedup();
    for m in &mags {
        reprs_of(false, *m, &mut out);
        if *m != 0 && *m <= (i128::MAX as u128) + 1 {
            reprs_of(true, *m, &mut out);
        }
    }
    let fl = [
        0.0, -0.0, 0.5, -0.5, 1.0, -1.0, 1.5, -1.5, 2.0, -2.0, 2.5, -2.5, 3.0, -3.0, 7.0, 0.1, -0.1, 1e-300,
        f64::MIN_POSITIVE, 5e-324, -5e-324, f64::MAX, f64::MIN, f64::INFINITY, f64::NEG_INFINITY, f64::NAN,
        9007199254740992.0, 9007199254740994.0, -9007199254740992.0, 9007199254740991.0,
        9223372036854775808.0, -9223372036854775808.0, 9223372036854774784.0, 18446744073709551616.0,
        18446744073709549568.0, 1.7014118346046923e38, -1.7014118346046923e38, 1.7014118346046921e38,
        3.402823669209385e38, 3.4028236692093846e38, 1e300, -1e300, 2147483648.0, 4294967296.0, 1e19, 123456.789,
    ];
    out.extend(fl.iter().map(|f| Num::F64(*f)));
    out
}

pub const OPS: [&str; 13] = ["+", "-", "*", "/", "//", "%", "**", "==", "!=", "<", "<=", ">", ">="];

fn random_num(rng: &mut Rng, pool: &[Num]) -> Num {
    // a value within ±3 of a boundary, in a random representation able to hold it, or a random float
    match rng.below(10) {
        0..=5 => {
            let base = rng.pick(pool).clone();
            let d = rng.range(-3, 3) as i128;
            let (neg, mag) = match base {
                Num::I64(v) => ((v as i128 + d) < 0, (v as i128 + d).unsigned_abs()),
                Num::U64(v) => ((v as i128 + d) < 0, (v as i128 + d).unsigned_abs()),
                Num::I128(v) => match v.checked_add(d) {
                    Some(s) => (s < 0, s.unsigned_abs()),
                    None => (v < 0, v.unsigned_abs()),
                },
                Num::U128(v) => {
                    if d >= 0 {
                        (false, v.saturating_add(d as u128))
                    } else {
                        (false, v.saturating_sub((-d) as u128))
                    }
                }
                Num::F64(f) => {
                    // neighbouring floats
                    let bits = f.to_bits() as i128 + d;
                    return Num::F64(f64::from_bits(bits.clamp(0, u64::MAX as i128) as u64));
                }
            };
            let mut c = Vec::new();
            reprs_of(neg, mag, &mut c);
            if c.is_empty() {
                return Num::I64(0);
            }
            c[rng.below(c.len())].clone()
        }
        6 => Num::I64(rng.next() as i64),
        7 => Num::I128(((rng.next() as u128) << 64 | rng.next() as u128) as i128),
        8 => Num::F64(f64::from_bits(rng.next())),
        _ => Num::F64((rng.range(-2000, 2000) as f64) / 4.0),
    }
}

pub fn run(cx: &mut Cx) {
    let pool = boundary_pool();
    let mut tera = Tera::new();
    let mut tpls: Vec<(String, String)> = OPS.iter().enumerate().map(|(i, op)| (format!("op{i}"), format!("{{{{ a {op} b }}}}"))).collect();
    tpls.push(("neg".into(), "{{ -a }}".into()));
    tera.add_raw_templates(tpls).expect("C13 templates");
    let grid = pool.len() as u64;
    // case k < grid: pool[k] against the whole pool (the exhaustive boundary grid, both tiers)
    // case k >= grid: a batch of random pairs near boundaries, context and literal spellings
    // case k == grid: the power grid (small and power-of-two bases against every exponent 0..=130: the last exponent
    // whose result still fits differs per base, e.g. (-2) ** 127 fits and 2 ** 127 does not)
    let total = grid + 1 + cx.total(200, 6000);
    cx.counters.insert("const:grid_pool_values".into(), grid);
    for case in cx.my_cases(total) {
        let grid_case = case < grid;
        let pow_case = case == grid;
        cx.begin_case(case, if grid_case { "grid" } else if pow_case { "pow-grid" } else { "random" });
        let mut rng = cx.rng(case);
        let pairs: Vec<(Num, Num)> = if grid_case {
            pool.iter().map(|b| (pool[case as usize].clone(), b.clone())).collect()
        } else if pow_case {
            let mut bases: Vec<i128> = (-12..=12).collect();
            for k in [4u32, 5, 8, 15, 16, 21, 31, 32, 42, 63, 64] {
                bases.extend([1i128 << k, -(1i128 << k), (1i128 << k) - 1, -((1i128 << k) + 1)]);
            }
            let mut v = Vec::new();
            for (i, b) in bases.iter().enumerate() {
                for e in 0u128..=130 {
                    let (mut rb, mut re) = (Vec::new(), Vec::new());
                    reprs_of(*b < 0, b.unsigned_abs(), &mut rb);
                    reprs_of(false, e, &mut re);
                    v.push((rb[(i + e as usize) % rb.len()].clone(), re[(i / 2 + e as usize) % re.len()].clone()));
                }
            }
            cx.counters.insert("const:pow_grid_pairs".into(), v.len() as u64);
            v
        } else {
            (0..600).map(|_| (random_num(&mut rng, &pool), random_num(&mut rng, &pool))).collect()
        };
        for (pi, (a, b)) in pairs.iter().enumerate() {
            let mut ctx = Context::new();
            ctx.insert_value("a", a.to_value());
            ctx.insert_value("b", b.to_value());
            let (la, lb) = (a.log(), b.log());
            for (i, op) in OPS.iter().enumerate() {
                let r = guard(|| tera.render(&format!("op{i}"), &ctx));
                cx.eval();
                let out = match r {
                    Ok(Ok(s)) => s,
                    Ok(Err(_)) => "ERR".to_string(),
                    Err(p) => {
                        cx.violation(&format!("C13/panic/{}", panic_site(&p)), format!("panic rendering a {op} b with a={la} b={lb}: {p}"), json!({"op": op, "a": la, "b": lb}));
                        continue;
                    }
                };
                cx.cell(format!("{op}|{}:{}|{}:{}", a.repr(), a.class(), b.repr(), b.class()));
                cx.log_line(&format!("{op}\tctx\t{la}\t{lb}\t{out}"));
            }
            if pi == 0 || !grid_case {
                let r = guard(|| tera.render("neg", &ctx));
                cx.eval();
                match r {
                    Ok(r) => {
                        let out = r.unwrap_or_else(|_| "ERR".into());
                        cx.cell(format!("neg|{}:{}", a.repr(), a.class()));
                        cx.log_line(&format!("neg\tctx\t{la}\t-\t{out}"));
                    }
                    Err(p) => cx.violation(&format!("C13/panic/{}", panic_site(&p)), format!("panic rendering -a with a={la}: {p}"), json!({"op": "neg", "a": la})),
                }
            }
            // literal spellings of the same pair (numbers written in the template itself)
            if !grid_case || pi % 7 == 0 {
                if let (Some(sa), Some(sb)) = (a.literal(), b.literal()) {
                    let op = OPS[(pi + case as usize) % OPS.len()];
                    let src = format!("{{{{ {sa} {op} {sb} }}}}");
                    let r = guard(|| Tera::default().render_str(&src, &Context::new(), false));
                    cx.eval();
                    match r {
                        Ok(r) => {
                            let out = r.unwrap_or_else(|_| "ERR".into());
                            cx.cell(format!("lit{op}|{}:{}|{}:{}", a.repr(), a.class(), b.repr(), b.class()));
                            cx.log_line(&format!("{op}\tlit\t{la}\t{lb}\t{out}"));
                            cx.count("literal_spellings", 1);
                        }
                        Err(p) => cx.violation(&format!("C13/panic/{}", panic_site(&p)), format!("panic rendering {src}: {p}"), json!({"src": src})),
                    }
                }
            }
            if pi == 3 {
                let (sa, sb) = (la.clone(), lb.clone());
                cx.sample(|| json!({"template": "{{ a OP b }} for the 13 operators", "a": sa, "b": sb}));
            }
        }
        cx.count(if grid_case { "grid_rows" } else { "random_batches" }, 1);
    }
}
