//! C09 — the fusion pass preserves behaviour. Hooks H1 (skip the pass) and H2 (chunk listings):
//! (a) differential: every template, block and component rendered with the pass on and off under the same contexts;
//! (b) structural monitor: linear alignment of the two listings of every chunk, old->new index map, jump targets.
use crate::core::*;
use crate::progs::{base_context, PGen};
use crate::values::{K, V};
use serde_json::json;
use tera::{Context, Tera};

fn jump_target(i: &str) -> Option<(&'static str, usize)> {
    for k in ["Jump(", "PopJumpIfFalse(", "JumpIfFalseOrPop(", "JumpIfTrueOrPop(", "Iterate("] {
        if let Some(rest) = i.strip_prefix(k) {
            return rest.trim_end_matches(')').parse().ok().map(|t| (k, t));
        }
    }
    None
}

/// the quoted identifiers of `LoadPath(["a", "b"])`
fn strs(i: &str) -> Vec<String> {
    i.split('"').enumerate().filter(|(k, _)| k % 2 == 1).map(|(_, s)| s.to_string()).collect()
}

pub struct Aligned {
    pub groups: usize,
    pub jumps: usize,
    pub jump_cells: Vec<String>,
}

/// Accepts only `LoadName(n) LoadAttr* [WriteTop]` <-> `LoadPath/WritePath`, all other
/// instructions identical and in order; every jump must land on the image of its old target, and no old target may
/// lie strictly inside a merged group.
pub fn align(orig: &[String], opt: &[String]) -> Result<Aligned, (String, String)> {
    let mut map = vec![usize::MAX; orig.len() + 1];
    let mut inside = vec![false; orig.len() + 1];
    let (mut i, mut j, mut groups) = (0usize, 0usize, 0usize);
    while j < opt.len() {
        let o = &opt[j];
        if o.starts_with("LoadPath(") || o.starts_with("WritePath(") {
            let p = strs(o);
            if p.is_empty() {
                return Err(("empty-path".into(), format!("empty path at new {j}")));
            }
            if orig.get(i) != Some(&format!("LoadName({:?})", p[0])) {
                return Err(("merged-group-not-a-variable-path".into(), format!("group at new {j}: orig[{i}]={:?} is not LoadName({:?})", orig.get(i), p[0])));
            }
            // (whether the dump variable `__tera_context` may head a merged group is not a structural question: the
            // property allows any variable path; that the merged form renders the same is the differential's business)
            map[i] = j;
            i += 1;
            for a in &p[1..] {
                if orig.get(i) != Some(&format!("LoadAttr({a:?})")) {
                    return Err(("merged-group-not-a-variable-path".into(), format!("group at new {j}: orig[{i}]={:?} is not LoadAttr({a:?})", orig.get(i))));
                }
                map[i] = j;
                inside[i] = true;
                i += 1;
            }
            if o.starts_with("WritePath(") {
                if orig.get(i).map(|s| s.as_str()) != Some("WriteTop") {
                    return Err(("write-merged-without-following-write".into(), format!("WritePath at new {j} without WriteTop at orig {i}")));
                }
                map[i] = j;
                inside[i] = true;
                i += 1;
            } else if p.len() < 2 {
                return Err(("loadpath-of-length-1".into(), format!("LoadPath of a single name at new {j}")));
            }
            groups += 1;
            j += 1;
            continue;
        }
        let Some(oi) = orig.get(i) else {
            return Err(("extra-instruction".into(), format!("the optimised listing has an extra instruction {o:?} at {j}")));
        };
        match (jump_target(oi), jump_target(o)) {
            (Some((k1, _)), Some((k2, _))) if k1 == k2 => {}
            (None, None) if oi == o => {}
            _ => return Err(("instruction-changed".into(), format!("orig[{i}]={oi:?} vs opt[{j}]={o:?}"))),
        }
        map[i] = j;
        i += 1;
        j += 1;
    }
    if i != orig.len() {
        return Err(("instruction-dropped".into(), format!("the optimised listing misses orig[{i}..] = {:?}", &orig[i..orig.len().min(i + 3)])));
    }
    map[orig.len()] = opt.len();
    let mut jumps = 0;
    let mut cells = Vec::new();
    for (i, oi) in orig.iter().enumerate() {
        if let Some((kind, t)) = jump_target(oi) {
            jumps += 1;
            if t > orig.len() {
                return Err(("original-jump-out-of-range".into(), format!("orig jump at {i} targets {t} of {}", orig.len())));
            }
            if inside[t] {
                return Err(("jump-into-merged-group".into(), format!("the jump at orig {i} targets {t}, which lies inside a merged group (new {})", map[t])));
            }
            let (_, nt) = jump_target(&opt[map[i]]).unwrap();
            if nt != map[t] {
                return Err(("jump-target-moved".into(), format!("the jump at orig {i}->{t} became new {}->{nt}, expected ->{}", map[i], map[t])));
            }
            let neigh = |k: usize| -> &str {
                match orig.get(k) {
                    None => "end",
                    Some(s) => {
                        if s.starts_with("LoadName") {
                            "LoadName"
                        } else if s.starts_with("LoadAttr(") {
                            "LoadAttr"
                        } else if s == "WriteTop" {
                            "WriteTop"
                        } else {
                            "other"
                        }
                    }
                }
            };
            cells.push(format!("jump|{}|target:{}|after-target:{}|before-target:{}", kind.trim_end_matches('('), neigh(t), neigh(t + 1), if t > 0 { neigh(t - 1) } else { "start" }));
        }
    }
    Ok(Aligned { groups, jumps, jump_cells: cells })
}

// ---- a small generator made of variable paths next to every kind of jump (the prototype's grammar)
fn path(r: &mut Rng) -> String {
    let mut s = r.pick(&["a", "u", "x", "__tera_context", "q"]).to_string();
    for _ in 0..r.below(4) {
        s.push('.');
        s.push_str(*r.pick(&["b", "c", "zz"]));
    }
    s
}
fn expr(r: &mut Rng, d: u32) -> String {
    if d == 0 {
        return if r.chance(1, 5) { r.pick(&["1", "\"s\"", "false", "none"]).to_string() } else { path(r) };
    }
    match r.below(14) {
        0 => format!("{} and {}", expr(r, d - 1), expr(r, d - 1)),
        1 => format!("{} or {}", expr(r, d - 1), expr(r, d - 1)),
        2 => format!("({} if {} else {})", expr(r, d - 1), expr(r, d - 1), expr(r, d - 1)),
        3 => format!("{} | default(value={})", path(r), expr(r, d - 1)),
        4 => format!("[{} for x in {} if {}]", expr(r, d - 1), path(r), expr(r, d - 1)),
        5 => format!("{} is defined", path(r)),
        6 => format!("not {}", path(r)),
        7 => format!("{}?.b", path(r)),
        8 => format!("({} == {})", expr(r, d - 1), expr(r, d - 1)),
        9 => format!("{}[\"b\"]", path(r)),
        10 => format!("{} ~ {}", path(r), path(r)),
        11 => format!("[{}, {}]", path(r), expr(r, d - 1)),
        12 => format!("{{\"k\": {}}}", path(r)),
        _ => path(r),
    }
}
fn stmts(r: &mut Rng, d: u32, in_loop: bool) -> String {
    let mut s = String::new();
    for _ in 0..(1 + r.below(3)) {
        match r.below(13) {
            0 | 1 => s += &format!("{{{{ {} }}}}", path(r)),
            2 => s += &format!("{{{{ {} }}}}", expr(r, 2)),
            3 => s += "t",
            4 if d > 0 => {
                s += &format!("{{% if {} %}}{}", expr(r, 1), stmts(r, d - 1, in_loop));
                if r.bool() {
                    s += &format!("{{% elif {} %}}{}", expr(r, 1), stmts(r, d - 1, in_loop));
                }
                if r.bool() {
                    s += &format!("{{% else %}}{}", stmts(r, d - 1, in_loop));
                }
                s += "{% endif %}";
            }
            5 if d > 0 => {
                s += &format!("{{% for x in {} %}}{}", expr(r, 1), stmts(r, d - 1, true));
                if r.bool() {
                    s += &format!("{{% else %}}{}", stmts(r, d - 1, in_loop));
                }
                s += "{% endfor %}";
            }
            // a map literal whose entry may be undefined, read back through a path
            6 if r.chance(1, 3) => s += &format!("{{% set q = {{\"b\": {}, \"c\": {{\"b\": {}}}}} %}}", path(r), path(r)),
            6 => s += &format!("{{% set q = {} %}}", expr(r, 1)),
            7 if d > 0 => s += &format!("{{% set q %}}{}{{% endset %}}", stmts(r, d - 1, false)),
            8 if d > 0 => s += &format!("{{% filter upper %}}{}{{% endfilter %}}", stmts(r, d - 1, false)),
            9 if in_loop => s += &format!("{{% if {} %}}{{% {} %}}{{% endif %}}", path(r), r.pick(&["break", "continue"])),
            10 => s += &format!("{{{{ <comp v={{{}}} /> }}}}", expr(r, 1)),
            11 if d > 0 => s += &format!("{{% for k, w in {} %}}{{{{ w.b }}}}{}{{% endfor %}}", path(r), stmts(r, d - 1, true)),
            _ => s += &format!("{{{{ {} }}}}", path(r)),
        }
    }
    s
}

fn mk(depth: u8) -> V {
    let k = |x: &str| K::Str(x.to_string());
    let c = V::Map(vec![(k("c"), V::Arr(vec![V::I64(1), V::I64(0)]))]);
    let mut b = vec![];
    if depth >= 2 {
        b.push((k("b"), c.clone()));
        b.push((k("c"), V::Str("bc".into())));
    }
    let mut a = vec![];
    if depth >= 1 {
        a.push((k("b"), V::Map(b)));
        a.push((k("c"), V::Arr(vec![V::Str("i".into())])));
    }
    V::Map(a)
}

fn path_contexts() -> Vec<Context> {
    (0..9)
        .map(|kx| {
            let mut c = Context::new();
            match kx {
                0 => {}
                // entries that are present but hold an undefined value, at the last and at an inner position of the paths
                7 => {
                    let k = |x: &str| K::Str(x.to_string());
                    c.insert_value("a", V::Map(vec![(k("b"), V::Undef), (k("c"), V::Map(vec![(k("b"), V::Undef), (k("c"), V::I64(1))]))]).to_tera());
                    c.insert_value("u", V::Map(vec![(k("b"), V::Map(vec![(k("b"), V::Map(vec![(k("b"), V::Undef)])), (k("c"), V::Undef)]))]).to_tera());
                }
                8 => {
                    let k = |x: &str| K::Str(x.to_string());
                    c.insert_value("a", V::Map(vec![(k("b"), V::Map(vec![(k("c"), V::Undef), (k("b"), V::None)])), (k("zz"), V::Undef)]).to_tera());
                    c.insert_value("x", V::Map(vec![(k("c"), V::Undef), (k("b"), V::Undef)]).to_tera());
                    c.insert_value("q", V::Undef.to_tera());
                }
                1 => c.insert_value("a", tera::Value::none()),
                2 => c.insert_value("a", mk(0).to_tera()),
                3 => c.insert_value("a", mk(1).to_tera()),
                4 => {
                    c.insert_value("a", mk(2).to_tera());
                    c.insert_value("x", mk(1).to_tera());
                }
                5 => {
                    c.insert_value("a", V::Arr(vec![mk(2), mk(1)]).to_tera());
                    c.insert_value("q", mk(2).to_tera());
                }
                _ => {
                    c.insert_value("a", V::Str("a string".into()).to_tera());
                    c.insert_value("u", mk(2).to_tera());
                    c.insert_value("x", V::I64(3).to_tera());
                }
            }
            c
        })
        .collect()
}

/// contexts for the progs.rs programs: the base one, then each root variable missing / none / of another kind
fn program_contexts(rng: &mut Rng) -> Vec<Context> {
    let base = base_context();
    let mut out = Vec::new();
    let mut full = Context::new();
    for (n, v) in &base {
        full.insert_value(*n, v.to_tera());
    }
    full.insert("a", "A");
    full.insert("n", &2);
    out.push(full.clone());
    for _ in 0..4 {
        let mut c = full.clone();
        for _ in 0..(1 + rng.below(3)) {
            let (n, _) = base[rng.below(base.len())];
            match rng.below(4) {
                0 => {
                    c.remove(n);
                }
                1 => c.insert_value(n, tera::Value::none()),
                2 => c.insert_value(n, tera::Value::from("a string")),
                _ => c.insert_value(n, V::Map(vec![(K::Str("a".into()), V::Map(vec![]))]).to_tera()),
            }
        }
        out.push(c);
    }
    out
}

pub fn run(cx: &mut Cx) {
    let total = cx.total(12_000, 1_500_000);
    let pctx = path_contexts();
    let (ends0, _) = tera::verif::render_end_report();
    for case in cx.my_cases(total) {
        cx.begin_case(case, "program");
        let mut rng = cx.rng(case);
        let path_family = case % 3 != 2;
        let (tpls, names, blocks, comps, ctxs): (Vec<(String, String)>, Vec<String>, Vec<(String, String)>, Vec<String>, Vec<Context>) = if path_family {
            let body = stmts(&mut rng, 3, false);
            let src = format!("{body}{{% block bl %}}{}{{% endblock %}}", stmts(&mut rng, 2, false));
            let comp_body = stmts(&mut rng, 1, false).replace("{{ <comp v={", "{{ (").replace("} /> }}", ") }}");
            let comps = format!("{{% component comp(v) %}}{comp_body}{{{{ v }}}}{{% endcomponent %}}");
            (vec![("comps".to_string(), comps), ("t".to_string(), src)], vec!["t".into()], vec![("t".into(), "bl".into())], vec!["comp".into()], pctx.clone())
        } else {
            let mut g = PGen::new(&mut rng);
            g.path_bias = true;
            let p = g.program();
            let ctxs = program_contexts(&mut rng);
            (p.templates, p.entries, p.blocks, p.components, ctxs)
        };
        let fam = if path_family { "paths" } else { "programs" };
        let replay = json!({"templates": tpls});
        // compile twice: pass skipped / pass on
        let built = guard(|| {
            tera::verif::set_skip_optimize(true);
            let mut plain = Tera::default();
            let r1 = plain.add_raw_templates(tpls.clone());
            tera::verif::set_skip_optimize(false);
            let mut opt = Tera::default();
            let r2 = opt.add_raw_templates(tpls.clone());
            (plain, r1.map_err(|e| e.to_string()), opt, r2.map_err(|e| e.to_string()))
        });
        tera::verif::set_skip_optimize(false);
        let (plain, r1, opt, r2) = match built {
            Ok(x) => x,
            Err(p) => {
                cx.violation(&format!("C09/panic/{}", panic_site(&p)), format!("compiling panicked: {p}"), replay);
                continue;
            }
        };
        cx.eval();
        if r1.is_err() != r2.is_err() {
            cx.violation("C09/acceptance-differs", format!("with the pass skipped: {r1:?}; with the pass: {r2:?}"), replay);
            continue;
        }
        if r1.is_err() {
            cx.count("programs_rejected", 1);
            continue;
        }
        cx.count("programs", 1);
        // ---- (b) structural monitor over every chunk
        for (name, _) in &tpls {
            // both listings come from the same compilation (keyword arguments are compiled in hash order, so two
            // compilations of one source may legitimately differ in the order of independent argument loads)
            let (Some(a), Some(b)) = (opt.verif_chunks_unoptimized(name), opt.verif_chunks(name)) else {
                cx.violation("C09/hook-missing-template", format!("no listing for {name}"), replay.clone());
                continue;
            };
            if a.len() != b.len() {
                cx.violation("C09/structure/chunk-count-differs", format!("{name}: {} chunks without the pass, {} with", a.len(), b.len()), replay.clone());
                continue;
            }
            for ((la, ia), (lb, ib)) in a.iter().zip(&b) {
                cx.count("chunks_aligned", 1);
                if la != lb {
                    cx.violation("C09/structure/chunk-labels-differ", format!("{name}: {la} vs {lb}"), replay.clone());
                    continue;
                }
                match align(ia, ib) {
                    Ok(al) => {
                        cx.count("merged_groups", al.groups as u64);
                        cx.count("jumps_checked", al.jumps as u64);
                        for c in al.jump_cells {
                            cx.cell(c);
                        }
                    }
                    Err((class, msg)) => cx.violation(&format!("C09/structure/{class}"), format!("{name}/{la}: {msg}"), json!({"templates": tpls, "chunk": la, "original": ia, "optimised": ib})),
                }
            }
        }
        // the instance compiled with the pass skipped must really be unoptimised (hook H1 works)
        for (name, _) in &tpls {
            if let (Some(a), Some(b)) = (plain.verif_chunks_unoptimized(name), plain.verif_chunks(name)) {
                if a != b {
                    cx.violation("C09/hook-skip-optimize-ineffective", format!("{name}: the pass ran although it was switched off"), replay.clone());
                }
                if b.iter().any(|(_, l)| l.iter().any(|i| i.starts_with("LoadPath(") || i.starts_with("WritePath("))) {
                    cx.violation("C09/hook-skip-optimize-ineffective", format!("{name}: fused instructions in the unoptimised instance"), replay.clone());
                }
            }
        }
        // ---- (a) differential renders
        for c in &ctxs {
            let mut jobs: Vec<(String, Box<dyn Fn(&Tera) -> tera::TeraResult<String> + '_>)> = Vec::new();
            for n in &names {
                let n = n.clone();
                jobs.push((format!("render {n}"), Box::new(move |t: &Tera| t.render(&n, c))));
            }
            for (tn, bn) in blocks.iter().take(3) {
                let (tn, bn) = (tn.clone(), bn.clone());
                jobs.push((format!("render_block {tn}/{bn}"), Box::new(move |t: &Tera| t.render_block(&tn, &bn, c))));
            }
            for cn in &comps {
                let cn = cn.clone();
                jobs.push((format!("render_component {cn}"), Box::new(move |t: &Tera| t.render_component(&cn, c, Some("B"), true))));
            }
            for (what, job) in &jobs {
                let r = guard(|| (job(&plain).map_err(|e| e.to_string()), job(&opt).map_err(|e| e.to_string())));
                cx.evals(2);
                cx.count("differential_renders", 1);
                // a differential verdict needs a deterministic subject: when the two sides disagree, each side is
                // rendered five more times; if one of them does not even agree with itself (say, a loop over a map whose
                // order changes from render to render) the difference cannot be laid at the pass's door. That is C18's
                // business (renders are repeatable), and it is counted here, not reported.
                let disagree = match &r {
                    Ok((Ok(x), Ok(y))) => x != y,
                    Ok((a, b)) => a.is_ok() != b.is_ok(),
                    Err(_) => false,
                };
                if disagree {
                    let again = guard(|| {
                        let mut pa = std::collections::BTreeSet::new();
                        let mut po = std::collections::BTreeSet::new();
                        for _ in 0..5 {
                            pa.insert(job(&plain).map_err(|_| ()));
                            po.insert(job(&opt).map_err(|_| ()));
                        }
                        (pa, po)
                    });
                    cx.evals(10);
                    if let (Ok((pa, po)), Ok((a, b))) = (&again, &r) {
                        let mut pa = pa.clone();
                        let mut po = po.clone();
                        pa.insert(a.clone().map_err(|_| ()));
                        po.insert(b.clone().map_err(|_| ()));
                        if pa.len() > 1 || po.len() > 1 {
                            cx.count("nondeterministic_subjects_skipped", 1);
                            continue;
                        }
                    }
                }
                match r {
                    Ok((Ok(x), Ok(y))) => {
                        cx.cell(format!("diff|{fam}|ok"));
                        if x != y {
                            cx.violation("C09/differential/text-differs", format!("{what}: without the pass {:?}, with the pass {:?}", clip(&x, 300), clip(&y, 300)), json!({"templates": tpls, "job": what, "context": format!("{c:?}")}));
                        }
                    }
                    Ok((Err(_), Err(_))) => cx.cell(format!("diff|{fam}|err")),
                    Ok((x, y)) => cx.violation("C09/differential/failure-differs", format!("{what}: without the pass {:?}, with the pass {:?}", x.map(|s| clip(&s, 200)), y.map(|s| clip(&s, 200))), json!({"templates": tpls, "job": what, "context": format!("{c:?}")})),
                    Err(p) => cx.violation(&format!("C09/panic/{}", panic_site(&p)), format!("{what} panicked: {p}"), json!({"templates": tpls, "job": what, "context": format!("{c:?}")})),
                }
            }
        }
        let t2 = tpls.clone();
        cx.sample(|| json!({"family": fam, "templates": t2}));
    }
    // hook H3 ran underneath all these renders: every successful interpreter run must have left its stacks balanced
    let (ends, unbalanced) = tera::verif::render_end_report();
    cx.count("render_end_events", ends - ends0);
    for u in unbalanced.iter().take(5) {
        cx.violation("C09/unbalanced-stacks-after-render", format!("{u:?}"), json!({"event": format!("{u:?}")}));
    }
}
