//! C12 — errors identify the right template and source position and always display.
//! Fault injection with known coordinates: one fault of a known byte range is put into a known template of a
//! valid multi-template set; the span checker recomputes everything from the source.
use crate::core::*;
use std::collections::BTreeSet;
use crate::monitors::{check_report, pos};
use serde_json::json;
use tera::{Context, ErrorKind, Tera};

/// (fault source, token inside it that the span must touch)
const RENDER_FAULTS: [(&str, &str); 30] = [
    ("{{ nope_var }}", "nope_var"),
    ("{{ good.zz.deeper }}", "zz"),
    ("{{ 1 + \"a\" }}", "\"a\""),
    ("{{ good.b / 0 }}", "0"),
    ("{{ good | upper }}", "good"),
    ("{{ good.b | truncate }}", "good.b"),
    ("{% for q in good.b %}{% endfor %}", "good.b"),
    ("{{ [1,2][::zero] }}", "[1,2]"),
    ("{{ throw(message=\"boom\") }}", "throw"),
    ("{{ nope_a.field }}", "nope_a"),
    ("{{ good.b < \"s\" }}", "good.b < \"s\""),
    ("{{ -good }}", "good"),
    ("{{ <typed n={\"str\"} /> }}", "<typed"),
    ("{{ <typed /> }}", "<typed"),
    ("{{ 1 in good.b }}", "good.b"),
    ("{{ good.b + nope_tail }}", "nope_tail"),
    ("{{ good.b % zero }}", "zero"),
    ("{{ good.b // 0 }}", "0"),
    ("{{ \"s\" | round }}", "\"s\""),
    ("{{ good.b | nth(n=1) }}", "good.b"),
    ("{{ good.b is starting_with(pat=1) }}", "good.b"),
    ("{{ range(end=\"x\") }}", "range"),
    ("{% set v = good.zz.w %}", "zz"),
    ("{% if good.b + nope_c %}{% endif %}", "nope_c"),
    ("{{ good.b ** \"s\" }}", "\"s\""),
    ("{{ [1][good] }}", "good"),
    // filter chains: the value handed to the failing filter is what the error is about
    ("{% set zz | round | upper %}abc{% endset %}", "round"),
    ("{% filter round %}abc{% endfilter %}", "round"),
    ("{{ \"abc\" | upper | round }}", "upper"),
    ("{% set zz | truncate(length=\"x\") | upper %}abc{% endset %}", "truncate"),
];
const SYNTAX_FAULTS: [(&str, &str); 16] = [
    ("{{ 1 + }}", "}}"),
    ("{% bogus %}", "bogus"),
    ("{{ \"unterminated }}", "\"unterminated"),
    ("{% if true %}x{% endfor %}", "endfor"),
    ("{{ a b }}", "b"),
    ("{{ 1 ? 2 }}", "?"),
    ("{% set = 1 %}", "="),
    ("{{ a | }}", "}}"),
    ("{{ a.1 }}", "1"),
    ("{% for in x %}{% endfor %}", "in"),
    ("{{ - - 1 }}", "- 1"),
    ("{{ a[ }}", "}}"),
    ("{% include nope %}", "nope"),
    ("{{ [1, 2 }}", "}}"),
    ("{% break %}", "break"),
    ("{{ @ }}", "@"),
];
const BUILD_FAULTS: [(&str, &str, &str); 5] = [
    ("{{ good | nofilter_zz }}", "nofilter_zz", "nofilter_zz"),
    ("{{ good is notest_zz }}", "notest_zz", "notest_zz"),
    ("{{ nofunc_zz() }}", "nofunc_zz", "nofunc_zz"),
    ("{{ <nocomp_zz /> }}", "<nocomp_zz", "nocomp_zz"),
    ("{% include \"nofile_zz.html\" %}", "\"nofile_zz.html\"", "nofile_zz.html"),
];
/// unterminated constructs: the error must be located in the right template (end of input / opening token)
const EOI_FAULTS: [&str; 8] = ["{{ 1", "{% if true %}x", "{# never closed", "{% raw %}body", "{% for a in [1] %}", "{% set z %}cap", "{{ \"str", "{% filter upper %}q"];

fn filler(rng: &mut Rng) -> String {
    let p = ["héllo ", "wörld\n", "日本語 ", "\r\n", "  ", "{{ 1 }}", "{% if true %}ok{% endif %}", "{# cömment #}", "\n\n", "x", "😀 ", "{{ good.b }}", "{% for i in [1] %}{{ i }}{% endfor %}\n", "{{ good.b + 1 }}", "\t", "é\r\n"];
    let mut s = String::new();
    for _ in 0..rng.below(6) {
        s += p[rng.below(p.len())];
    }
    s
}

#[allow(clippy::too_many_arguments)]
fn check_located(r: &tera::ReportError, src: &str, fname: &str, fault_off: usize, fault: &str, tok: &str, disp: &str, why: &mut Vec<String>) {
    if r.filename() != fname {
        why.push(format!("wrong-template: error names {:?}, the fault is in {fname:?}", r.filename()));
        return;
    }
    check_report(r, src, disp, why);
    let sp = r.span();
    if sp.range.end > src.len() {
        return;
    }
    let (fs, fe) = (fault_off, fault_off + fault.len());
    if sp.range.end < fs || sp.range.start > fe {
        why.push(format!("span-misses-fault: span {:?}, fault at {fs}..{fe}", sp.range));
    } else if sp.range.start < fs || sp.range.end > fe {
        why.push(format!("span-leaks-outside-faulty-construct: span {:?}, fault at {fs}..{fe}", sp.range));
    } else {
        let ts = fs + fault.find(tok).unwrap();
        let te = ts + tok.len();
        let zero_width_on_token = sp.range.is_empty() && sp.range.start >= ts && sp.range.start <= te;
        if (sp.range.end <= ts || sp.range.start >= te) && !zero_width_on_token {
            why.push(format!("span-misses-offending-token: span {:?}, token {tok:?} at {ts}..{te}", sp.range));
        }
    }
}

/// A call site (include tag or component call) put inside a construct that captures or repeats its output: the
/// error raised below it must name the call site all the same.
fn wrap_call(rng: &mut Rng, call: &str) -> String {
    let nl = if rng.bool() { "\n  " } else { "" };
    match rng.below(8) {
        0 | 1 => call.to_string(),
        2 => format!("{{% filter upper %}}{nl}{call}{{% endfilter %}}"),
        3 => format!("{{% set cap %}}{nl}{call}{{% endset %}}{{{{ cap }}}}"),
        4 => format!("{{% for q in [1] %}}{nl}{call}{{% endfor %}}"),
        5 => format!("{{% if true %}}{nl}{call}{{% endif %}}"),
        6 => format!("{{% <wrapc> %}}{nl}{call}{{% </wrapc> %}}"),
        _ => format!("{{% filter upper %}}{{% set cap %}}{nl}{call}{{% endset %}}é{{{{ cap }}}}{{% endfilter %}}"),
    }
}

/// Several templates of one batch each carry add-time faults (orphan top-level blocks in children, unknown filters, tests,
/// functions, components, include targets): the combined report must hold one entry per fault, each naming its own
/// template, the line:column of its own token and quoting its own line.
fn multi_build_case(cx: &mut Cx, rng: &mut Rng) {
    let ntpl = 2 + rng.below(3);
    let mut tpls: Vec<(String, String)> = vec![("parent.html".into(), "P{% block a %}pa{% endblock %}".into())];
    // (template, token, needle)
    let mut faults: Vec<(String, String, String)> = vec![];
    let mut uid = 0;
    for i in 0..ntpl {
        let name = format!("c{i}.html");
        // children of the parent, or of the previous child
        let parent = if i > 0 && rng.bool() { format!("c{}.html", i - 1) } else { "parent.html".to_string() };
        let mut src = format!("{{% extends \"{parent}\" %}}");
        for _ in 0..(1 + rng.below(2)) {
            src.push_str(&filler(rng));
            uid += 1;
            let (text, tok, needle) = match rng.below(6) {
                0 | 1 => (format!("{{% block zz{uid} %}}x{{% endblock %}}"), format!("zz{uid}"), format!("zz{uid}")),
                2 => (format!("{{{{ 1 | nofilter_{uid} }}}}"), format!("nofilter_{uid}"), format!("nofilter_{uid}")),
                3 => (format!("{{{{ 1 is notest_{uid} }}}}"), format!("notest_{uid}"), format!("notest_{uid}")),
                4 => (format!("{{{{ nofunc_{uid}() }}}}"), format!("nofunc_{uid}"), format!("nofunc_{uid}")),
                _ => (format!("{{% include \"nofile_{uid}.html\" %}}"), format!("\"nofile_{uid}.html\""), format!("nofile_{uid}.html")),
            };
            src.push_str(&text);
            faults.push((name.clone(), tok, needle));
        }
        src.push_str(&filler(rng));
        tpls.push((name, src));
    }
    if rng.bool() {
        tpls.reverse();
    }
    let replay = json!({"templates": tpls, "faults": faults});
    cx.eval();
    cx.count("multi_template_build_reports", 1);
    cx.cell(format!("build-multi|templates{ntpl}|faults{}", faults.len()));
    let res = guard(|| {
        let mut t = Tera::default();
        t.add_raw_templates(tpls.clone()).map_err(|e| e.to_string())
    });
    match res {
        Err(p) => cx.violation(&format!("C12/panic/build-multi/{}", panic_site(&p)), format!("registration of several faulty templates panicked: {p}"), replay),
        Ok(Ok(())) => cx.violation("C12/no-error/build-multi", "a batch with add-time faults was accepted".to_string(), replay),
        Ok(Err(d)) => {
            let mut why: Vec<String> = vec![];
            // the report of a fault: from the first line naming its needle up to the first line naming another fault's
            // needle (however the reports are separated)
            let starts: Vec<Option<usize>> = faults
                .iter()
                .map(|(_, _, needle)| {
                    let mut at = 0;
                    for line in d.split_inclusive('\n') {
                        if line.contains(needle.as_str()) && !line.trim_start().starts_with(|c: char| c.is_ascii_digit()) && !line.contains(" | ") {
                            return Some(at);
                        }
                        at += line.len();
                    }
                    None
                })
                .collect();
            for (fi, (tn, tok, needle)) in faults.iter().enumerate() {
                let src = &tpls.iter().find(|(n, _)| n == tn).unwrap().1;
                let off = src.find(tok.as_str()).unwrap();
                let (l, c) = pos(src, off).unwrap();
                let Some(from) = starts[fi] else {
                    why.push(format!("missing-report: nothing about `{needle}` ({tn})"));
                    continue;
                };
                let to = starts.iter().flatten().filter(|x| **x > from).min().copied().unwrap_or(d.len());
                let block = &d[from..to];
                let found = loci(block);
                if !found.iter().any(|(_, n, fl, fc)| n == tn && *fl == l && *fc == c + 1) {
                    why.push(format!("wrong-locus: the report about `{needle}` should name {tn}:{l}:{}, it names {:?}", c + 1, found.iter().map(|(_, n, l, c)| format!("{n}:{l}:{c}")).collect::<Vec<_>>()));
                }
                let line = src.split('\n').nth(l - 1).unwrap_or("");
                let line = line.strip_suffix('\r').unwrap_or(line);
                if !block.contains(line) {
                    why.push(format!("wrong-line-quoted: the report about `{needle}` does not quote line {l} of {tn}"));
                }
            }
            let nrep = starts.iter().flatten().collect::<BTreeSet<_>>().len();
            if nrep != faults.len() {
                why.push(format!("report-count: {nrep} reports for {} faults", faults.len()));
            }
            for w in why {
                let head = w.split(':').next().unwrap_or("x").to_string();
                cx.violation(&format!("C12/{head}/build-multi"), format!("{w}; report: {}", clip(&d, 600)), replay.clone());
            }
        }
    }
}

/// every `name:line:column` written in a report, in order of appearance — whatever surrounds it (`-->`, "called from",
/// brackets): the property fixes that call sites and positions are named, not how
fn loci(text: &str) -> Vec<(usize, String, usize, usize)> {
    let mut out = vec![];
    let mut at = 0;
    for tok in text.split_inclusive(char::is_whitespace) {
        let start = at;
        at += tok.len();
        let t = tok.trim().trim_start_matches(|c: char| !(c.is_alphanumeric() || c == '_')).trim_end_matches(|c: char| !c.is_ascii_digit());
        let mut it = t.rsplitn(3, ':');
        if let (Some(c), Some(l), Some(n)) = (it.next(), it.next(), it.next()) {
            if let (Ok(c), Ok(l)) = (c.parse::<usize>(), l.parse::<usize>()) {
                if !n.is_empty() && !n.contains(char::is_whitespace) {
                    out.push((start, n.to_string(), l, c));
                }
            }
        }
    }
    out
}

/// two of the default delimiters share a character somewhere in the text (`}}}`, `{{%`, …): re-spelling it delimiter by
/// delimiter would not give the same program
fn overlapping_delimiters(s: &str) -> bool {
    let b = s.as_bytes();
    let is = |i: usize| i + 1 < b.len() && matches!(&b[i..i + 2], b"{%" | b"%}" | b"{{" | b"}}" | b"{#" | b"#}");
    (0..b.len()).any(|i| is(i) && is(i + 1))
}

pub fn run(cx: &mut Cx) {
    let total = cx.total(200_000, 5_000_000);
    for case in cx.my_cases(total) {
        cx.begin_case(case, "fault");
        let mut rng = cx.rng(case);
        if case % 12 == 11 {
            multi_build_case(cx, &mut rng);
            continue;
        }
        let class = match rng.below(10) {
            0..=4 => "render",
            5 | 6 => "syntax",
            7 | 8 => "build",
            _ => "eoi",
        };
        let (fault, tok, needle): (String, String, String) = match class {
            "render" => {
                let (f, t) = RENDER_FAULTS[rng.below(RENDER_FAULTS.len())];
                (f.into(), t.into(), String::new())
            }
            "syntax" => {
                let (f, t) = SYNTAX_FAULTS[rng.below(SYNTAX_FAULTS.len())];
                (f.into(), t.into(), String::new())
            }
            "build" => {
                let (f, t, n) = BUILD_FAULTS[rng.below(BUILD_FAULTS.len())];
                (f.into(), t.into(), n.into())
            }
            _ => {
                let f = EOI_FAULTS[rng.below(EOI_FAULTS.len())];
                (f.into(), f.into(), String::new())
            }
        };
        // one render/build fault in four is spread over several lines (a space outside string literals and outside the
        // offending token becomes a line break), so that spans merged from sub-expressions cross lines
        let (fault, multiline) = if (class == "render" || class == "build") && rng.chance(1, 4) {
            let tr = fault.find(tok.as_str()).map(|a| a..a + tok.len()).unwrap_or(0..0);
            let mut quotes = 0;
            let cands: Vec<usize> = fault
                .char_indices()
                .filter_map(|(i, c)| {
                    if c == '"' {
                        quotes += 1;
                    }
                    (c == ' ' && quotes % 2 == 0 && !tr.contains(&i) && i > 2).then_some(i)
                })
                .collect();
            if cands.is_empty() {
                (fault, false)
            } else {
                let mut f = fault.clone();
                // from the right, so that earlier offsets stay valid
                let mut picks: Vec<usize> = (0..1 + rng.below(2)).map(|_| cands[rng.below(cands.len())]).collect();
                picks.sort();
                picks.dedup();
                for i in picks.into_iter().rev() {
                    f.replace_range(i..i + 1, if rng.bool() { "\n  " } else { "\r\n" });
                }
                (f, true)
            }
        } else {
            (fault, false)
        };
        if multiline {
            cx.count("faults_spread_over_lines", 1);
        }
        // placement: 0 top level of the entry, 1 block of the parent, 2 block of the child, 3 included, 4 component body,
        // 5 included of included, 6 component called from an included template
        let placement = if class == "eoi" { *rng.pick(&[0usize, 3, 5]) } else { rng.below(7) };
        let pre = filler(&mut rng);
        // an unterminated construct swallows what follows: nothing is put after it
        let post = if class == "eoi" { String::new() } else { filler(&mut rng) };
        let faulty_body = format!("{pre}{fault}{post}");
        let fault_off = pre.len();
        let typed = "{% component typed(n: integer) %}{{ n }}{% endcomponent %}{% component wrapc() %}[{{ body }}]{% endcomponent %}";
        let (mut tpls, entry, faulty_name, off): (Vec<(String, String)>, &str, &str, usize) = match placement {
            0 => (vec![("entry.html".into(), faulty_body.clone())], "entry.html", "entry.html", fault_off),
            1 => {
                let head = format!("{}{{% block a %}}", filler(&mut rng));
                (vec![("parent.html".into(), format!("{head}{faulty_body}{{% endblock %}}")), ("entry.html".into(), "{% extends \"parent.html\" %}".into())], "entry.html", "parent.html", head.len() + fault_off)
            }
            2 => {
                let head = "{% extends \"parent.html\" %}\n{% block a %}{{ super() }}".to_string();
                (vec![("parent.html".into(), "P{% block a %}pa{% endblock %}".into()), ("entry.html".into(), format!("{head}{faulty_body}{{% endblock %}}"))], "entry.html", "entry.html", head.len() + fault_off)
            }
            3 => (vec![("inc.html".into(), faulty_body.clone()), ("entry.html".into(), format!("{}{}", filler(&mut rng), wrap_call(&mut rng, "{% include \"inc.html\" %}")))], "entry.html", "inc.html", fault_off),
            4 => {
                let head = "{% component faulty(good, zero) %}".to_string();
                (vec![("lib.html".into(), format!("{head}{faulty_body}{{% endcomponent %}}")), ("entry.html".into(), format!("{}{}", filler(&mut rng), wrap_call(&mut rng, "{{ <faulty good={good} zero={zero} /> }}")))], "entry.html", "lib.html", head.len() + fault_off)
            }
            5 => (vec![("inc2.html".into(), faulty_body.clone()), ("inc.html".into(), format!("{}{}", filler(&mut rng), wrap_call(&mut rng, "{% include \"inc2.html\" %}"))), ("entry.html".into(), format!("é\n{}", wrap_call(&mut rng, "{% include \"inc.html\" %}")))], "entry.html", "inc2.html", fault_off),
            _ => {
                let head = "{% component faulty(good, zero) %}".to_string();
                (
                    vec![
                        ("lib.html".into(), format!("{head}{faulty_body}{{% endcomponent %}}")),
                        ("inc.html".into(), format!("{}{}", filler(&mut rng), wrap_call(&mut rng, "{{ <faulty good={good} zero={zero} /> }}"))),
                        ("entry.html".into(), format!("{}{}", filler(&mut rng), wrap_call(&mut rng, "{% include \"inc.html\" %}"))),
                    ],
                    "entry.html",
                    "lib.html",
                    head.len() + fault_off,
                )
            }
        };
        tpls.push(("types.html".into(), typed.into()));
        if rng.bool() {
            tpls.reverse(); // registration order must not matter
        }
        // the entry may also be a one-off string (`render_str`) calling into the registered templates: it is then known
        // to the reports as `__tera_one_off`
        let one_off = class == "render" && placement >= 3 && rng.chance(1, 4);
        let entry_src = tpls.iter().find(|(n, _)| n == "entry.html").map(|x| x.1.clone()).unwrap_or_default();
        let entry_name = if one_off { "__tera_one_off" } else { "entry.html" };
        if one_off {
            for t in tpls.iter_mut() {
                if t.0 == "entry.html" {
                    t.0 = "__tera_one_off".into();
                }
            }
            cx.count("faults_reached_from_one_off_strings", 1);
        }
        // the same set spelled with custom delimiters — single two-byte characters among them, so that columns (counted in
        // characters) and byte offsets part ways right at a delimiter. Only for well-formed sources (render and build
        // faults) in which no two default delimiters overlap, so that the re-spelling is the same program.
        // (a delimiter is exactly two bytes long: two ASCII characters or one two-byte character)
        const SETS: [[&str; 6]; 3] = [["{%", "%}", "«", "»", "{#", "#}"], ["¿", "¡", "«", "»", "§", "¶"], ["±", "÷", "{{", "}}", "¶", "µ"]];
        let custom: Option<[&str; 6]> = if (class == "render" || class == "build") && case % 4 == 1 && !tpls.iter().any(|(_, s)| overlapping_delimiters(s) || SETS.iter().flatten().any(|d| !d.is_ascii() && s.contains(d))) {
            Some(SETS[rng.below(SETS.len())])
        } else {
            None
        };
        let respell = |s: &str| -> String {
            match custom {
                None => s.to_string(),
                Some(d) => {
                    // one pass, so that a replacement is never re-read as a delimiter
                    let mut out = String::with_capacity(s.len());
                    let mut i = 0;
                    while i < s.len() {
                        let rest = &s[i..];
                        if let Some(k) = ["{%", "%}", "{{", "}}", "{#", "#}"].iter().position(|x| rest.starts_with(x)) {
                            out.push_str(d[k]);
                            i += 2;
                        } else {
                            let c = rest.chars().next().unwrap();
                            out.push(c);
                            i += c.len_utf8();
                        }
                    }
                    out
                }
            }
        };
        let (fault, off, entry_src) = if custom.is_some() {
            let fsrc = tpls.iter().find(|(n, _)| n == faulty_name).unwrap().1.clone();
            let off2 = respell(&fsrc[..off]).len();
            for t in tpls.iter_mut() {
                t.1 = respell(&t.1);
            }
            cx.count("faults_under_custom_delimiters", 1);
            (respell(&fault), off2, respell(&entry_src))
        } else {
            (fault, off, entry_src)
        };
        let (d_bs, d_be, d_vs, d_ve) = match custom { Some(d) => (d[0], d[1], d[2], d[3]), None => ("{%", "%}", "{{", "}}") };
        let src = tpls.iter().find(|(n, _)| n == faulty_name).unwrap().1.clone();
        let mut ctx = Context::new();
        ctx.insert("good", &std::collections::BTreeMap::from([("b", 5)]));
        ctx.insert("zero", &0);
        let line_class = {
            let (l, c) = pos(&src, off).unwrap();
            let before = &src[..off];
            let lastline = before.rsplit('\n').next().unwrap();
            format!("{}{}{}", if l == 1 { "line1" } else { "later" }, if !lastline.is_ascii() { "+multibyte-before" } else { "" }, if c == 0 { "+col0" } else { "" })
        };
        cx.eval();
        let replay = json!({"templates": tpls, "faulty_template": faulty_name, "fault": fault, "fault_offset": off, "placement": placement, "class": class});
        let res = guard(|| {
            let mut t = Tera::default();
            if let Some(d) = custom {
                t.set_delimiters(tera::Delimiters { block_start: d[0].into(), block_end: d[1].into(), variable_start: d[2].into(), variable_end: d[3].into(), comment_start: d[4].into(), comment_end: d[5].into() }).expect("C12 delimiter set");
            }
            match t.add_raw_templates(tpls.iter().filter(|(n, _)| n != "__tera_one_off").cloned().collect::<Vec<_>>()) {
                Err(e) => Err(e),
                Ok(()) if one_off => t.render_str(&entry_src, &ctx, true).map(|_| ()),
                Ok(()) => t.render(entry, &ctx).map(|_| ()),
            }
        });
        let mut why: Vec<String> = vec![];
        match res {
            Err(p) => why.push(format!("panic: {p}")),
            Ok(Ok(())) => why.push("no-error: the faulty set was accepted and rendered".into()),
            Ok(Err(e)) => match guard(|| e.to_string()) {
                Err(p) => why.push(format!("display-panics: {p}")),
                Ok(d) => {
                    cx.count("display_calls", 1);
                    match (e.kind(), class) {
                        (ErrorKind::SyntaxError(rep), "syntax") => {
                            cx.count("spans_checked_with_coordinates", 1);
                            check_located(rep, &src, faulty_name, off, &fault, &tok, &d, &mut why)
                        }
                        (ErrorKind::SyntaxError(rep), "eoi") => {
                            cx.count("spans_checked_with_coordinates", 1);
                            if rep.filename() != faulty_name {
                                why.push(format!("wrong-template: error names {:?}, the fault is in {faulty_name:?}", rep.filename()));
                            } else {
                                check_report(rep, &src, &d, &mut why);
                                // the span must lie in the unterminated construct (from its opening to the end of input)
                                let sp = rep.span();
                                if sp.range.end <= src.len() && sp.range.end < off {
                                    why.push(format!("span-misses-fault: span {:?}, unterminated construct starts at {off}", sp.range));
                                }
                            }
                        }
                        (ErrorKind::RenderingError(rep), "render") => {
                            cx.count("spans_checked_with_coordinates", 1);
                            check_located(rep, &src, faulty_name, off, &fault, &tok, &d, &mut why);
                            let want_notes = match placement {
                                3 | 4 => 1,
                                5 | 6 => 2,
                                _ => 0,
                            };
                            // every call site is named (template:line:column), innermost first, after the position of the
                            // error itself; how the report words it is not the property's business
                            let callers: Vec<&str> = match placement {
                                3 | 4 => vec![entry_name],
                                5 | 6 => vec!["inc.html", entry_name],
                                _ => vec![],
                            };
                            let mut named: Vec<(String, usize, usize)> = vec![];
                            for (_, n, l, c) in loci(&d) {
                                if n != faulty_name && named.last().map(|x| (&x.0, x.1, x.2)) != Some((&n, l, c)) {
                                    named.push((n, l, c));
                                }
                            }
                            if named.len() != callers.len() {
                                why.push(format!("call-site-notes: {} call site(s) named ({:?}) for {} call site(s)", named.len(), named, callers.len()));
                            }
                            for (c, (n, ln, col)) in callers.iter().zip(named.iter()) {
                                let line = format!("{n}:{ln}:{col}");
                                if n != c {
                                    why.push(format!("call-site-note-wrong-template: `{line}` should name {c}"));
                                } else if let Some((_, csrc)) = tpls.iter().find(|(n, _)| n == c) {
                                    // the note's line:column must designate a position inside the call construct
                                    cx.count("call_site_positions_checked", 1);
                                    let (inc_open, call_open) = (format!("{d_bs} include"), format!("{d_vs} <faulty"));
                                    let (from, to) = match csrc.find(&inc_open).or_else(|| csrc.find(&call_open)) {
                                        Some(a) => {
                                            let close = if csrc[a..].starts_with(&inc_open) { d_be } else { d_ve };
                                            (a, a + csrc[a..].find(close).map(|x| x + close.len()).unwrap_or(csrc.len() - a))
                                        }
                                        None => (0, csrc.len()),
                                    };
                                    let (ln, col) = (*ln, *col);
                                    if ln >= 1 && col >= 1 {
                                        let lstart: usize = csrc.split_inclusive('\n').take(ln - 1).map(|l| l.len()).sum();
                                        let lsrc = csrc[lstart.min(csrc.len())..].split('\n').next().unwrap_or("");
                                        let boff = lsrc.char_indices().nth(col - 1).map(|(b, _)| b).unwrap_or(lsrc.len());
                                        let at = lstart + boff;
                                        if ln > csrc.split('\n').count() || at < from || at > to {
                                            why.push(format!("call-site-note-wrong-position: `{line}` designates byte {at} of {c}, the call construct spans {from}..{to}"));
                                        }
                                    } else {
                                        why.push(format!("call-site-note-unparsable: `{line}`"));
                                    }
                                }
                            }
                        }
                        (_, "build") => {
                            // add-time reference report: parsed out of the report text
                            let (l, c) = pos(&src, off + fault.find(tok.as_str()).unwrap()).unwrap();
                            cx.count("build_reports_checked", 1);
                            if !d.contains(&needle) {
                                why.push(format!("build-report-does-not-name-the-reference: {needle}"));
                            }
                            let found = loci(&d);
                            if !found.iter().any(|(_, n, fl, fc)| n == faulty_name && *fl == l && *fc == c + 1) {
                                why.push(format!("build-report-locus: expected {faulty_name}:{l}:{}, the report names {:?}", c + 1, found.iter().map(|(_, n, l, c)| format!("{n}:{l}:{c}")).collect::<Vec<_>>()));
                            }
                            let line = src.split('\n').nth(l - 1).unwrap_or("");
                            let line = line.strip_suffix('\r').unwrap_or(line);
                            if !d.contains(line) {
                                why.push("display-does-not-quote-the-line".into());
                            }
                            if let ErrorKind::SyntaxError(rep) | ErrorKind::RenderingError(rep) = e.kind() {
                                check_located(rep, &src, faulty_name, off, &fault, &tok, &d, &mut why);
                            }
                        }
                        (k, _) => {
                            let ks: String = format!("{k:?}").chars().take(60).collect();
                            why.push(format!("unexpected-error-kind: a {class} fault surfaced as {ks}"));
                        }
                    }
                }
            },
        }
        cx.cell(format!("{class}|{}|p{placement}|{line_class}", clip(&fault, 24)));
        for w in &why {
            let head = w.split(':').next().unwrap_or("x");
            cx.violation(&format!("C12/{head}/{class}"), format!("fault {fault:?} (token {tok:?}) at byte {off} of {faulty_name} (placement {placement}): {w}"), replay.clone());
        }
        let (f2, fname2) = (fault.clone(), faulty_name.to_string());
        cx.sample(|| json!({"fault": f2, "class": class, "placement": placement, "faulty_template": fname2, "offset": off, "source": clip(&src, 200)}));
    }
}
