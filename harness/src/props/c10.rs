//! C10 — registration is atomic and history-independent. A sequential model of the template set runs next to
//! the engine: after every failed call the hook digest and all public observables must equal the pre-call
//! snapshot; after every successful call they must equal those of a fresh instance given the model's set in
//! one shuffled batch.
use crate::core::*;
use serde_json::json;
use std::collections::BTreeMap;
use tera::{Context, Tera};

// `zz/` is the higher-priority prefix of the two-prefix configuration: a template added there later shadows what a short
// name resolved to before
const NAMES: [&str; 10] = ["x.html", "y.html", "z.txt", "t/x.html", "w.html", "t/u.html", "u.html", "lib.html", "v.txt", "zz/u.html"];

fn menu() -> Vec<(&'static str, &'static str)> {
    vec![
        // (kind, source)   kinds starting with `bad-` are invalid on their own
        ("plain", "plain {{ v }}"),
        ("base", "{% block a %}A{{ v }}{% endblock %}{% block b %}B{% endblock %}"),
        ("base-nested", "{% block a %}{% block b %}nested{% endblock %}{{ v }}{% endblock %}"),
        ("child-x", "{% extends \"x.html\" %}{% block a %}cx {{ super() }}{% endblock %}"),
        ("child-y", "{% extends \"y.html\" %}{% block b %}cy{{ super() }}{% endblock %}"),
        ("child-w", "{% extends \"w.html\" %}{% block a %}cw{% endblock %}"),
        ("child-u-prefix", "{% extends \"u.html\" %}{% block a %}cu{{ super() }}{% endblock %}{% block b %}{% endblock %}"),
        ("inc-xz", "{% include \"x.html\" %}|{% include \"z.txt\" %}"),
        ("inc-y", "{% include \"y.html\" %}"),
        ("inc-w", "[{% include \"w.html\" %}]"),
        ("inc-u-prefix", "<{% include \"u.html\" %}>"),
        ("comp-c1", "{% component C1() %}c1 in NAME{% endcomponent %}body {{ v }}"),
        ("comp-c2", "{% component C2(a = 1) %}c2{{ a }}{% endcomponent %}{{ <C2 /> }}"),
        ("comp-c1-typed", "{% component C1(t: string = \"d\", ...rest) %}c1t {{ t }} in NAME{% endcomponent %}"),
        ("use-c1", "{{ <C1 /> }}{{ v }}"),
        ("use-c2", "{{ <C2 a={2} /> }}"),
        ("use-c1-body", "{% <C1> %}b{{ v }}{% </C1> %}"),
        ("escape-sensitive", "{{ v }}{{ v | safe }}{% set c %}{{ v }}{% endset %}{{ c }}"),
        ("bad-orphan-first", "{% block orphan %}{% endblock %}{% extends \"x.html\" %}"),
        ("orphan-block-in-child", "{% extends \"x.html\" %}{% block orphan %}o{% endblock %}"),
        ("bad-filter", "{{ v | nofilter }}"),
        ("bad-syntax", "{% if %}"),
        ("bad-syntax-late", "ok {{ v }} {% for %}"),
        ("bad-function", "{{ nofn() }}"),
        ("bad-test", "{{ v is notest }}"),
        ("bad-parent", "{% extends \"missing\" %}"),
        ("bad-include", "{% include \"missing\" %}"),
        ("bad-component", "{{ <Nope /> }}"),
        ("bad-extends-self-prefix", "{% extends \"x\" %}"),
        ("cycle-ext-y", "{% extends \"y.html\" %}{% block a %}1{% endblock %}"),
        ("cycle-ext-x", "{% extends \"x.html\" %}{% block a %}2{% endblock %}"),
        ("cycle-inc-w", "{% include \"w.html\" %}"),
        ("cycle-inc-y", "{% include \"y.html\" %}"),
        ("dup-comp-c2", "{% component C2(a = 5) %}other c2{{ a }}{% endcomponent %}"),
        ("deep-child", "{% extends \"t/x.html\" %}{% block a %}deep{{ super() }}{% endblock %}"),
    ]
}

fn observe(t: &Tera) -> BTreeMap<String, String> {
    let mut ctx = Context::new();
    ctx.insert("v", "<V&>");
    let mut o = BTreeMap::new();
    let mut tn: Vec<&str> = t.get_template_names().collect();
    tn.sort();
    o.insert("__names".into(), format!("{tn:?}"));
    o.insert("__digest".into(), t.verif_digest());
    // errors are compared by their first line (class), texts exactly
    let line = |r: tera::TeraResult<String>| match r {
        Ok(s) => format!("OK {s}"),
        Err(e) => format!("ERR {}", e.to_string().lines().next().unwrap_or("")),
    };
    for n in NAMES.iter().chain(["u.html", "x", "missing"].iter()) {
        o.insert(format!("r:{n}"), line(t.render(n, &ctx)));
        o.insert(format!("has:{n}"), t.contains_template(n).to_string());
        for b in ["a", "b", "orphan"] {
            o.insert(format!("b:{n}:{b}"), line(t.render_block(n, b, &ctx)));
        }
    }
    for c in ["C1", "C2"] {
        o.insert(format!("c:{c}"), line(t.render_component(c, &Context::new(), Some("B"), true)));
        o.insert(format!("d:{c}"), format!("{:?}", t.get_component_definition(c).map(|i| format!("{i:?}"))));
    }
    o
}

fn configure(t: &mut Tera, prefixes: usize, suffixes: &Option<Vec<String>>) {
    match prefixes {
        1 => t.set_fallback_prefixes(vec!["t/"]).unwrap(),
        2 => t.set_fallback_prefixes(vec!["zz/", "t/"]).unwrap(),
        _ => {}
    }
    if let Some(s) = suffixes {
        t.autoescape_on(s.clone());
    }
}

pub fn run(cx: &mut Cx) {
    // scratch files for add_template_files live next to this shard's report
    let scratch = std::path::PathBuf::from(cx.out.clone().unwrap_or_else(|| "work/C10/x".into())).with_extension(format!("files-{}", std::process::id()));
    let menu = menu();
    let total = cx.total(10_000, 1_000_000);
    for case in cx.my_cases(total) {
        cx.begin_case(case, "history");
        let mut rng = cx.rng(case);
        let prefixes = rng.below(3);
        let mut t = Tera::default();
        configure(&mut t, prefixes, &None);
        let mut model: BTreeMap<String, String> = BTreeMap::new();
        let mut suffixes: Option<Vec<String>> = None;
        let mut log: Vec<String> = vec![format!("fallback_prefixes={prefixes}")];
        let long = rng.chance(1, 5);
        let ncalls = 1 + rng.below(if long { 25 } else { 10 });
        // bias towards successful calls: valid kinds are drawn more often
        let valid: Vec<usize> = (0..menu.len()).filter(|i| !menu[*i].0.starts_with("bad-")).collect();
        let mut first = rng.chance(7, 10);
        for _ in 0..ncalls {
            if first {
                // most histories start from a valid base set so that replacements of parents, include targets and
                // component providers are reached
                first = false;
                let base: Vec<(String, String)> = vec![
                    ("x.html".into(), menu[1].1.into()),
                    ("y.html".into(), menu[2].1.into()),
                    ("w.html".into(), menu[0].1.into()),
                    ("z.txt".into(), menu[0].1.into()),
                    ("t/u.html".into(), menu[1].1.into()),
                    ("lib.html".into(), menu[12].1.into()),
                ];
                log.push(format!("add({base:?})"));
                if t.add_raw_templates(base.clone()).is_ok() {
                    for (n, s) in base {
                        model.insert(n, s);
                    }
                    cx.count("successful_calls", 1);
                }
                continue;
            }
            if rng.chance(1, 8) {
                let s: Vec<String> = match rng.below(4) {
                    0 => vec![],
                    1 => vec![".txt".into()],
                    2 => vec![".html".into(), ".txt".into()],
                    _ => vec![".html".into()],
                };
                let r = guard(|| t.autoescape_on(s.clone()));
                if let Err(p) = r {
                    cx.violation(&format!("C10/panic/{}", panic_site(&p)), format!("autoescape_on panicked: {p}"), json!({"log": log}));
                    break;
                }
                suffixes = Some(s.clone());
                log.push(format!("autoescape_on({s:?})"));
                cx.count("autoescape_reconfigurations", 1);
                // reconfiguration is part of the history: the instance must equal a fresh one configured the same way
            } else {
                let k = 1 + rng.below(3);
                let batch: Vec<(String, String)> = (0..k)
                    .map(|_| {
                        let n = NAMES[rng.below(NAMES.len())];
                        let mi = if rng.chance(4, 5) { valid[rng.below(valid.len())] } else { rng.below(menu.len()) };
                        (n.to_string(), menu[mi].1.replace("NAME", n))
                    })
                    .collect();
                let before = match guard(|| observe(&t)) {
                    Ok(o) => o,
                    Err(p) => {
                        cx.violation(&format!("C10/panic/{}", panic_site(&p)), format!("observing panicked: {p}"), json!({"log": log}));
                        break;
                    }
                };
                // one batch in four goes through add_template_files (its own insertion and rollback code): the sources are
                // written to scratch files first; one such batch in three names a file that is missing or not UTF-8, which
                // must fail the whole call
                let via_files = rng.chance(1, 4);
                let file_fault = if via_files && rng.chance(1, 3) { Some((rng.below(batch.len()), rng.bool())) } else { None };
                let mut paths: Vec<(std::path::PathBuf, Option<String>)> = vec![];
                if via_files {
                    let _ = std::fs::create_dir_all(&scratch);
                    for (i, (n, src)) in batch.iter().enumerate() {
                        let pth = scratch.join(format!("{case}-{}-{i}.tpl", log.len()));
                        match file_fault {
                            Some((fi, true)) if fi == i => {
                                let _ = std::fs::remove_file(&pth);
                            }
                            Some((fi, false)) if fi == i => {
                                let _ = std::fs::write(&pth, [b'a', 0xff, 0xfe, b'{', b'{']);
                            }
                            _ => {
                                let _ = std::fs::write(&pth, src.as_bytes());
                            }
                        }
                        paths.push((pth, Some(n.clone())));
                    }
                    cx.count("calls_through_add_template_files", 1);
                }
                log.push(format!("{}({batch:?}){}", if via_files { "add_template_files" } else { "add" }, match file_fault { Some((i, true)) => format!(" with file {i} missing"), Some((i, false)) => format!(" with file {i} not UTF-8"), None => String::new() }));
                cx.eval();
                cx.count("calls", 1);
                let r = guard(|| if via_files { t.add_template_files(paths.clone()).map_err(|e| e.to_string()) } else { t.add_raw_templates(batch.clone()).map_err(|e| e.to_string()) });
                for (pth, _) in &paths {
                    let _ = std::fs::remove_file(pth);
                }
                if file_fault.is_some() {
                    cx.count("file_faults_injected", 1);
                    if let Ok(Ok(())) = r {
                        cx.violation("C10/unreadable-file-accepted", "add_template_files succeeded although one file of the batch is missing or not UTF-8".to_string(), json!({"log": log}));
                        break;
                    }
                }
                match r {
                    Err(p) => {
                        cx.violation(&format!("C10/panic/{}", panic_site(&p)), format!("add_raw_templates panicked: {p}"), json!({"log": log}));
                        break;
                    }
                    Ok(Err(e)) => {
                        cx.count("failed_calls_checked_for_rollback", 1);
                        let replaced = batch.iter().any(|(n, _)| model.contains_key(n));
                        cx.cell(format!("fail|{}|batch{}|{}", clip(e.lines().next().unwrap_or(""), 28).replace(|c: char| c.is_ascii_digit(), "#"), batch.len(), if replaced { "replacing" } else { "new-names" }));
                        let after = match guard(|| observe(&t)) {
                            Ok(o) => o,
                            Err(p) => {
                                cx.violation(&format!("C10/panic-after-failed-add/{}", panic_site(&p)), format!("after a failed call the instance panics when used: {p}"), json!({"log": log}));
                                break;
                            }
                        };
                        if after != before {
                            let diff: Vec<String> = before.iter().filter(|(k, v)| after.get(*k) != Some(v)).map(|(k, v)| format!("{k}: before={:?} after={:?}", clip(v, 120), after.get(k).map(|x| clip(x, 120)))).take(4).collect();
                            let which = if before.get("__digest") != after.get("__digest") { "derived-state" } else { "observable" };
                            cx.violation(&format!("C10/failed-add-not-rolled-back/{which}"), format!("after a failed call ({}) the instance differs from before: {diff:?}", clip(e.lines().next().unwrap_or(""), 100)), json!({"log": log, "diff": diff}));
                        }
                    }
                    Ok(Ok(())) => {
                        for (n, s) in &batch {
                            model.insert(n.clone(), s.clone());
                        }
                        cx.count("successful_calls", 1);
                    }
                }
            }
            // ---- the instance must behave exactly like a fresh one given the model's set in one shuffled batch
            let mut fresh = Tera::default();
            configure(&mut fresh, prefixes, &suffixes);
            let mut all: Vec<(String, String)> = model.iter().map(|(a, b)| (a.clone(), b.clone())).collect();
            rng.shuffle(&mut all);
            // autoescape_on before or after adding must not matter either
            let suffix_late = rng.bool();
            if suffix_late {
                fresh = Tera::default();
                configure(&mut fresh, prefixes, &None);
            }
            let r = guard(|| fresh.add_raw_templates(all.clone()).map_err(|e| e.to_string()));
            cx.eval();
            match r {
                Ok(Ok(())) => {
                    if suffix_late {
                        if let Some(s) = &suffixes {
                            fresh.autoescape_on(s.clone());
                        }
                    }
                    let (a, b) = match guard(|| (observe(&t), observe(&fresh))) {
                        Ok(x) => x,
                        Err(p) => {
                            cx.violation(&format!("C10/panic-when-observing/{}", panic_site(&p)), format!("the instance panics when used: {p}"), json!({"log": log}));
                            break;
                        }
                    };
                    cx.count("fresh_instance_comparisons", 1);
                    cx.cell(format!("fresh|templates{}|prefixes{prefixes}|{}", model.len().min(6), if suffix_late { "suffix-after" } else { "suffix-before" }));
                    if a != b {
                        let diff: Vec<String> = a.iter().filter(|(k, v)| b.get(*k) != Some(v)).map(|(k, v)| format!("{k}: history={:?} fresh={:?}", clip(v, 160), b.get(k).map(|x| clip(x, 160)))).take(4).collect();
                        let which = if a.get("__digest") != b.get("__digest") { "derived-state" } else { "observable" };
                        cx.violation(&format!("C10/history-dependent/{which}"), format!("the instance built by this history differs from a fresh instance given the same set: {diff:?}"), json!({"log": log, "diff": diff, "set": all}));
                        break;
                    }
                }
                Ok(Err(e)) => {
                    cx.violation("C10/fresh-instance-rejects-accepted-set", format!("a set reached through successful calls is rejected in one batch: {}", clip(&e, 200)), json!({"log": log, "set": all}));
                    break;
                }
                Err(p) => {
                    cx.violation(&format!("C10/panic/{}", panic_site(&p)), format!("fresh add panicked: {p}"), json!({"log": log}));
                    break;
                }
            }
        }
        cx.count("histories", 1);
        let l2 = log.clone();
        cx.sample(|| json!({"history": l2.iter().map(|x| clip(x, 300)).collect::<Vec<_>>()}));
    }
    let _ = std::fs::remove_dir_all(&scratch);
}
