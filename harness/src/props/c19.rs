//! C19 — data put in a context through serde is represented faithfully. Round-trip monitor over a family of
//! harness-defined types (by value and by reference), refusal of unrepresentable keys, and print prediction by an
//! independent model serializer.
use crate::core::*;
use crate::model;
use crate::ser_model::to_model;
use serde::de::DeserializeOwned;
use serde::{Deserialize, Serialize};
use serde_json::json;
use std::collections::{BTreeMap, HashMap};
use std::fmt::Debug;
use tera::{Context, Tera, Value};

pub trait Gen: Sized {
    fn gen(rng: &mut Rng, depth: usize) -> Self;
    /// equality with floats compared by bits (NaN by class)
    fn same(&self, o: &Self) -> bool;
}

macro_rules! gen_int {
    ($($t:ty),*) => {$(
        impl Gen for $t {
            fn gen(rng: &mut Rng, _d: usize) -> Self {
                match rng.below(8) {
                    0 => <$t>::MIN,
                    1 => <$t>::MAX,
                    2 => 0,
                    3 => 1,
                    4 => (<$t>::MAX / 2).wrapping_add(1),
                    5 | 6 => {
                        // the limits of every narrower width, both signs, +-1: where a representation may change
                        let k = *rng.pick(&[7u32, 8, 15, 16, 31, 32, 53, 63, 64, 65, 126]);
                        let d = rng.below(3) as i128 - 1;
                        let mag = (1i128 << k) + d;
                        let cand = if rng.bool() { mag } else { -mag };
                        <$t>::try_from(cand).unwrap_or(<$t>::MAX / 3)
                    }
                    _ => {
                        let hi = rng.next() as u128;
                        let lo = rng.next() as u128;
                        ((hi << 64) | lo) as $t
                    }
                }
            }
            fn same(&self, o: &Self) -> bool { self == o }
        }
    )*};
}
gen_int!(i8, i16, i32, i64, i128, u8, u16, u32, u64, u128);

impl Gen for bool {
    fn gen(rng: &mut Rng, _d: usize) -> Self { rng.bool() }
    fn same(&self, o: &Self) -> bool { self == o }
}
impl Gen for () {
    fn gen(_rng: &mut Rng, _d: usize) -> Self {}
    fn same(&self, _o: &Self) -> bool { true }
}
impl Gen for f64 {
    fn gen(rng: &mut Rng, _d: usize) -> Self {
        match rng.below(8) {
            0 => 0.0,
            1 => -0.0,
            2 => f64::MAX,
            3 => f64::MIN_POSITIVE,
            4 => *rng.pick(&[f64::INFINITY, f64::NEG_INFINITY, f64::NAN, 5e-324, 0.1, 1e300]),
            5 => rng.range(-1000, 1000) as f64 / 8.0,
            _ => f64::from_bits(rng.next()),
        }
    }
    fn same(&self, o: &Self) -> bool { self.to_bits() == o.to_bits() || (self.is_nan() && o.is_nan()) }
}
impl Gen for f32 {
    fn gen(rng: &mut Rng, _d: usize) -> Self {
        match rng.below(6) {
            0 => 0.0,
            1 => -0.0,
            2 => f32::MAX,
            3 => *rng.pick(&[f32::INFINITY, f32::NEG_INFINITY, f32::NAN, f32::MIN_POSITIVE, 0.1, 1e-45]),
            4 => rng.range(-1000, 1000) as f32 / 8.0,
            _ => f32::from_bits(rng.next() as u32),
        }
    }
    fn same(&self, o: &Self) -> bool { self.to_bits() == o.to_bits() || (self.is_nan() && o.is_nan()) }
}
impl Gen for char {
    fn gen(rng: &mut Rng, _d: usize) -> Self {
        match rng.below(5) {
            0 => *rng.pick(&['a', 'Z', '0', ' ', '\n', '"', '<', '\u{0}']),
            1 => *rng.pick(&['é', 'ß', '日', '😀', '\u{10ffff}', '\u{a0}', '\u{301}']),
            _ => char::from_u32(rng.below(0x10ffff) as u32).unwrap_or('x'),
        }
    }
    fn same(&self, o: &Self) -> bool { self == o }
}
impl Gen for String {
    fn gen(rng: &mut Rng, _d: usize) -> Self { crate::values::gen_string(rng) }
    fn same(&self, o: &Self) -> bool { self == o }
}
impl<T: Gen> Gen for Option<T> {
    fn gen(rng: &mut Rng, d: usize) -> Self { if rng.chance(1, 3) { None } else { Some(T::gen(rng, d + 1)) } }
    fn same(&self, o: &Self) -> bool {
        match (self, o) {
            (None, None) => true,
            (Some(a), Some(b)) => a.same(b),
            _ => false,
        }
    }
}
impl<T: Gen> Gen for Box<T> {
    fn gen(rng: &mut Rng, d: usize) -> Self { Box::new(T::gen(rng, d)) }
    fn same(&self, o: &Self) -> bool { (**self).same(&**o) }
}
impl<T: Gen> Gen for Vec<T> {
    fn gen(rng: &mut Rng, d: usize) -> Self {
        let n = match rng.below(8) {
            0 => 0,
            1 if d < 2 => 50,
            _ => rng.below(if d > 2 { 2 } else { 5 }),
        };
        (0..n).map(|_| T::gen(rng, d + 1)).collect()
    }
    fn same(&self, o: &Self) -> bool { self.len() == o.len() && self.iter().zip(o).all(|(a, b)| a.same(b)) }
}
macro_rules! gen_tuple {
    ($(($($n:ident $i:tt),+))*) => {$(
        impl<$($n: Gen),+> Gen for ($($n,)+) {
            fn gen(rng: &mut Rng, d: usize) -> Self { ($($n::gen(rng, d + 1),)+) }
            fn same(&self, o: &Self) -> bool { $(self.$i.same(&o.$i))&&+ }
        }
    )*};
}
gen_tuple!((A 0) (A 0, B 1) (A 0, B 1, C 2) (A 0, B 1, C 2, D 3));
impl<K: Gen + Ord + Clone, T: Gen> Gen for BTreeMap<K, T> {
    fn gen(rng: &mut Rng, d: usize) -> Self {
        let n = match rng.below(8) { 0 => 0, 1 if d < 2 => 50, _ => rng.below(if d > 2 { 2 } else { 5 }) };
        (0..n).map(|_| (K::gen(rng, d + 1), T::gen(rng, d + 1))).collect()
    }
    fn same(&self, o: &Self) -> bool { self.len() == o.len() && self.iter().zip(o).all(|((k, v), (k2, v2))| k == k2 && v.same(v2)) }
}
impl<K: Gen + Eq + std::hash::Hash + Clone, T: Gen> Gen for HashMap<K, T> {
    fn gen(rng: &mut Rng, d: usize) -> Self {
        let n = rng.below(if d > 2 { 2 } else { 6 });
        (0..n).map(|_| (K::gen(rng, d + 1), T::gen(rng, d + 1))).collect()
    }
    fn same(&self, o: &Self) -> bool { self.len() == o.len() && self.iter().all(|(k, v)| o.get(k).map(|v2| v.same(v2)).unwrap_or(false)) }
}

#[derive(Serialize, Deserialize, Debug, Clone)]
pub struct Named { a: i32, b: String, c: Option<f64>, d: Vec<u16> }
#[derive(Serialize, Deserialize, Debug, Clone)]
pub struct Tup(i64, String);
#[derive(Serialize, Deserialize, Debug, Clone)]
pub struct Newtype(u32);
#[derive(Serialize, Deserialize, Debug, Clone)]
pub struct NewtypeS(String);
#[derive(Serialize, Deserialize, Debug, Clone)]
pub struct NewtypeOfStruct(Named);
#[derive(Serialize, Deserialize, Debug, Clone, PartialEq)]
pub struct Unit;
#[derive(Serialize, Deserialize, Debug, Clone)]
pub enum E { U, V2, N(i32), NS(String), T(i8, String), S { x: u64, y: bool }, NV(Vec<u8>), NO(Option<i64>) }
#[derive(Serialize, Deserialize, Debug, Clone, PartialEq, Eq, PartialOrd, Ord, Hash)]
pub enum UnitOnly { Red, Green, Blue }
#[derive(Serialize, Deserialize, Debug, Clone)]
pub struct Deep { e: Vec<E>, m: BTreeMap<String, Named>, o: Option<Box<Deep>>, t: (Newtype, Tup), nt: NewtypeOfStruct, big: (u128, i128, u64), f: f32, ch: char, u: Unit, en: E }
#[derive(Serialize, Deserialize, Debug, Clone)]
pub struct Holder<T> { v: T }

impl<T: Gen> Gen for Holder<T> {
    fn gen(rng: &mut Rng, d: usize) -> Self { Holder { v: T::gen(rng, d) } }
    fn same(&self, o: &Self) -> bool { self.v.same(&o.v) }
}
impl Gen for Named {
    fn gen(rng: &mut Rng, d: usize) -> Self { Named { a: Gen::gen(rng, d), b: Gen::gen(rng, d), c: Gen::gen(rng, d), d: Gen::gen(rng, d + 1) } }
    fn same(&self, o: &Self) -> bool { self.a == o.a && self.b == o.b && self.c.same(&o.c) && self.d == o.d }
}
impl Gen for Tup {
    fn gen(rng: &mut Rng, d: usize) -> Self { Tup(Gen::gen(rng, d), Gen::gen(rng, d)) }
    fn same(&self, o: &Self) -> bool { self.0 == o.0 && self.1 == o.1 }
}
impl Gen for Newtype {
    fn gen(rng: &mut Rng, d: usize) -> Self { Newtype(Gen::gen(rng, d)) }
    fn same(&self, o: &Self) -> bool { self.0 == o.0 }
}
impl Gen for NewtypeS {
    fn gen(rng: &mut Rng, d: usize) -> Self { NewtypeS(Gen::gen(rng, d)) }
    fn same(&self, o: &Self) -> bool { self.0 == o.0 }
}
impl Gen for NewtypeOfStruct {
    fn gen(rng: &mut Rng, d: usize) -> Self { NewtypeOfStruct(Gen::gen(rng, d)) }
    fn same(&self, o: &Self) -> bool { self.0.same(&o.0) }
}
impl Gen for Unit {
    fn gen(_rng: &mut Rng, _d: usize) -> Self { Unit }
    fn same(&self, _o: &Self) -> bool { true }
}
impl Gen for UnitOnly {
    fn gen(rng: &mut Rng, _d: usize) -> Self { [UnitOnly::Red, UnitOnly::Green, UnitOnly::Blue][rng.below(3)].clone() }
    fn same(&self, o: &Self) -> bool { self == o }
}
impl Gen for E {
    fn gen(rng: &mut Rng, d: usize) -> Self {
        match rng.below(8) {
            0 => E::U,
            1 => E::V2,
            2 => E::N(Gen::gen(rng, d)),
            3 => E::NS(Gen::gen(rng, d)),
            4 => E::T(Gen::gen(rng, d), Gen::gen(rng, d)),
            5 => E::S { x: Gen::gen(rng, d), y: Gen::gen(rng, d) },
            6 => E::NV(Gen::gen(rng, d + 1)),
            _ => E::NO(Gen::gen(rng, d)),
        }
    }
    fn same(&self, o: &Self) -> bool {
        match (self, o) {
            (E::U, E::U) | (E::V2, E::V2) => true,
            (E::N(a), E::N(b)) => a == b,
            (E::NS(a), E::NS(b)) => a == b,
            (E::T(a, b), E::T(c, d)) => a == c && b == d,
            (E::S { x, y }, E::S { x: x2, y: y2 }) => x == x2 && y == y2,
            (E::NV(a), E::NV(b)) => a == b,
            (E::NO(a), E::NO(b)) => a == b,
            _ => false,
        }
    }
}
impl Gen for Deep {
    fn gen(rng: &mut Rng, d: usize) -> Self {
        Deep {
            e: Gen::gen(rng, d + 1),
            m: Gen::gen(rng, d + 1),
            o: if d < 3 && rng.bool() { Some(Box::new(Deep::gen(rng, d + 1))) } else { None },
            t: Gen::gen(rng, d),
            nt: Gen::gen(rng, d),
            big: Gen::gen(rng, d),
            f: Gen::gen(rng, d),
            ch: Gen::gen(rng, d),
            u: Unit,
            en: Gen::gen(rng, d),
        }
    }
    fn same(&self, o: &Self) -> bool {
        self.e.same(&o.e) && self.m.same(&o.m) && self.o.same(&o.o) && self.t.same(&o.t) && self.nt.same(&o.nt) && self.big == o.big && self.f.same(&o.f) && self.ch == o.ch && self.en.same(&o.en)
    }
}

// ----- types whose Serialize impl hands the serializer a string that only lives for the call: formatted into a buffer on
// the stack (std's IP addresses, the hex digest below) or streamed through `collect_str`
#[derive(Debug, Clone, PartialEq, Eq, PartialOrd, Ord)]
pub struct Hex32([u8; 16]);
impl Serialize for Hex32 {
    fn serialize<S: serde::Serializer>(&self, s: S) -> Result<S::Ok, S::Error> {
        let mut buf = [0u8; 32];
        for (i, b) in self.0.iter().enumerate() {
            buf[2 * i] = b"0123456789abcdef"[(b >> 4) as usize];
            buf[2 * i + 1] = b"0123456789abcdef"[(b & 15) as usize];
        }
        s.serialize_str(std::str::from_utf8(&buf).unwrap())
    }
}
impl<'de> Deserialize<'de> for Hex32 {
    fn deserialize<D: serde::Deserializer<'de>>(d: D) -> Result<Self, D::Error> {
        let s = String::deserialize(d)?;
        let b = s.as_bytes();
        if b.len() != 32 {
            return Err(serde::de::Error::custom("hex digest of the wrong length"));
        }
        let mut out = [0u8; 16];
        for i in 0..16 {
            out[i] = u8::from_str_radix(&s[2 * i..2 * i + 2], 16).map_err(serde::de::Error::custom)?;
        }
        Ok(Hex32(out))
    }
}
impl Gen for Hex32 {
    fn gen(rng: &mut Rng, _d: usize) -> Self {
        let mut b = [0u8; 16];
        for x in b.iter_mut() {
            *x = rng.below(256) as u8;
        }
        Hex32(b)
    }
    fn same(&self, o: &Self) -> bool { self == o }
}
#[derive(Debug, Clone, PartialEq)]
pub struct Stamp(u64, u32);
impl Serialize for Stamp {
    fn serialize<S: serde::Serializer>(&self, s: S) -> Result<S::Ok, S::Error> {
        s.collect_str(&format_args!("{:020}.{:09}", self.0, self.1))
    }
}
impl<'de> Deserialize<'de> for Stamp {
    fn deserialize<D: serde::Deserializer<'de>>(d: D) -> Result<Self, D::Error> {
        let s = String::deserialize(d)?;
        let (a, b) = s.split_once('.').ok_or_else(|| serde::de::Error::custom("no dot"))?;
        Ok(Stamp(a.parse().map_err(serde::de::Error::custom)?, b.parse().map_err(serde::de::Error::custom)?))
    }
}
impl Gen for Stamp {
    fn gen(rng: &mut Rng, _d: usize) -> Self { Stamp(rng.next(), rng.below(1_000_000_000) as u32) }
    fn same(&self, o: &Self) -> bool { self == o }
}
impl Gen for std::net::Ipv6Addr {
    fn gen(rng: &mut Rng, _d: usize) -> Self {
        // full-length addresses (39 characters) most of the time, compressible ones too
        if rng.chance(1, 4) { std::net::Ipv6Addr::from((rng.next() as u128) << 64) } else { std::net::Ipv6Addr::from(((rng.next() as u128) << 64 | rng.next() as u128) | 0x1000_1000_1000_1000_1000_1000_1000_1000) }
    }
    fn same(&self, o: &Self) -> bool { self == o }
}
impl Gen for std::net::Ipv4Addr {
    fn gen(rng: &mut Rng, _d: usize) -> Self { std::net::Ipv4Addr::from(rng.next() as u32) }
    fn same(&self, o: &Self) -> bool { self == o }
}
impl Gen for std::net::SocketAddrV6 {
    fn gen(rng: &mut Rng, d: usize) -> Self { std::net::SocketAddrV6::new(Gen::gen(rng, d), rng.below(65536) as u16, 0, 0) }
    fn same(&self, o: &Self) -> bool { self == o }
}
#[derive(Serialize, Deserialize, Debug, Clone)]
pub struct Peers { a: std::net::Ipv6Addr, b: std::net::Ipv6Addr, id: Hex32, prev: Hex32, at: Stamp, until: Stamp }
impl Gen for Peers {
    fn gen(rng: &mut Rng, d: usize) -> Self { Peers { a: Gen::gen(rng, d), b: Gen::gen(rng, d), id: Gen::gen(rng, d), prev: Gen::gen(rng, d), at: Gen::gen(rng, d), until: Gen::gen(rng, d) } }
    fn same(&self, o: &Self) -> bool { self.a == o.a && self.b == o.b && self.id == o.id && self.prev == o.prev && self.at == o.at && self.until == o.until }
}

// ----- reading a converted value back as the argument of a registered filter or function (tera/src/args.rs): the same
// round trip through the third door. A number comes back as the Rust type asked for exactly when it fits that type —
// whatever width, signedness or floatness it was given with — and is refused otherwise, never wrapped, truncated or
// saturated; `Kwargs::deserialize` gives back the struct whose fields were passed.
#[derive(Serialize, Deserialize, Debug, Clone)]
pub struct ArgS { a: i32, b: String, c: Option<f64>, d: Vec<u16>, e: u128, f: i8, g: bool, m: BTreeMap<String, i64>, en: UnitOnly, t: (u8, String) }
impl Gen for ArgS {
    fn gen(rng: &mut Rng, d: usize) -> Self {
        ArgS { a: Gen::gen(rng, d), b: Gen::gen(rng, d), c: Gen::gen(rng, d), d: Gen::gen(rng, d + 2), e: Gen::gen(rng, d), f: Gen::gen(rng, d), g: Gen::gen(rng, d), m: Gen::gen(rng, d + 2), en: Gen::gen(rng, d), t: Gen::gen(rng, d) }
    }
    fn same(&self, o: &Self) -> bool { format!("{self:?}") == format!("{o:?}") }
}

/// exact value of a number given to the engine: sign and magnitude, or a float
#[derive(Debug, Clone, Copy)]
enum Exact { Int(bool, u128), Float(f64) }

fn arg_engine() -> Tera {
    use tera::{Kwargs, State};
    let mut t = Tera::default();
    t.autoescape_on(Vec::<&'static str>::new());
    let mut tpls: Vec<(String, String)> = vec![("rbs".into(), "{{ rbs(a=a, b=b, c=c, d=d, e=e, f=f, g=g, m=m, en=en, t=t) }}".into()), ("vec_i64".into(), "{{ v | as_vec_i64 }}".into()), ("vec_u8".into(), "{{ rb_vec_u8(x=v) }}".into()), ("as_str".into(), "{{ v | as_string }}\u{1}{{ v }}".into())];
    macro_rules! reg {
        ($($ty:ident),*) => {$(
            t.register_filter(concat!("as_", stringify!($ty)), |v: $ty, _: Kwargs, _: &State| format!("{v:?}"));
            t.register_function(concat!("rb_", stringify!($ty)), |kw: Kwargs, _: &State| -> tera::TeraResult<String> { Ok(format!("{:?}", kw.must_get::<$ty>("x")?)) });
            tpls.push((concat!("f_", stringify!($ty)).to_string(), concat!("{{ v | as_", stringify!($ty), " }}").to_string()));
            tpls.push((concat!("k_", stringify!($ty)).to_string(), concat!("{{ rb_", stringify!($ty), "(x=v) }}").to_string()));
        )*};
    }
    reg!(u8, u16, u32, u64, u128, usize, i8, i16, i32, i64, i128, isize, f32, f64, bool);
    t.register_filter("as_vec_i64", |v: Vec<i64>, _: Kwargs, _: &State| format!("{v:?}"));
    t.register_function("rb_vec_u8", |kw: Kwargs, _: &State| -> tera::TeraResult<String> { Ok(format!("{:?}", kw.must_get::<Vec<u8>>("x")?)) });
    t.register_filter("as_string", |v: String, _: Kwargs, _: &State| v);
    t.register_function("rbs", |kw: Kwargs, _: &State| -> tera::TeraResult<String> { Ok(format!("{:?}", kw.deserialize::<ArgS>()?)) });
    t.add_raw_templates(tpls).expect("C19 argument templates");
    t
}

fn argument_readback(cx: &mut Cx, t: &Tera, rng: &mut Rng) {
    // ---- one number, given in a random width, read back as every numeric type through a filter receiver, a keyword
    //      argument and TryFrom<Value>
    macro_rules! given {
        ($($ty:ident),*) => {{
            let tys = [$(stringify!($ty)),*];
            let pick = tys[rng.below(tys.len())];
            let mut out: Option<(Value, Exact, &'static str)> = None;
            $( if pick == stringify!($ty) {
                let x = <$ty as Gen>::gen(rng, 0);
                #[allow(unused_comparisons)]
                let ex = Exact::Int(x < 0, (x as i128).unsigned_abs().max(if x < 0 { 0 } else { x as u128 }));
                out = Some((Value::try_from_serializable(&x).unwrap(), ex, stringify!($ty)));
            } )*
            out.unwrap()
        }};
    }
    let (val, exact, given_as) = if rng.chance(1, 4) {
        let f = match rng.below(6) {
            0 => <f64 as Gen>::gen(rng, 0),
            1 => (rng.range(-300, 300) as f64).trunc(),
            2 => *rng.pick(&[255.0, 256.0, -128.0, -129.0, 65535.0, 65536.0, 2147483648.0, 4294967296.0, 9223372036854775808.0, 18446744073709551616.0, 1.7014118346046923e38, -1.7014118346046923e38, 3.402823669209385e38, 1e39, -0.0, 0.5, -0.5, 254.99999999999997]),
            3 => *rng.pick(&[f64::NAN, f64::INFINITY, f64::NEG_INFINITY, 3.4028234663852886e38, 3.4028235677973366e38, -3.4028235677973366e38, 1e300]),
            _ => (rng.next() >> rng.below(64)) as f64 * if rng.bool() { 1.0 } else { -1.0 },
        };
        (Value::from(f), Exact::Float(f), "f64")
    } else {
        given!(i8, i16, i32, i64, i128, u8, u16, u32, u64, u128)
    };
    let mut ctx = Context::new();
    ctx.insert_value("v", val.clone());
    macro_rules! int_target {
        ($($ty:ident),*) => {$({
            // what exact arithmetic says
            let (must, exp): (Option<bool>, Option<String>) = match exact {
                Exact::Int(neg, mag) => {
                    let fits = if neg { mag <= (<$ty>::MIN as i128).unsigned_abs() } else { mag <= <$ty>::MAX as u128 };
                    (Some(fits), fits.then(|| format!("{}{mag}", if neg && mag != 0 { "-" } else { "" })))
                }
                Exact::Float(f) => {
                    if !f.is_finite() || f.trunc() != f {
                        (Some(false), None)
                    } else if f.abs() >= 3.402823669209385e38 {
                        (Some(false), None)
                    } else {
                        let (neg, mag) = (f < 0.0, f.abs() as u128);
                        let fits = if neg { mag <= (<$ty>::MIN as i128).unsigned_abs() } else { mag <= <$ty>::MAX as u128 };
                        // whole floats that fit the target but not i128 may be refused (the conversion goes through i128)
                        let must = if fits && f.abs() >= 1.7014118346046923e38 { None } else { Some(fits) };
                        (must, fits.then(|| format!("{}{mag}", if neg && mag != 0 { "-" } else { "" })))
                    }
                }
            };
            let direct = guard(|| <$ty>::try_from(val.clone()).map(|x| format!("{x:?}")).map_err(|e| e.to_string()));
            let outs = [("filter receiver", guard(|| t.render(concat!("f_", stringify!($ty)), &ctx).map_err(|e| e.to_string()))), ("keyword argument", guard(|| t.render(concat!("k_", stringify!($ty)), &ctx).map_err(|e| e.to_string()))), ("TryFrom<Value>", direct)];
            cx.evals(3);
            for (door, o) in outs {
                cx.count("argument_readbacks", 1);
                let replay = json!({"given_as": given_as, "value": format!("{exact:?}"), "read_as": stringify!($ty), "through": door});
                match o {
                    Err(p) => cx.violation(&format!("C19/panic/{}", panic_site(&p)), format!("reading {exact:?} as {} through a {door} panicked: {p}", stringify!($ty)), replay),
                    Ok(Ok(s)) => {
                        cx.cell(format!("argument|{given_as}|{}|{door}|ok", stringify!($ty)));
                        if exp.as_deref() != Some(s.as_str()) {
                            cx.violation(&format!("C19/argument-altered/{}", stringify!($ty)), format!("{exact:?} (given as {given_as}) read as {} through a {door} came back as {s}{}", stringify!($ty), match &exp { Some(e) => format!(", exactly it is {e}"), None => " although it does not fit".to_string() }), replay);
                        }
                    }
                    Ok(Err(e)) => {
                        cx.cell(format!("argument|{given_as}|{}|{door}|refused", stringify!($ty)));
                        if must == Some(true) {
                            cx.violation(&format!("C19/argument-refused/{}", stringify!($ty)), format!("{exact:?} (given as {given_as}) fits {} but reading it through a {door} failed: {}", stringify!($ty), clip(&e, 200)), replay);
                        }
                    }
                }
            }
        })*};
    }
    int_target!(u8, u16, u32, u64, u128, usize, i8, i16, i32, i64, i128, isize);
    // ---- the accessors of Value itself (`as_i64`, `as_u64`, `as_i128`, `as_u128`, `as_f64`): the exact number when it fits
    //      the type asked for (for `as_f64`: when the float is exactly that integer), nothing otherwise — never another number
    if let Exact::Int(neg, mag) = exact {
        let show = |neg: bool, mag: u128| format!("{}{mag}", if neg && mag != 0 { "-" } else { "" });
        let want = show(neg, mag);
        let got: [(&str, Option<String>, bool); 4] = [
            ("as_i64", val.as_i64().map(|x| x.to_string()), if neg { mag <= 1u128 << 63 } else { mag <= i64::MAX as u128 }),
            ("as_u64", val.as_u64().map(|x| x.to_string()), !neg && mag <= u64::MAX as u128 || mag == 0),
            ("as_i128", val.as_i128().map(|x| x.to_string()), if neg { mag <= 1u128 << 127 } else { mag <= i128::MAX as u128 }),
            ("as_u128", val.as_u128().map(|x| x.to_string()), !neg || mag == 0),
        ];
        for (name, g, fits) in got {
            cx.count("argument_readbacks", 1);
            cx.cell(format!("accessor|{given_as}|{name}|{}", if fits { "fits" } else { "does-not-fit" }));
            let ok = match &g { Some(x) => fits && *x == want, None => !fits };
            if !ok {
                cx.violation(&format!("C19/argument-altered/{name}"), format!("{exact:?} (given as {given_as}): Value::{name}() gave {g:?}, exactly it is {want}{}", if fits { "" } else { " and does not fit" }), json!({"given_as": given_as, "value": format!("{exact:?}"), "accessor": name}));
            }
        }
        if let Some(f) = val.as_f64() {
            // exact iff converting back gives the same integer
            let back_ok = f.is_finite() && f.trunc() == f && f.abs() < 3.402823669209385e38 && (f.abs() as u128) == mag && (f < 0.0) == (neg && mag != 0);
            if !back_ok {
                cx.violation("C19/argument-altered/as_f64", format!("{exact:?} (given as {given_as}): Value::as_f64() gave {f:?}, which is not that integer"), json!({"given_as": given_as, "value": format!("{exact:?}")}));
            }
        }
    }
    // ---- float targets: the nearest float; f32 refuses finite numbers beyond its range
    let as_f64: f64 = match exact { Exact::Int(neg, mag) => if neg { -(mag as f64) } else { mag as f64 }, Exact::Float(f) => f };
    let as_f32: Option<f32> = match exact {
        Exact::Int(neg, mag) => { let x = if neg { -(mag as f32) } else { mag as f32 }; x.is_finite().then_some(x) }
        Exact::Float(f) => { let x = f as f32; (x.is_finite() || !f.is_finite()).then_some(x) }
    };
    for (ty, exp) in [("f64", Some(format!("{as_f64:?}"))), ("f32", as_f32.map(|x| format!("{x:?}")))] {
        for (door, name) in [("filter receiver", format!("f_{ty}")), ("keyword argument", format!("k_{ty}"))] {
            cx.eval();
            cx.count("argument_readbacks", 1);
            let replay = json!({"given_as": given_as, "value": format!("{exact:?}"), "read_as": ty, "through": door});
            match guard(|| t.render(&name, &ctx).map_err(|e| e.to_string())) {
                Err(p) => cx.violation(&format!("C19/panic/{}", panic_site(&p)), format!("reading {exact:?} as {ty} panicked: {p}"), replay),
                Ok(Ok(s)) => {
                    cx.cell(format!("argument|{given_as}|{ty}|{door}|ok"));
                    if exp.as_deref() != Some(s.as_str()) {
                        cx.violation(&format!("C19/argument-altered/{ty}"), format!("{exact:?} (given as {given_as}) read as {ty} through a {door} came back as {s}, expected {exp:?}"), replay);
                    }
                }
                Ok(Err(e)) => {
                    cx.cell(format!("argument|{given_as}|{ty}|{door}|refused"));
                    if exp.is_some() {
                        cx.violation(&format!("C19/argument-refused/{ty}"), format!("{exact:?} (given as {given_as}) read as {ty} through a {door} failed: {}", clip(&e, 200)), replay);
                    }
                }
            }
        }
    }
    // ---- a bool argument takes booleans only; a String argument is the text the template would print
    for (door, name) in [("filter receiver", "f_bool"), ("keyword argument", "k_bool")] {
        cx.eval();
        if let Ok(Ok(s)) = guard(|| t.render(name, &ctx).map_err(|e| e.to_string())) {
            cx.violation("C19/argument-altered/bool", format!("the number {exact:?} read as bool through a {door} came back as {s}"), json!({"value": format!("{exact:?}")}));
        }
    }
    cx.eval();
    match guard(|| t.render("as_str", &ctx).map_err(|e| e.to_string())) {
        Ok(Ok(s)) => {
            let (a, b) = s.split_once('\u{1}').unwrap_or(("", "?"));
            if a != b {
                cx.violation("C19/argument-altered/String", format!("{exact:?} read as String is {a:?}, printed by a template {b:?}"), json!({"value": format!("{exact:?}")}));
            }
        }
        Ok(Err(e)) => cx.violation("C19/argument-refused/String", format!("{exact:?} read as String failed: {}", clip(&e, 200)), json!({"value": format!("{exact:?}")})),
        Err(p) => cx.violation(&format!("C19/panic/{}", panic_site(&p)), format!("reading {exact:?} as String panicked: {p}"), json!({"value": format!("{exact:?}")})),
    }
    // ---- sequences: element-wise, refused as a whole when one element does not fit
    let xs: Vec<i128> = (0..rng.below(5)).map(|_| match rng.below(4) { 0 => <i64 as Gen>::gen(rng, 0) as i128, 1 => <u8 as Gen>::gen(rng, 0) as i128, 2 => <i128 as Gen>::gen(rng, 0), _ => rng.range(-3, 300) as i128 }).collect();
    let mut c2 = Context::new();
    c2.insert("v", &xs);
    for (name, fits, exp) in [
        ("vec_i64", xs.iter().all(|x| i64::try_from(*x).is_ok()), format!("{:?}", xs.iter().map(|x| *x as i64).collect::<Vec<_>>())),
        ("vec_u8", xs.iter().all(|x| u8::try_from(*x).is_ok()), format!("{:?}", xs.iter().map(|x| *x as u8).collect::<Vec<_>>())),
    ] {
        cx.eval();
        cx.count("argument_readbacks", 1);
        cx.cell(format!("argument|sequence|{name}|{}", if fits { "fits" } else { "does-not-fit" }));
        let replay = json!({"sequence": format!("{xs:?}"), "read_as": name});
        match guard(|| t.render(name, &c2).map_err(|e| e.to_string())) {
            Ok(Ok(s)) if fits && s == exp => {}
            Ok(Err(_)) if !fits => {}
            Ok(o) => cx.violation(&format!("C19/argument-altered/{name}"), format!("{xs:?} read as {name}: {:?}; {}", o.map(|s| clip(&s, 200)).map_err(|e| clip(&e, 200)), if fits { format!("expected {exp}") } else { "an element does not fit: it must be refused".to_string() }), replay),
            Err(p) => cx.violation(&format!("C19/panic/{}", panic_site(&p)), format!("reading {xs:?} as {name} panicked: {p}"), replay),
        }
    }
    // ---- a struct passed field by field as keyword arguments and read back with Kwargs::deserialize
    let st = ArgS::gen(rng, 0);
    let exp = format!("{st:?}");
    cx.eval();
    cx.count("argument_structs_read_back", 1);
    let r = guard(|| {
        let c = Context::from_serialize(&st).map_err(|e| e.to_string())?;
        t.render("rbs", &c).map_err(|e| e.to_string())
    });
    match r {
        Ok(Ok(s)) if s == exp => {}
        Ok(o) => cx.violation("C19/roundtrip-altered/ArgS/Kwargs::deserialize", format!("{exp} passed field by field and read back with Kwargs::deserialize: {:?}", o.map(|s| clip(&s, 400)).map_err(|e| clip(&e, 300))), json!({"value": clip(&exp, 1500)})),
        Err(p) => cx.violation(&format!("C19/panic/{}", panic_site(&p)), format!("Kwargs::deserialize panicked on {exp}: {p}"), json!({"value": clip(&exp, 1500)})),
    }
}

struct Eng {
    tera: Tera,
}

/// One round trip + print comparison for type T
fn roundtrip<T: Gen + Serialize + DeserializeOwned + Debug>(cx: &mut Cx, eng: &Eng, rng: &mut Rng, tname: &str) {
    let x = T::gen(rng, 0);
    let replay = json!({"type": tname, "value": clip(&format!("{x:?}"), 1500)});
    cx.eval();
    let v = match guard(|| Value::try_from_serializable(&x)) {
        Ok(Ok(v)) => v,
        Ok(Err(e)) => {
            cx.violation(&format!("C19/representable-value-refused/{tname}"), format!("try_from_serializable refused {x:?}: {e}"), replay);
            return;
        }
        Err(p) => {
            cx.violation(&format!("C19/panic/{}", panic_site(&p)), format!("try_from_serializable panicked on {x:?}: {p}"), replay);
            return;
        }
    };
    // ---- read back, by value and by reference
    for path in ["by-value", "by-reference"] {
        let r = guard(|| if path == "by-value" { T::deserialize(v.clone()).map_err(|e| e.to_string()) } else { T::deserialize(&v).map_err(|e| e.to_string()) });
        cx.eval();
        cx.cell(format!("roundtrip|{tname}|{path}"));
        match r {
            Ok(Ok(back)) => {
                if !back.same(&x) {
                    cx.violation(&format!("C19/roundtrip-altered/{tname}/{path}"), format!("{tname} {path}: {x:?} came back as {back:?}"), replay.clone());
                }
                cx.count("roundtrips_ok", 1);
            }
            Ok(Err(e)) => cx.violation(&format!("C19/roundtrip-failed/{tname}/{path}"), format!("{tname} {path}: {x:?} -> {v:?} could not be read back: {e}"), replay.clone()),
            Err(p) => cx.violation(&format!("C19/panic/{}", panic_site(&p)), format!("deserialize panicked ({tname} {path}) on {x:?}: {p}"), replay.clone()),
        }
    }
    // ---- what a template prints is determined by the data alone: model serializer predicts it;
    //      from_serialize, insert and insert_value(converted) are interchangeable
    let Ok(mv) = to_model(&x) else { return };
    let exp = model::print(&mv);
    let mut outs: Vec<(&str, Result<String, String>)> = Vec::new();
    let r = guard(|| {
        let mut c1 = Context::new();
        c1.insert("v", &x);
        let o1 = eng.tera.render("p", &c1).map_err(|e| e.to_string());
        let mut c2 = Context::new();
        c2.insert_value("v", v.clone());
        let o2 = eng.tera.render("p", &c2).map_err(|e| e.to_string());
        let o3 = match Context::from_serialize(&Holder { v: &x }) {
            Ok(c3) => eng.tera.render("p", &c3).map_err(|e| e.to_string()),
            Err(e) => Err(format!("from_serialize: {e}")),
        };
        (o1, o2, o3)
    });
    cx.eval();
    match r {
        Ok((o1, o2, o3)) => {
            outs.push(("insert", o1));
            outs.push(("insert_value", o2));
            outs.push(("from_serialize", o3));
        }
        Err(p) => {
            cx.violation(&format!("C19/panic/{}", panic_site(&p)), format!("rendering {x:?} panicked: {p}"), replay.clone());
            return;
        }
    }
    cx.count("print_comparisons", 1);
    for (path, o) in &outs {
        match o {
            Ok(s) if *s == exp => {}
            Ok(s) => cx.violation(&format!("C19/print-differs-from-data/{tname}/{path}"), format!("{tname} via {path}: {{{{ v }}}} printed {:?}, the data says {:?} (value {x:?})", clip(s, 300), clip(&exp, 300)), replay.clone()),
            Err(e) => cx.violation(&format!("C19/print-failed/{tname}/{path}"), format!("{tname} via {path}: rendering failed: {e}"), replay.clone()),
        }
    }
}

// ----- unrepresentable keys
#[derive(Debug, Clone, Copy)]
enum BadKey { Float, Tuple, Struct, Unit, NoneK, Bytes, Seq, MapK, NewtypeVariant, SomeFloat, F32 }
#[derive(Serialize)]
struct KS { a: i32 }
#[derive(Serialize)]
enum KE { NV(i32) }
impl Serialize for BadKey {
    fn serialize<S: serde::Serializer>(&self, s: S) -> Result<S::Ok, S::Error> {
        match self {
            BadKey::Float => s.serialize_f64(1.5),
            BadKey::F32 => s.serialize_f32(2.0),
            BadKey::Tuple => (1, 2).serialize(s),
            BadKey::Struct => KS { a: 1 }.serialize(s),
            BadKey::Unit => s.serialize_unit(),
            BadKey::NoneK => s.serialize_none(),
            BadKey::Bytes => s.serialize_bytes(b"ab"),
            BadKey::Seq => vec![1, 2].serialize(s),
            BadKey::MapK => BTreeMap::from([("a", 1)]).serialize(s),
            BadKey::NewtypeVariant => KE::NV(1).serialize(s),
            BadKey::SomeFloat => Some(0.5f64).serialize(s),
        }
    }
}
struct MapOf<K>(Vec<(K, i32)>);
impl<K: Serialize> Serialize for MapOf<K> {
    fn serialize<S: serde::Serializer>(&self, s: S) -> Result<S::Ok, S::Error> {
        use serde::ser::SerializeMap;
        let mut m = s.serialize_map(Some(self.0.len()))?;
        for (k, v) in &self.0 {
            m.serialize_entry(k, v)?;
        }
        m.end()
    }
}

pub fn run(cx: &mut Cx) {
    let mut tera = Tera::default();
    tera.autoescape_on(Vec::<&'static str>::new());
    tera.add_raw_template("p", "{{ v }}").unwrap();
    let eng = Eng { tera };
    let argt = arg_engine();
    let total = cx.total(20_000, 1_000_000);
    macro_rules! rt {
        ($cx:expr, $rng:expr, $($t:ty),* $(,)?) => {$( roundtrip::<$t>($cx, &eng, $rng, stringify!($t)); )*};
    }
    for case in cx.my_cases(total) {
        cx.begin_case(case, "roundtrip");
        let mut rng = cx.rng(case);
        let rng = &mut rng;
        rt!(cx, rng, bool, i8, i16, i32, i64, i128, u8, u16, u32, u64, u128, f32, f64, char, String, ());
        rt!(cx, rng, Option<i32>, Option<String>, Option<Vec<u8>>, Option<Named>, Option<E>, Option<(i8, char)>, Option<f64>, Option<u128>, Option<Newtype>);
        rt!(cx, rng, Vec<i64>, Vec<String>, Vec<Option<u8>>, Vec<Vec<f32>>, Vec<E>, Vec<Named>, Vec<()>, Vec<char>);
        rt!(cx, rng, (i32,), (u8, String), (f64, bool, char), (i128, u128, Option<i8>, Vec<u16>), ((i8, i8), (String, (bool,))));
        rt!(cx, rng, BTreeMap<String, i32>, BTreeMap<i8, String>, BTreeMap<i16, u8>, BTreeMap<i32, Vec<i32>>, BTreeMap<i64, bool>, BTreeMap<i128, u8>, BTreeMap<u8, i8>, BTreeMap<u16, char>, BTreeMap<u32, f64>, BTreeMap<u64, String>, BTreeMap<u128, ()>);
        rt!(cx, rng, BTreeMap<char, i32>, BTreeMap<bool, String>, HashMap<String, Named>, HashMap<u64, E>, HashMap<char, Option<i8>>, HashMap<bool, Vec<String>>, BTreeMap<String, BTreeMap<i32, Vec<Option<String>>>>, BTreeMap<UnitOnly, i32>);
        rt!(cx, rng, Named, Tup, Newtype, NewtypeS, NewtypeOfStruct, Unit, E, UnitOnly, Deep, Vec<Newtype>, BTreeMap<String, Newtype>, (Newtype, NewtypeS), Option<NewtypeOfStruct>, Holder<E>, Holder<Option<Deep>>);
        {
            use std::net::{Ipv4Addr, Ipv6Addr, SocketAddrV6};
            rt!(cx, rng, Ipv6Addr, Vec<Ipv6Addr>, (Ipv6Addr, Ipv6Addr), BTreeMap<String, Ipv6Addr>, Vec<Ipv4Addr>, Vec<SocketAddrV6>, Hex32, Vec<Hex32>, Holder<(Hex32, Hex32)>, BTreeMap<Hex32, i32>, Vec<Stamp>, (Stamp, Stamp, Hex32), Peers, Vec<Peers>, Option<Hex32>, BTreeMap<i8, Hex32>);
        }
        for _ in 0..6 {
            argument_readback(cx, &argt, rng);
        }
        // ---- a key that is not a string, integer or bool must be refused, not altered
        for bk in [BadKey::Float, BadKey::Tuple, BadKey::Struct, BadKey::Unit, BadKey::NoneK, BadKey::Bytes, BadKey::Seq, BadKey::MapK, BadKey::NewtypeVariant, BadKey::SomeFloat, BadKey::F32] {
            let m = MapOf(vec![(bk, 1)]);
            let nested = Holder { v: vec![MapOf(vec![(bk, 2)])] };
            for (what, r) in [("top", guard(|| Value::try_from_serializable(&m).map(|v| format!("{v:?}")))), ("nested", guard(|| Value::try_from_serializable(&nested).map(|v| format!("{v:?}"))))] {
                cx.eval();
                cx.cell(format!("badkey|{bk:?}|{what}"));
                match r {
                    Ok(Err(_)) => cx.count("unrepresentable_keys_refused", 1),
                    Ok(Ok(v)) => cx.violation(&format!("C19/unrepresentable-key-accepted/{bk:?}"), format!("a map with a {bk:?} key ({what}) was converted to {v} instead of being refused"), json!({"key": format!("{bk:?}"), "where": what})),
                    Err(p) => cx.violation(&format!("C19/panic/{}", panic_site(&p)), format!("a {bk:?} key panicked: {p}"), json!({"key": format!("{bk:?}")})),
                }
            }
            // Context::from_serialize and insert go through the same conversion
            let r = guard(|| Context::from_serialize(&Holder { v: MapOf(vec![(bk, 1)]) }).is_err());
            cx.eval();
            match r {
                Ok(true) => cx.count("unrepresentable_keys_refused", 1),
                Ok(false) => cx.violation(&format!("C19/unrepresentable-key-accepted/{bk:?}"), format!("Context::from_serialize accepted a map with a {bk:?} key"), json!({"key": format!("{bk:?}")})),
                Err(p) => cx.violation(&format!("C19/panic/{}", panic_site(&p)), format!("from_serialize with a {bk:?} key panicked: {p}"), json!({"key": format!("{bk:?}")})),
            }
        }
        // ---- Context::from_serialize of a top-level map: each entry becomes the variable named by the key's text,
        //      exactly as if it had been inserted under that name; a top level that is no map or struct is refused
        macro_rules! top_map {
            ($($k:ty),*) => {$({
                let m: BTreeMap<$k, i32> = (0..rng.below(4)).map(|i| (<$k as Gen>::gen(rng, 3), i as i32)).collect();
                let r = guard(|| {
                    let a = Context::from_serialize(&m).map_err(|e| e.to_string())?;
                    let mut b = Context::new();
                    for (k, v) in &m {
                        b.insert(k.to_string(), v);
                    }
                    let t = tera::Tera::default();
                    let oa = t.render_str("{{ __tera_context }}", &a, false).map_err(|e| e.to_string())?;
                    let ob = t.render_str("{{ __tera_context }}", &b, false).map_err(|e| e.to_string())?;
                    Ok::<_, String>((oa, ob))
                });
                cx.evals(2);
                cx.count("top_level_maps_compared", 1);
                cx.cell(format!("from_serialize-top-map|{}", stringify!($k)));
                match r {
                    Ok(Ok((oa, ob))) if oa == ob => {}
                    Ok(Ok((oa, ob))) => cx.violation(&format!("C19/from_serialize-differs-from-insert/BTreeMap<{}, i32>", stringify!($k)), format!("from_serialize of {m:?} gives the context {:?}, inserting the entries one by one {:?}", clip(&oa, 200), clip(&ob, 200)), json!({"map": format!("{m:?}")})),
                    Ok(Err(e)) => cx.violation(&format!("C19/from_serialize-refuses-map/BTreeMap<{}, i32>", stringify!($k)), format!("from_serialize of {m:?} failed: {e}"), json!({"map": format!("{m:?}")})),
                    Err(p) => cx.violation(&format!("C19/panic/{}", panic_site(&p)), format!("from_serialize of {m:?} panicked: {p}"), json!({"map": format!("{m:?}")})),
                }
            })*};
        }
        top_map!(i8, i64, i128, u8, u64, u128, bool, char, String);
        for (what, r) in [("integer", guard(|| Context::from_serialize(&5i32).is_err())), ("sequence", guard(|| Context::from_serialize(&vec![1, 2]).is_err())), ("string", guard(|| Context::from_serialize("s").is_err())), ("unit", guard(|| Context::from_serialize(&()).is_err())), ("none", guard(|| Context::from_serialize(&None::<i32>).is_err()))] {
            cx.eval();
            match r {
                Ok(true) => cx.count("non_map_top_levels_refused", 1),
                Ok(false) => cx.violation(&format!("C19/from_serialize-accepts-non-map/{what}"), format!("Context::from_serialize accepted a top-level {what}"), json!({"top": what})),
                Err(p) => cx.violation(&format!("C19/panic/{}", panic_site(&p)), format!("from_serialize of a {what} panicked: {p}"), json!({"top": what})),
            }
        }
        if cx.samples.len() < cx.max_samples {
            let d = Deep::gen(rng, 1);
            let printed = to_model(&d).map(|m| model::print(&m)).unwrap_or_default();
            cx.sample(|| json!({"type": "Deep", "value": clip(&format!("{d:?}"), 400), "model_print": clip(&printed, 300)}));
        }
    }
}
