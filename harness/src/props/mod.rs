use crate::core::Cx;

pub mod c01;
pub mod c02;
pub mod c03;
pub mod c04;
pub mod c05;
pub mod c06;
pub mod c07;
pub mod c08;
pub mod c09;
pub mod c10;
pub mod c11;
pub mod c12;
pub mod c13;
pub mod c14;
pub mod c15;
pub mod c16;
pub mod c17;
pub mod c18;
pub mod c19;
pub mod c20;

pub fn run(id: &str, cx: &mut Cx) -> bool {
    match id {
        "C01" => c01::run(cx),
        "C02" => c02::run(cx),
        "C03" => c03::run_prop(cx),
        "C04" => c04::run(cx),
        "C05" => c05::run(cx),
        "C06" => c06::run(cx),
        "C07" => c07::run(cx),
        "C08" => c08::run(cx),
        "C09" => c09::run(cx),
        "C10" => c10::run(cx),
        "C11" => c11::run(cx),
        "C12" => c12::run(cx),
        "C13" => c13::run(cx),
        "C14" => c14::run(cx),
        "C15" => c15::run(cx),
        "C16" => c16::run(cx),
        "C17" => c17::run(cx),
        "C18" => c18::run(cx),
        "C19" => c19::run(cx),
        "C20" => c20::run(cx),
        _ => return false,
    }
    true
}
