use crate::core::Cx;

pub mod c13;

pub fn run(id: &str, cx: &mut Cx) -> bool {
    match id {
        "C13" => c13::run(cx),
        _ => return false,
    }
    true
}
