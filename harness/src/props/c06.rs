//! C06 — registering any source text ends in Ok or Err: no panic, hang or stack overflow.
//! Monitors: panic recorder around every call, supervised child process (a stack overflow or abort kills the
//! shard and the driver attributes it to the case in the status file), CPU-time watchdog per case.
use crate::core::*;
use serde_json::json;
use tera::{Context, Delimiters, Tera};

pub const PIECES: [&str; 120] = [
    "{{", "}}", "{%", "%}", "{#", "#}", "-", " ", "\n", "raw", "endraw", "if", "endif", "for", "x", "in", "endfor", "set", "=", "1", "\"", "'", "`", "\\", "a", ".", "[", "]", "(", ")", "|", "~", "é", "日", "«", "»", "<", ">", "/",
    "block", "endblock", "b", "filter", "upper", "endfilter", "component", "endcomponent", "c", ",", ":", "?", "...", "{", "}", "%", "#", "not", "is", "and", "or", "true", "none", "extends", "include", "super()", "break", "continue",
    "elif", "else", "endset", "*", "+", "0.5", "9999999999999999999999", "\u{a0}", "\r\n", "Â", "ī", "ß", "--", "$$", "@@", "(*", "*)", "<%", "%>", "<<", ">>", "[[", "]]", "##", "%%", "::", "..", "?.", "?[", "**", "//", "==", "!=", "<=", ">=",
    "set_global", "loop.index", "x.y", "x[0]", "\"s\"", "1e999", "-0", "0x1F", "1_000", "{{-", "-}}", "{%-", "-%}", "{#-", "-#}", "</", "/>", "😀",
];

const TWO: [&str; 40] = [
    "{{", "}}", "{%", "%}", "{#", "#}", "<<", ">>", "<%", "%>", "[[", "]]", "«", "»", "é", "ß", "--", "-}", "{-", "\"\"", "''", "  ", "\n\n", "a-", "if", "%%", "##", "(*", "*)", "$$", "@@", "..", "::", "|-", "ra", "w ", "\t\t", "ī", "Â", "ab",
];

fn builtin_seeds() -> Vec<String> {
    [
        "Hello {{ name }}!",
        "{% if a and b or not c %}{{ a + 1 * 2 - 3 / 4 // 5 % 6 ** 2 }}{% elif d is defined %}x{% else %}y{% endif %}",
        "{% for k, v in m %}{{ loop.index }}:{{ k }}={{ v | upper | default(value=\"n\") }}{% if loop.last %}{% break %}{% endif %}{% else %}empty{% endfor %}",
        "{% set a = [1, 2, ...b, 3] %}{% set_global m = {\"k\": 1, ...n} %}{{ a[1:2] }}{{ a[::-1] }}{{ m.k }}{{ m[\"k\"] }}{{ x?.y?[0] or \"d\" }}",
        "{% extends \"base\" %}{% block a %}{{ super() }}x{% block b %}y{% endblock b %}{% endblock %}",
        "{% component btn(label: string, kind = \"p\", ...rest) {\"css\": 1} %}<b>{{ label }}{{ body }}</b>{% endcomponent btn %}{{ <btn label=\"x\" {...o} /> }}{% <btn label> %}in{% </btn> %}",
        "{% raw %}{{ not rendered }}{% endraw %}{# comment #}{%- set x = 1 -%}  {{- x -}}  {#- c -#}",
        "{% filter upper %}a{{ b }}{% endfilter %}{% set z | trim | upper %} body {% endset %}{% include \"inc\" %}",
        "{{ \"a\" ~ 'b' ~ `c` ~ 1 }}{{ a in [1,2] }}{{ a not in s }}{{ a is not odd }}{{ 1 if a else 2 }}{{ [x * 2 for x in xs if x is odd] }}{{ [v for k, v in m] }}",
        "{{ range(end=5, start=1) | join(sep=\", \") }}{{ -a ** 2 | abs }}{{ not (a == b) != (c <= d) }}{{ a.b.c[d.e][\"f\"] }}",
    ]
    .iter()
    .map(|s| s.to_string())
    .collect()
}

fn load_seeds() -> Vec<String> {
    let mut out = builtin_seeds();
    fn walk(dir: &std::path::Path, out: &mut Vec<String>) {
        if let Ok(rd) = std::fs::read_dir(dir) {
            let mut entries: Vec<_> = rd.flatten().map(|e| e.path()).collect();
            entries.sort();
            for p in entries {
                if p.is_dir() {
                    walk(&p, out);
                } else if p.extension().map(|e| e == "txt").unwrap_or(false) {
                    if let Ok(s) = std::fs::read_to_string(&p) {
                        if s.len() < 8000 {
                            out.push(s);
                        }
                    }
                }
            }
        }
    }
    for d in ["parser_inputs", "rendering_inputs", "lexer_inputs", "compiler_inputs", "build_errors"] {
        walk(&std::path::Path::new("/repo/tera/src/snapshot_tests").join(d), &mut out);
    }
    out
}

/// split into rough tokens: delimiters, words, single punctuation, whitespace runs
fn rough_tokens(s: &str) -> Vec<&str> {
    let mut out = Vec::new();
    let b = s.as_bytes();
    let mut i = 0;
    while i < b.len() {
        let start = i;
        let c = s[i..].chars().next().unwrap();
        if c.is_alphanumeric() || c == '_' {
            while i < b.len() {
                let c = s[i..].chars().next().unwrap();
                if c.is_alphanumeric() || c == '_' {
                    i += c.len_utf8();
                } else {
                    break;
                }
            }
        } else if c.is_whitespace() {
            while i < b.len() {
                let c = s[i..].chars().next().unwrap();
                if c.is_whitespace() {
                    i += c.len_utf8();
                } else {
                    break;
                }
            }
        } else if i + 2 <= b.len() && s.is_char_boundary(i + 2) && ["{{", "}}", "{%", "%}", "{#", "#}"].contains(&&s[i..i + 2]) {
            i += 2;
        } else {
            i += c.len_utf8();
        }
        out.push(&s[start..i]);
    }
    out
}

fn mutate(rng: &mut Rng, seed: &str) -> String {
    let mut toks: Vec<String> = rough_tokens(seed).into_iter().map(|x| x.to_string()).collect();
    let nmut = 1 + rng.below(4);
    for _ in 0..nmut {
        if toks.is_empty() {
            toks.push(PIECES[rng.below(PIECES.len())].to_string());
            continue;
        }
        let i = rng.below(toks.len());
        match rng.below(9) {
            0 => {
                toks.remove(i);
            }
            1 => {
                let t = toks[i].clone();
                toks.insert(i, t);
            }
            2 => {
                let j = rng.below(toks.len());
                toks.swap(i, j);
            }
            3 => toks.insert(i, PIECES[rng.below(PIECES.len())].to_string()),
            4 => toks[i] = PIECES[rng.below(PIECES.len())].to_string(),
            5 => {
                // truncate at a byte (moved to a character boundary): unterminated constructs of every kind
                let mut s = toks.concat();
                let mut cut = rng.below(s.len() + 1);
                while !s.is_char_boundary(cut) {
                    cut -= 1;
                }
                s.truncate(cut);
                return s;
            }
            6 => {
                // wrong end names / unbalanced ends
                toks.insert(i, format!("{{% {} %}}", rng.pick(&["endif", "endfor", "endblock zz", "endfilter", "endset", "endcomponent q", "endraw", "else", "elif x", "</c>"])));
            }
            7 => {
                // a multi-byte character right next to a delimiter
                toks.insert(i, rng.pick(&["é", "日", "😀", "\u{a0}", "Â", "\u{301}"]).to_string());
            }
            _ => {
                let n = 2 + rng.below(40);
                let t = toks[i].clone();
                toks[i] = t.repeat(n);
            }
        }
    }
    toks.concat()
}

fn soup(rng: &mut Rng, extra: &[String]) -> String {
    let k = rng.below(28);
    let mut s = String::new();
    for _ in 0..k {
        if !extra.is_empty() && rng.chance(1, 3) {
            s.push_str(&extra[rng.below(extra.len())]);
        } else {
            s.push_str(PIECES[rng.below(PIECES.len())]);
        }
        if rng.bool() {
            s.push(' ');
        }
    }
    s
}

/// nested constructs: (name, open, close, innermost)
const NESTS: [(&str, &str, &str, &str); 22] = [
    ("paren", "{{ ", " }}", "1"),
    ("array", "{{ ", " }}", "1"),
    ("map", "{{ ", " }}", "1"),
    ("ternary", "{{ ", " }}", "1"),
    ("unary-minus", "{{ ", " }}", "1"),
    ("unary-not", "{{ ", " }}", "x"),
    ("filter-arg", "{{ ", " }}", "1"),
    ("subscript", "{{ ", " }}", "0"),
    ("fn-arg", "{{ ", " }}", "1"),
    ("if-tag", "", "", "x"),
    ("for-tag", "", "", "x"),
    ("filter-tag", "", "", "x"),
    ("set-block", "", "", "x"),
    ("block-tag", "", "", "x"),
    ("component-body", "", "", "x"),
    ("component-arg", "{{ ", " }}", "1"),
    ("comprehension", "{{ ", " }}", "[1]"),
    ("mixed-brackets", "{{ ", " }}", "1"),
    ("not-paren", "{{ ", " }}", "x"),
    ("string-concat-paren", "{{ ", " }}", "\"a\""),
    ("elif-nest", "", "", "x"),
    ("component-def", "", "", "x"),
];

fn nested(kind: &str, d: usize) -> String {
    let rep = |s: &str| s.repeat(d);
    match kind {
        "paren" => format!("{{{{ {}1{} }}}}", rep("("), rep(")")),
        "array" => format!("{{{{ {}1{} }}}}", rep("["), rep("]")),
        "map" => format!("{{{{ {}1{} }}}}", rep("{\"k\": "), rep("} ")),
        "ternary" => format!("{{{{ {}1{} }}}}", rep("(1 if "), rep(" else 2)")),
        "unary-minus" => format!("{{{{ {}1 }}}}", rep("-")),
        "unary-not" => format!("{{{{ {}x }}}}", rep("not ")),
        "filter-arg" => format!("{{{{ {}1{} }}}}", rep("1 | default(value="), rep(")")),
        "subscript" => format!("{{{{ {}0{} }}}}", rep("a["), rep("]")),
        "fn-arg" => format!("{{{{ {}1{} }}}}", rep("range(end="), rep(")")),
        "if-tag" => format!("{}x{}", rep("{% if a %}"), rep("{% endif %}")),
        "for-tag" => format!("{}x{}", rep("{% for a in b %}"), rep("{% endfor %}")),
        "filter-tag" => format!("{}x{}", rep("{% filter upper %}"), rep("{% endfilter %}")),
        "set-block" => format!("{}x{}", rep("{% set a %}"), rep("{% endset %}")),
        "block-tag" => (0..d).map(|i| format!("{{% block b{i} %}}")).collect::<String>() + "x" + &rep("{% endblock %}"),
        "component-body" => format!("{{% component c() %}}{{{{ body }}}}{{% endcomponent %}}{}x{}", rep("{% <c> %}"), rep("{% </c> %}")),
        "component-arg" => format!("{{% component c(a) %}}{{{{ a }}}}{{% endcomponent %}}{{{{ {}1{} }}}}", rep("<c a={"), rep("} />")),
        "comprehension" => format!("{{{{ {}[1]{} }}}}", rep("[x for x in "), rep("]")),
        "mixed-brackets" => format!("{{{{ {}1{} }}}}", rep("([{\"k\": "), rep("}])")),
        "not-paren" => format!("{{{{ {}x{} }}}}", rep("not ("), rep(")")),
        "string-concat-paren" => format!("{{{{ {}\"a\"{} }}}}", rep("(\"a\" ~ "), rep(")")),
        "elif-nest" => format!("{}x{}", rep("{% if a %}y{% elif b %}{% if c %}"), rep("{% endif %}{% endif %}")),
        "component-def" => format!("{}x{}", rep("{% component c() %}"), rep("{% endcomponent %}")),
        _ => String::new(),
    }
}

/// constructs the parser handles in a loop: each link may nest the AST one level deeper
const CHAINS: [&str; 42] = [
    "+", "-", "*", "/", "//", "%", "**", "~", "and", "or", "==", "<", "in", "is-test", "filter", "filter-args", "attr", "opt-attr", "index", "opt-index", "slice", "elif", "kwargs", "array-elems", "map-entries", "sibling-tags",
    "sibling-exprs", "text", "comments", "set-tags", "component-args", "spread", "not-in", "call-chain",
    // chains whose operands open a nested parse of their own (brace attributes and spreads of inline component calls,
    // parentheses, literals, calls, subscripts with expressions): whatever the nested parse does to the counters of the
    // enclosing chain, the chain must stay bounded
    "~component-attr", "~component-spread", "+paren", "+array", "~map", "+call", "+filter-arg", "+subscript-expr",
];

fn chain(kind: &str, n: usize) -> String {
    let rep = |s: &str| s.repeat(n);
    match kind {
        "+" | "-" | "*" | "/" | "//" | "%" | "**" | "~" | "and" | "or" | "==" | "<" | "in" => format!("{{{{ 1{} }}}}", rep(&format!(" {kind} 1"))),
        "not-in" => format!("{{{{ 1{} }}}}", rep(" not in x")),
        "is-test" => format!("{{{{ 1{} }}}}", rep(" is defined")),
        "filter" => format!("{{{{ 1{} }}}}", rep(" | abs")),
        "filter-args" => format!("{{{{ 1{} }}}}", rep(" | default(value=1)")),
        "attr" => format!("{{{{ a{} }}}}", rep(".b")),
        "opt-attr" => format!("{{{{ a{} }}}}", rep("?.b")),
        "index" => format!("{{{{ a{} }}}}", rep("[0]")),
        "opt-index" => format!("{{{{ a{} }}}}", rep("?[0]")),
        "slice" => format!("{{{{ a{} }}}}", rep("[:]")),
        "call-chain" => format!("{{{{ a{} }}}}", rep(".b[0]")),
        "elif" => format!("{{% if a %}}x{}{{% endif %}}", rep("{% elif b %}y")),
        "kwargs" => format!("{{{{ f({}) }}}}", (0..n).map(|i| format!("a{i}=1")).collect::<Vec<_>>().join(", ")),
        "array-elems" => format!("{{{{ [{}] }}}}", rep("1, ")),
        "map-entries" => format!("{{{{ {{{} }} }}}}", (0..n).map(|i| format!("\"k{i}\": 1")).collect::<Vec<_>>().join(", ")),
        "sibling-tags" => rep("{% if a %}x{% endif %}"),
        "sibling-exprs" => rep("{{ a }}"),
        "text" => rep("lorem ipsum "),
        "comments" => rep("{# c #}"),
        "set-tags" => rep("{% set a = 1 %}"),
        "component-args" => format!("{{% component c(...r) %}}x{{% endcomponent %}}{{{{ <c {} /> }}}}", (0..n).map(|i| format!("a{i}=\"v\"")).collect::<Vec<_>>().join(" ")),
        "spread" => format!("{{{{ [{}] }}}}", rep("...a, ")),
        "~component-attr" => format!("{{% component c(a=1, ...r) %}}x{{% endcomponent %}}{{{{ 1{} }}}}", rep(" ~ <c a={1} />")),
        "~component-spread" => format!("{{% component c(a=1, ...r) %}}x{{% endcomponent %}}{{{{ 1{} }}}}", rep(" ~ <c {...m} />")),
        "+paren" => format!("{{{{ 1{} }}}}", rep(" + (1)")),
        "+array" => format!("{{{{ 1{} }}}}", rep(" + [1][0]")),
        "~map" => format!("{{{{ 1{} }}}}", rep(" ~ {\"k\": 1}")),
        "+call" => format!("{{{{ 1{} }}}}", rep(" + range(end=1)")),
        "+filter-arg" => format!("{{{{ 1{} }}}}", rep(" + 1 | default(value=1 + 1)")),
        "+subscript-expr" => format!("{{{{ 1{} }}}}", rep(" + a[1 + 1]")),
        _ => String::new(),
    }
}

fn random_delims(rng: &mut Rng) -> Delimiters {
    let mut pick = || -> String {
        match rng.below(5) {
            0..=2 => TWO[rng.below(TWO.len())].to_string(),
            3 => {
                // any two ASCII bytes
                let a = (0x21 + rng.below(0x5e) as u8) as char;
                let b = (0x21 + rng.below(0x5e) as u8) as char;
                format!("{a}{b}")
            }
            _ => char::from_u32(0x80 + rng.below(0x780) as u32).map(|c| c.to_string()).unwrap_or("««".into()),
        }
    };
    let mut m: Vec<String> = (0..6).map(|_| pick()).collect();
    // one set in five has a member of the wrong size (empty, one byte, three or four bytes): set_delimiters is expected
    // to refuse it, and if it ever accepts one the lexer gets to see it
    if rng.chance(1, 5) {
        let bad = *rng.pick(&["", "#", "{", "#»", "{{{", "«»", "日", "😀", "{%-", "\u{0}"]);
        let i = rng.below(6);
        m[i] = bad.to_string();
    }
    let mut it = m.into_iter();
    let mut nx = || -> std::borrow::Cow<'static, str> { it.next().unwrap().into() };
    Delimiters { block_start: nx(), block_end: nx(), variable_start: nx(), variable_end: nx(), comment_start: nx(), comment_end: nx() }
}

struct Run<'a> {
    cx: &'a mut Cx,
}

impl<'a> Run<'a> {
    /// registers `src` (and renders it as a one-off string when `render`); anything but Ok/Err is a violation
    fn feed(&mut self, tera_proto: &Tera, name: &str, src: &str, render: bool, family: &str, what: &str) {
        let cx = &mut *self.cx;
        cx.eval();
        let r = guard(|| {
            let mut t = tera_proto.clone();
            let a = t.add_raw_template(name, src);
            let added = a.is_ok();
            if let Err(e) = &a {
                let _ = e.to_string();
            }
            let mut rendered = None;
            if render {
                let r = t.render_str(src, &Context::new(), true);
                if let Err(e) = &r {
                    let _ = e.to_string();
                }
                rendered = Some(r.is_ok());
            }
            (added, rendered)
        });
        match r {
            Ok((added, _)) => {
                cx.count(if added { "accepted" } else { "rejected" }, 1);
                cx.cell(format!("{family}|{}", if added { "accepted" } else { "rejected" }));
            }
            Err(p) => {
                cx.violation(&format!("C06/panic/{}", panic_site(&p)), format!("registering/rendering a source of family {family} ({what}) panicked: {p}; source: {:?}", clip(src, 400)), json!({"family": family, "what": what, "name": name, "source": clip(src, 4000)}));
            }
        }
    }
}

pub fn run(cx: &mut Cx) {
    let seeds = load_seeds();
    cx.counters.insert("const:seed_corpus".into(), seeds.len() as u64);
    let proto = Tera::default();
    // sweeps first (deterministic, identical in every run), then random families
    let depths: Vec<usize> = if cx.tier == Tier::Quick { vec![1, 2, 20, 30, 39, 40, 41, 42, 50, 60, 200, 5000] } else { (1..=64).chain([100, 200, 1000, 5000, 20000, 100000]).collect() };
    let lengths: Vec<usize> = if cx.tier == Tier::Quick { vec![100, 255, 256, 257, 1000, 10_000, 50_000] } else { vec![10, 100, 255, 256, 257, 300, 1000, 3000, 10_000, 30_000, 100_000, 300_000, 1_000_000] };
    let nnest = (NESTS.len() * depths.len()) as u64;
    let nchain = (CHAINS.len() * lengths.len()) as u64;
    let total = nnest + nchain + cx.total(6000, 600_000);
    let dump = cx.dump;
    let mut run = Run { cx };
    for case in run.cx.my_cases(total) {
        if case < nnest {
            let (kind, ..) = NESTS[(case as usize) / depths.len()];
            let d = depths[(case as usize) % depths.len()];
            let fam = format!("nesting:{kind}:{d}");
            run.cx.begin_case(case, &fam);
            let src = nested(kind, d);
            if dump {
                run.cx.samples.push(json!({"family": fam, "source": clip(&src, 1500), "bytes": src.len()}));
                continue;
            }
            run.feed(&proto, "t", &src, d <= 64, &format!("nesting:{kind}:{}", if d <= 39 { "within" } else if d <= 64 { "near-limit" } else { "far-beyond" }), &fam);
            run.cx.count("nesting_sweep_points", 1);
            continue;
        }
        if case < nnest + nchain {
            let k = (case - nnest) as usize;
            let kind = CHAINS[k / lengths.len()];
            let n = lengths[k % lengths.len()];
            let fam = format!("length:{kind}:{n}");
            run.cx.begin_case(case, &fam);
            let src = chain(kind, n);
            if dump {
                run.cx.samples.push(json!({"family": fam, "source": clip(&src, 1500), "bytes": src.len()}));
                continue;
            }
            // rendering is only attempted for short chains: long ones are about the parser and compiler
            run.feed(&proto, "t", &src, n <= 300, &format!("length:{kind}:{}", if n <= 256 { "short" } else if n <= 10_000 { "mid" } else { "long" }), &fam);
            run.cx.count("length_sweep_points", 1);
            run.cx.max("max:longest_source_bytes", src.len() as u64);
            continue;
        }
        let mut rng = run.cx.rng(case);
        let fam = ["corpus-mutation", "corpus-mutation", "token-soup", "delimiters", "names", "numbers", "corpus-mutation-delims", "end-tags"][(case % 8) as usize];
        let ninputs = 40;
        let mut inputs: Vec<(String, String, Option<Delimiters>)> = Vec::new();
        match fam {
            "corpus-mutation" => {
                for _ in 0..ninputs {
                    let seed = &seeds[rng.below(seeds.len())];
                    inputs.push(("t.html".into(), mutate(&mut rng, seed), None));
                }
            }
            "token-soup" => {
                for _ in 0..ninputs {
                    inputs.push(("t".into(), soup(&mut rng, &[]), None));
                }
            }
            "delimiters" | "corpus-mutation-delims" => {
                // every class of delimiter set accepted by set_delimiters, with texts built from its members
                let mut tries = 0;
                while inputs.len() < ninputs && tries < 4000 {
                    tries += 1;
                    let d = random_delims(&mut rng);
                    let mut t = Tera::default();
                    if guard(|| t.set_delimiters(d.clone()).is_ok()) != Ok(true) {
                        continue;
                    }
                    let members: Vec<String> = [&d.block_start, &d.block_end, &d.variable_start, &d.variable_end, &d.comment_start, &d.comment_end].iter().map(|x| x.to_string()).collect();
                    for _ in 0..4 {
                        let src = if fam == "delimiters" {
                            soup(&mut rng, &members)
                        } else {
                            // a corpus template re-spelled with these delimiters, then mutated
                            let seed = &seeds[rng.below(seeds.len())];
                            let re = seed.replace("{{", &members[2]).replace("}}", &members[3]).replace("{%", &members[0]).replace("%}", &members[1]).replace("{#", &members[4]).replace("#}", &members[5]);
                            mutate(&mut rng, &re)
                        };
                        inputs.push(("t".into(), src, Some(d.clone())));
                    }
                }
            }
            "end-tags" => {
                // opening and closing names of every named construct in every relation to each other: equal, a prefix,
                // an extension with more dotted parts, different, empty, stray dots
                let opens = ["card", "ui.card", "a.b.c", "x", "ui.forms.widget"];
                for _ in 0..ninputs {
                    let o = *rng.pick(&opens);
                    let c = match rng.below(10) {
                        0 => o.to_string(),
                        1 => format!("{o}.header"),
                        2 => format!("{o}.a.b.c.d"),
                        3 => o.split('.').next().unwrap_or("").to_string(),
                        4 => String::new(),
                        5 => format!("{o}."),
                        6 => format!(".{o}"),
                        7 => o.replace('.', ".."),
                        8 => "other".to_string(),
                        _ => format!("{}.{}", o, "z.".repeat(rng.below(40))),
                    };
                    let src = match rng.below(5) {
                        0 => format!("{{% <{o}> %}}x{{% </{c}> %}}"),
                        1 => format!("{{% component {o}() %}}x{{% endcomponent {c} %}}{{% <{o}> %}}y{{% </{c}> %}}"),
                        2 => format!("{{% block {} %}}x{{% endblock {c} %}}", o.replace('.', "_")),
                        3 => format!("{{% <{o} a=\"1\"> %}}{{% <{c}> %}}x{{% </{c}> %}}{{% </{o}> %}}"),
                        _ => format!("{{% <{o}> %}}{{% if true %}}x{{% </{c}> %}}{{% endif %}}"),
                    };
                    inputs.push(("t".into(), src, None));
                }
            }
            "names" => {
                for _ in 0..ninputs {
                    let name = match rng.below(8) {
                        0 => String::new(),
                        1 => "__tera_one_off".to_string(),
                        2 => crate::values::gen_string(&mut rng),
                        3 => "a/b/../c.html".to_string(),
                        4 => "\u{0}".to_string(),
                        5 => "x".repeat(rng.below(3000)),
                        6 => "日本語.html".to_string(),
                        _ => "t.html".to_string(),
                    };
                    let src = match rng.below(4) {
                        0 => format!("{{% extends \"{}\" %}}{{% block a %}}x{{% endblock %}}", name.replace('"', "")),
                        1 => format!("{{% include \"{}\" %}}", name.replace('"', "")),
                        2 => soup(&mut rng, &[]),
                        _ => "plain".to_string(),
                    };
                    inputs.push((name, src, None));
                }
            }
            _ => {
                for _ in 0..ninputs {
                    let digits = |rng: &mut Rng, max: usize| -> String { let n = 1 + rng.below(max); (0..n).map(|_| (b'0' + rng.below(10) as u8) as char).collect() };
                    let lit = match rng.below(9) {
                        0 => digits(&mut rng, 60),
                        1 => format!("{}.{}", digits(&mut rng, 400), digits(&mut rng, 400)),
                        2 => format!("1e{}", digits(&mut rng, 6)),
                        3 => format!("-{}", digits(&mut rng, 22)),
                        4 => "9223372036854775807".to_string(),
                        5 => "9223372036854775808".to_string(),
                        6 => format!("0.{}1", "0".repeat(rng.below(400))),
                        7 => format!("{}.", digits(&mut rng, 3)),
                        _ => format!(".{}", digits(&mut rng, 3)),
                    };
                    let src = match rng.below(5) {
                        0 => format!("{{{{ {lit} }}}}"),
                        1 => format!("{{{{ a[{lit}] }}}}"),
                        2 => format!("{{{{ {lit} + {lit} * {lit} }}}}"),
                        3 => format!("{{{{ a[{lit}:{lit}:{lit}] }}}}"),
                        _ => format!("{{% set a = {lit} %}}{{{{ a | int }}}}{{{{ range(end={lit}) | length }}}}"),
                    };
                    inputs.push(("t".into(), src, None));
                }
            }
        }
        if dump {
            run.cx.begin_case(case, fam);
            for (i, (name, src, d)) in inputs.iter().enumerate() {
                run.cx.samples.push(json!({"family": fam, "sub": i, "name": name, "source": clip(src, 3000), "delimiters": d.as_ref().map(|d| format!("{d:?}"))}));
            }
            run.cx.max_samples = 100;
            continue;
        }
        for (i, (name, src, d)) in inputs.iter().enumerate() {
            run.cx.begin_case(case, &format!("{fam}#{i}"));
            let engine = match d {
                None => proto.clone(),
                Some(d) => {
                    let mut t = Tera::default();
                    let _ = t.set_delimiters(d.clone());
                    run.cx.count("delimiter_sets_accepted", 1);
                    t
                }
            };
            let render = !src.contains("range");
            run.feed(&engine, name, src, render, fam, &format!("{fam}#{i}"));
        }
        if let Some((name, src, _)) = inputs.first() {
            let (n2, s2) = (name.clone(), clip(src, 300));
            run.cx.sample(|| json!({"family": fam, "name": n2, "source": s2}));
        }
    }
}
