//! C02 — expressions follow the documented operators, precedence and undefined rules.
//! Three oracles on every generated expression tree: (1) parenthesisation metamorphism (minimal parentheses implied by
//! the documented precedence table vs fully parenthesised, with redundant parentheses and arbitrary inter-token
//! whitespace), (2) reference evaluation by a model written from the documentation, (3) evaluation trace: probe
//! function calls must happen in the model's order (left to right, short-circuit, untaken branches never evaluated).
#![allow(clippy::all)]
use crate::core::{clip, guard, panic_site, Cx, Rng};
use serde_json::json;
use std::cell::RefCell;
use std::cmp::Ordering;
use tera::{Context, Kwargs, State, Tera, TeraResult, Value};

struct R(Rng);
impl R {
    fn b(&mut self, n: u64) -> u64 { self.0.below(n as usize) as u64 }
    fn p(&mut self, pct: u64) -> bool { self.b(100) < pct }
}

#[derive(Clone, Debug, PartialEq)]
enum K { B(bool), I(i128), S(String) }
#[derive(Clone, Debug)]
enum V { Undef, None, Bool(bool), Int(i128), Float(f64), Str(String), Arr(Vec<V>), Map(Vec<(K, V)>) }

fn kord(k: &K) -> (u8, i128, &str) { match k { K::B(b) => (0, *b as i128, ""), K::I(i) => (1, *i, ""), K::S(s) => (2, 0, s.as_str()) } }
impl V {
    fn truthy(&self) -> bool { match self { V::Undef | V::None => false, V::Bool(b) => *b, V::Int(i) => *i != 0, V::Float(f) => *f != 0.0, V::Str(s) => !s.is_empty(), V::Arr(a) => !a.is_empty(), V::Map(m) => !m.is_empty() } }
    fn is_num(&self) -> bool { matches!(self, V::Int(_) | V::Float(_)) }
    fn show(&self) -> String { match self { V::Undef | V::None => String::new(), V::Bool(b) => b.to_string(), V::Int(i) => i.to_string(), V::Float(f) => format!("{f:?}"), V::Str(s) => s.clone(),
        V::Arr(a) => format!("[{}]", a.iter().map(|e| e.show_in()).collect::<Vec<_>>().join(", ")),
        V::Map(m) => { let mut es: Vec<&(K, V)> = m.iter().collect(); es.sort_by(|a, b| kord(&a.0).cmp(&kord(&b.0))); format!("{{{}}}", es.iter().map(|(k, v)| format!("{}: {}", match k { K::S(s) => format!("{s:?}"), K::I(i) => i.to_string(), K::B(b) => b.to_string() }, v.show_in())).collect::<Vec<_>>().join(", ")) } } }
    fn show_in(&self) -> String { match self { V::Str(s) => format!("{s:?}"), o => o.show() } }
    fn to_tera(&self) -> Value { match self { V::Undef => Value::undefined(), V::None => Value::none(), V::Bool(b) => Value::from(*b), V::Int(i) => if let Ok(x) = i64::try_from(*i) { Value::from(x) } else { Value::from(*i) }, V::Float(f) => Value::from(*f), V::Str(s) => Value::from(s.as_str()),
        V::Arr(a) => Value::from(a.iter().map(|e| e.to_tera()).collect::<Vec<_>>()),
        V::Map(m) => { let mut out = tera::value::Map::new(); for (k, v) in m { let key = match k { K::S(s) => tera::value::Key::from(s.clone()), K::I(i) => tera::value::Key::I64(*i as i64), K::B(b) => tera::value::Key::Bool(*b) }; out.insert(key, v.to_tera()); } Value::from(out) } } }
    fn as_key(&self) -> Option<K> { match self { V::Bool(b) => Some(K::B(*b)), V::Int(i) => Some(K::I(*i)), V::Str(s) => Some(K::S(s.clone())), _ => None } }
}
fn num_cmp(a: &V, b: &V) -> Option<Ordering> { // exact mixed compare, NaN == NaN and last
    match (a, b) { (V::Int(x), V::Int(y)) => Some(x.cmp(y)),
        (V::Float(x), V::Float(y)) => Some(if x.is_nan() || y.is_nan() { (x.is_nan() as u8).cmp(&(y.is_nan() as u8)) } else { x.partial_cmp(y).unwrap() }),
        (V::Float(x), V::Int(y)) => Some(f_i(*x, *y)), (V::Int(x), V::Float(y)) => Some(f_i(*y, *x).reverse()), _ => None } }
fn f_i(x: f64, n: i128) -> Ordering { if x.is_nan() { return Ordering::Greater; } if x >= 1.7014118346046923e38 { return Ordering::Greater; } if x < -1.7014118346046923e38 { return Ordering::Less; } let fl = x.floor(); match (fl as i128).cmp(&n) { Ordering::Equal if x > fl => Ordering::Greater, o => o } }
fn veq(a: &V, b: &V) -> bool { match (a, b) { (V::Undef, V::Undef) | (V::None, V::None) => true, (V::Bool(x), V::Bool(y)) => x == y, (V::Str(x), V::Str(y)) => x == y, (V::Arr(x), V::Arr(y)) => x.len() == y.len() && x.iter().zip(y).all(|(p, q)| veq(p, q)),
    (V::Map(x), V::Map(y)) => x.len() == y.len() && x.iter().all(|(k, v)| y.iter().any(|(k2, v2)| k == k2 && veq(v, v2))), (x, y) if x.is_num() && y.is_num() => num_cmp(x, y) == Some(Ordering::Equal), _ => false } }
fn vpcmp(a: &V, b: &V) -> Option<Ordering> { match (a, b) { (V::None, V::None) => Some(Ordering::Equal),
    // ordering two undefined values is documented nowhere; the long-standing behaviour (they are equal) is accepted
    (V::Undef, V::Undef) => Some(Ordering::Equal), (V::Bool(x), V::Bool(y)) => Some(x.cmp(y)), (V::Str(x), V::Str(y)) => Some(x.cmp(y)),
    (V::Arr(x), V::Arr(y)) => { for (p, q) in x.iter().zip(y) { match vpcmp(p, q) { Some(Ordering::Equal) => {}, o => return o } } Some(x.len().cmp(&y.len())) }
    (x, y) if x.is_num() && y.is_num() => num_cmp(x, y), _ => None } }

#[derive(Clone, Debug)]
enum E { Lit(V), Arr(Vec<E>), Map(Vec<(String, E)>), Var(String), Attr(Box<E>, String, bool), Item(Box<E>, Box<E>, bool), Slice(Box<E>, Option<Box<E>>, Option<Box<E>>, Option<Box<E>>),
    Neg(Box<E>), Not(Box<E>), Bin(&'static str, Box<E>, Box<E>), Tern(Box<E>, Box<E>, Box<E>), Filt(Box<E>, &'static str, Option<Box<E>>), Test(Box<E>, &'static str, bool), Probe(u64, V), Comp(Box<E>, Box<E>, Option<Box<E>>),
    /// `...e` as an item of an array literal or an entry of a map literal (the key of such an entry is ignored)
    Spread(Box<E>) }

thread_local! { static TRACE: RefCell<Vec<u64>> = RefCell::new(vec![]); }
struct Ev<'a> { env: &'a Vec<(String, V)>, trace: Vec<u64>, locals: Vec<(String, V)> }
type Res = Result<V, ()>;
impl<'a> Ev<'a> {
    fn lookup(&self, n: &str) -> V { for (k, v) in self.locals.iter().rev() { if k == n { return v.clone(); } } self.env.iter().find(|(k, _)| k == n).map(|(_, v)| v.clone()).unwrap_or(V::Undef) }
    fn ev(&mut self, e: &E) -> Res { Ok(match e {
        E::Lit(v) => v.clone(),
        // items are evaluated left to right; a spread item must be an array, whose elements take its place
        E::Arr(es) => { let mut vals: Vec<(bool, V)> = vec![]; for x in es { match x { E::Spread(y) => vals.push((true, self.ev(y)?)), x => vals.push((false, self.ev(x)?)) } } let mut out = vec![]; for (sp, v) in vals { if sp { let V::Arr(a) = v else { return Err(()) }; out.extend(a); } else { out.push(v); } } V::Arr(out) }
        E::Spread(_) => return Err(()),
        // entries are evaluated left to right; a spread entry must be a map; the rightmost definition of a key wins
        E::Map(es) => { let mut vals: Vec<(Option<K>, V)> = vec![]; for (k, x) in es { match x { E::Spread(y) => vals.push((None, self.ev(y)?)), x => vals.push((Some(K::S(k.clone())), self.ev(x)?)) } }
            let mut m: Vec<(K, V)> = vec![]; let mut put = |m: &mut Vec<(K, V)>, k: K, v: V| { if let Some(p) = m.iter_mut().find(|(k2, _)| *k2 == k) { p.1 = v; } else { m.push((k, v)); } };
            for (k, v) in vals { match k { Some(k) => put(&mut m, k, v), None => { let V::Map(inner) = v else { return Err(()) }; for (k2, v2) in inner { put(&mut m, k2, v2); } } } } V::Map(m) }
        E::Var(n) => self.lookup(n), E::Probe(id, v) => { self.trace.push(*id); v.clone() }
        E::Attr(b, name, opt) => { let base = self.ev(b)?; if *opt && matches!(base, V::Undef | V::None) { V::Undef } else { match base { V::Undef => return Err(()), V::Map(m) => m.iter().find(|(k, _)| *k == K::S(name.clone())).map(|(_, v)| v.clone()).unwrap_or(V::Undef), _ => V::Undef } } }
        E::Item(b, i, opt) => { let base = self.ev(b)?; let idx = self.ev(i)?; if *opt && matches!(base, V::Undef | V::None) { V::Undef } else { if matches!(base, V::Undef) || matches!(idx, V::Undef) { return Err(()); }
            match &base { V::Map(m) => { let k = idx.as_key().ok_or(())?; m.iter().find(|(k2, _)| *k2 == k).map(|(_, v)| v.clone()).unwrap_or(V::Undef) }
                V::Arr(a) => { let V::Int(i) = idx else { return Err(()) }; let l = a.len() as i128; let j = if i < 0 { i + l } else { i }; if j >= 0 && j < l { a[j as usize].clone() } else { V::Undef } }
                V::Str(s) => { let V::Int(i) = idx else { return Err(()) }; let cs: Vec<char> = s.chars().collect(); let l = cs.len() as i128; let j = if i < 0 { i + l } else { i }; if j >= 0 && j < l { V::Str(cs[j as usize].to_string()) } else { V::Undef } }
                _ => V::Undef } } }
        E::Slice(b, s, en, st) => { let base = self.ev(b)?; let mut parts = vec![]; for p in [s, en, st] { parts.push(match p { Some(x) => Some(self.ev(x)?), None => None }); } if matches!(base, V::Undef) { return Err(()); }
            let mut ints = vec![]; for p in &parts { ints.push(match p { None | Some(V::None) => None, Some(V::Int(i)) => Some(*i), _ => return Err(()) }); }
            let step = ints[2].unwrap_or(1); if step == 0 { return Err(()); }
            fn sl<T: Clone>(items: &[T], s: Option<i128>, e: Option<i128>, step: i128) -> Vec<T> { let len = items.len() as i128; let (lo, hi) = if step > 0 { (0, len) } else { (-1, len - 1) }; let res = |p: Option<i128>, d: i128| match p { None => d, Some(p) => { let p = if p < 0 { p.saturating_add(len) } else { p }; p.max(lo).min(hi) } }; let (mut i, e) = (res(s, if step > 0 { lo } else { hi }), res(e, if step > 0 { hi } else { lo })); let mut out = vec![]; while if step > 0 { i < e } else { i > e } { out.push(items[i as usize].clone()); i = i.saturating_add(step); } out }
            match &base { V::Arr(a) => V::Arr(sl(a, ints[0], ints[1], step)), V::Str(s) => { let cs: Vec<char> = s.chars().collect(); V::Str(sl(&cs, ints[0], ints[1], step).into_iter().collect()) } _ => return Err(()) } }
        E::Neg(a) => match self.ev(a)? { V::Int(i) => V::Int(i.checked_neg().ok_or(())?), V::Float(f) => V::Float(-f), _ => return Err(()) },
        E::Not(a) => V::Bool(!self.ev(a)?.truthy()),
        E::Tern(c, t, f) => if self.ev(c)?.truthy() { self.ev(t)? } else { self.ev(f)? },
        E::Bin("and", a, b) => { let l = self.ev(a)?; if !l.truthy() { l } else { self.ev(b)? } }
        E::Bin("or", a, b) => { let l = self.ev(a)?; if l.truthy() { l } else { self.ev(b)? } }
        E::Bin(op, a, b) => { let l = self.ev(a)?; let r = self.ev(b)?; match *op {
            "==" => V::Bool(veq(&l, &r)), "!=" => V::Bool(!veq(&l, &r)),
            "<" | "<=" | ">" | ">=" => { let o = vpcmp(&l, &r).ok_or(())?; V::Bool(match *op { "<" => o == Ordering::Less, "<=" => o != Ordering::Greater, ">" => o == Ordering::Greater, _ => o != Ordering::Less }) }
            "~" => V::Str(format!("{}{}", l.show(), r.show())),
            "in" | "not in" => { let c = match &r { V::Arr(a) => a.iter().any(|x| veq(x, &l)), V::Str(s) => matches!(&l, V::Str(n) if s.contains(n.as_str())), V::Map(m) => l.as_key().map(|k| m.iter().any(|(k2, _)| *k2 == k)).unwrap_or(false), _ => return Err(()) }; V::Bool(c == (*op == "in")) }
            _ => { if !l.is_num() || !r.is_num() { return Err(()); } let fl = matches!(l, V::Float(_)) || matches!(r, V::Float(_)); let tf = |v: &V| match v { V::Int(i) => *i as f64, V::Float(f) => *f, _ => unreachable!() };
                if *op == "/" { if tf(&r) == 0.0 { return Err(()); } V::Float(tf(&l) / tf(&r)) }
                else if fl || (*op == "**" && matches!(r, V::Int(i) if i < 0)) { let (x, y) = (tf(&l), tf(&r)); match *op { "+" => V::Float(x + y), "-" => V::Float(x - y), "*" => V::Float(x * y), "//" => { if y == 0.0 { return Err(()); } V::Float(x.div_euclid(y)) } "%" => { if y == 0.0 { return Err(()); } V::Float(x.rem_euclid(y)) } _ => V::Float(x.powf(y)) } }
                else { let (V::Int(x), V::Int(y)) = (&l, &r) else { unreachable!() }; let (x, y) = (*x, *y); V::Int(match *op { "+" => x.checked_add(y), "-" => x.checked_sub(y), "*" => x.checked_mul(y),
                    "//" => { if y == 0 { return Err(()); } x.checked_div_euclid(y) } "%" => { if y == 0 { return Err(()); } if y == -1 { Some(0) } else { x.checked_rem_euclid(y) } }
                    _ => { if let Ok(e) = u32::try_from(y) { x.checked_pow(e) } else if (-1..=1).contains(&x) { Some(if x == -1 && y % 2 == 0 { 1 } else { x }) } else { None } } }.ok_or(())?) } } } }
        E::Filt(a, name, arg) => { let v = self.ev(a)?; let argv = match arg { Some(x) => Some(self.ev(x)?), None => None }; match *name {
            "default" => if matches!(v, V::Undef) { argv.unwrap() } else { v },
            "length" => match &v { V::Arr(a) => V::Int(a.len() as i128), V::Str(s) => V::Int(s.chars().count() as i128), V::Map(m) => V::Int(m.len() as i128), _ => return Err(()) },
            "upper" => match &v { V::Str(s) => V::Str(s.to_uppercase()), _ => return Err(()) },
            "str" => V::Str(v.show()),
            "first" => match &v { V::Arr(a) => a.first().cloned().unwrap_or(V::None), _ => return Err(()) }, "last" => match &v { V::Arr(a) => a.last().cloned().unwrap_or(V::None), _ => return Err(()) },
            "reverse" => match &v { V::Arr(a) => V::Arr(a.iter().rev().cloned().collect()), V::Str(s) => V::Str(s.chars().rev().collect()), _ => return Err(()) },
            "abs" => match &v { V::Int(i) => V::Int(i.checked_abs().ok_or(())?), V::Float(f) => V::Float(f.abs()), _ => return Err(()) },
            _ => unreachable!() } }
        E::Test(a, name, neg) => { let v = self.ev(a)?; let r = match *name { "defined" => !matches!(v, V::Undef), "undefined" => matches!(v, V::Undef), "string" => matches!(v, V::Str(_)), "number" => v.is_num(), "integer" => matches!(v, V::Int(_)), "float" => matches!(v, V::Float(_)), "none" => matches!(v, V::None), "array" => matches!(v, V::Arr(_)), "map" => matches!(v, V::Map(_)), "bool" => matches!(v, V::Bool(_)), "iterable" => matches!(v, V::Arr(_) | V::Map(_) | V::Str(_)),
            "odd" => match v { V::Int(i) => i % 2 != 0, _ => return Err(()) }, "even" => match v { V::Int(i) => i % 2 == 0, _ => return Err(()) }, _ => unreachable!() }; V::Bool(r != *neg) }
        E::Comp(item, target, cond) => { let t = self.ev(target)?; let elems: Vec<V> = match t { V::Arr(a) => a, V::Str(s) => s.chars().map(|c| V::Str(c.to_string())).collect(), _ => return Err(()) }; let mut out = vec![];
            for el in elems { self.locals.push(("it".into(), el)); let keep = match cond { Some(c) => match self.ev(c) { Ok(v) => v.truthy(), Err(()) => { self.locals.pop(); return Err(()); } }, None => true }; if keep { match self.ev(item) { Ok(v) => out.push(v), Err(()) => { self.locals.pop(); return Err(()); } } } self.locals.pop(); } V::Arr(out) }
    }) }
}

// ---- printing
fn lvl(op: &str) -> u8 { match op { "or" => 1, "and" => 2, "in" | "not in" => 4, "==" | "!=" | "<" | "<=" | ">" | ">=" => 5, "+" | "-" => 6, "*" | "/" | "//" | "%" | "~" => 7, "**" => 8, _ => unreachable!() } }
fn prec(e: &E) -> u8 { match e { E::Lit(V::Int(i)) if *i < 0 => 10, E::Lit(V::Float(f)) if *f < 0.0 || (*f == 0.0 && f.is_sign_negative()) => 10, E::Lit(_) | E::Var(_) | E::Arr(_) | E::Map(_) | E::Probe(..) | E::Comp(..) | E::Spread(_) => 12, E::Attr(..) | E::Item(..) | E::Slice(..) => 11, E::Neg(_) => 10, E::Not(_) => 3, E::Bin(op, ..) => lvl(op), E::Tern(..) => 0, E::Filt(..) => 9, E::Test(..) => 4 } }
/// A string literal in one of the three quote styles, with the documented escapes (`\\ \" \' \/ \n \t \r`); the
/// style is a function of the text so that every spelling of an expression agrees
fn str_lit(s: &str) -> String {
    let h = s.bytes().fold(s.len() as u32, |a, b| a.wrapping_mul(31).wrapping_add(b as u32));
    // a back-quoted string cannot contain a back quote (there is no escape for it)
    let q = match ['"', '\'', '`'][(h % 3) as usize] { '`' if s.contains('`') => '"', q => q };
    let mut o = String::new();
    o.push(q);
    for c in s.chars() {
        match c {
            '\\' => o.push_str("\\\\"),
            '\n' => o.push_str("\\n"),
            '\t' => o.push_str("\\t"),
            '\r' => o.push_str("\\r"),
            c if c == q => { o.push('\\'); o.push(c); }
            // the other quote characters and `/` may be escaped or not
            '"' | '\'' | '/' if (h >> 3) % 2 == 0 => { o.push('\\'); o.push(c); }
            c => o.push(c),
        }
    }
    o.push(q);
    o
}
fn lit(v: &V) -> String { match v { V::None => "none".into(), V::Bool(b) => b.to_string(), V::Int(i) => i.to_string(), V::Float(f) => { let s = format!("{f:?}"); if s.contains('e') { format!("{:.1}", f) } else { s } } V::Str(s) => str_lit(s), V::Arr(a) => format!("[{}]", a.iter().map(lit).collect::<Vec<_>>().join(", ")), _ => unreachable!() } }
struct P<'r> { r: &'r mut R, full: bool }
impl<'r> P<'r> {
    fn ws(&mut self) -> &'static str { if self.full { " " } else { [" ", " ", "  ", "\n", " \t "][self.r.b(5) as usize] } }
    fn wrap(&mut self, e: &E, need: bool) -> String { let s = self.pr(e); let extra = !self.full && self.r.p(8); if need || self.full || extra { format!("({s})") } else { s } }
    fn starts_unary(e: &E) -> bool { match e { E::Neg(_) | E::Not(_) => true, E::Lit(V::Int(i)) => *i < 0, E::Lit(V::Float(f)) => f.is_sign_negative(), E::Bin(_, a, _) | E::Tern(_, a, _) | E::Filt(a, ..) | E::Test(a, ..) | E::Attr(a, ..) | E::Item(a, ..) | E::Slice(a, ..) => Self::starts_unary(a), _ => false } }
    fn pr(&mut self, e: &E) -> String { let w = self.ws(); match e {
        // the alternative spellings of the constants (True/False, None/null) in the free spelling
        E::Lit(V::Bool(b)) if !self.full && self.r.p(25) => (if *b { "True" } else { "False" }).to_string(), E::Lit(V::None) if !self.full && self.r.p(40) => ["None", "null"][self.r.b(2) as usize].to_string(),
        E::Lit(v) => lit(v), E::Var(n) => n.clone(), E::Probe(id, v) => format!("probe(id={id},{w}v={})", lit(v)),
        E::Arr(es) => format!("[{}]", es.iter().map(|x| self.pr(x)).collect::<Vec<_>>().join(", ")), E::Map(es) => format!("{{{} }}", es.iter().map(|(k, x)| if matches!(x, E::Spread(_)) { self.pr(x) } else { format!("\"{k}\": {}", self.pr(x)) }).collect::<Vec<_>>().join(", ")),
        // everything up to the next `,` or closing bracket belongs to the spread: no parentheses needed
        E::Spread(a) => format!("...{}", self.wrap(a, false)),
        E::Attr(b, n, o) => format!("{}{}{n}", self.wrap_post(b), if *o { "?." } else { "." }), E::Item(b, i, o) => format!("{}{}{}]", self.wrap_post(b), if *o { "?[" } else { "[" }, self.pr(i)),
        E::Slice(b, s, en, st) => { let mut t = format!("{}[", self.wrap_post(b)); if let Some(x) = s { t += &self.pr(x); } t += ":"; if let Some(x) = en { t += &self.pr(x); } if let Some(x) = st { t += ":"; t += &self.pr(x); } t + "]" }
        E::Neg(a) => { let need = prec(a) < 10 || Self::starts_unary(a); format!("-{}", self.wrap(a, need)) }
        E::Not(a) => { let need = prec(a) < 3 || Self::starts_unary(a); format!("not{w}{}", self.wrap(a, need)) }
        E::Bin(op, a, b) => { let p = lvl(op); let (ln, mut rn) = if *op == "**" { (prec(a) <= p, prec(b) < p) } else { (prec(a) < p, prec(b) <= p) }; if *op == "~" && Self::starts_unary(b) { rn = true; } format!("{}{w}{op}{w}{}", self.wrap(a, ln), self.wrap(b, rn)) }
        E::Tern(c, t, f) => format!("{}{w}if{w}{}{w}else{w}{}", self.wrap(t, prec(t) == 0), self.wrap(c, prec(c) == 0), self.wrap(f, prec(f) == 0)),
        E::Filt(a, n, arg) => { let s = self.wrap(a, prec(a) < 9); match arg { Some(x) => format!("{s}{w}|{w}{n}(value={})", self.pr(x)), None => format!("{s}{w}|{w}{n}") } }
        E::Test(a, n, neg) => format!("{}{w}is{w}{}{n}", self.wrap(a, prec(a) < 4), if *neg { "not " } else { "" }),
        E::Comp(item, target, cond) => { let t = self.wrap(target, prec(target) == 0); let i = self.wrap(item, prec(item) == 0); match cond { Some(c) => format!("[{i} for it in {t} if {}]", self.wrap(c, prec(c) == 0)), None => format!("[{i} for it in {t}]") } }
    } }
    // postfix base: the parser only continues `.`/`?.`/`?[` after identifiers; `[` after any primary. Keep bases that are identifiers/paths (or parenthesised anything for `[`).
    fn wrap_post(&mut self, b: &E) -> String { self.pr(b) }
}
// does the tree contain `~` with an rhs that is (or starts with) a unary token — unsupported by the parser even in parens when rhs is a Unary node
fn bad_tilde(e: &E) -> bool { let mut bad = false; walk(e, &mut |x| if let E::Bin("~", _, b) = x { if matches!(**b, E::Neg(_) | E::Not(_) | E::Bin("not in", ..) | E::Test(_, _, true)) || matches!(**b, E::Lit(V::Int(i)) if i < 0) || matches!(**b, E::Lit(V::Float(f)) if f.is_sign_negative()) { bad = true; } }); bad }
fn walk(e: &E, f: &mut dyn FnMut(&E)) { f(e); match e { E::Arr(es) => es.iter().for_each(|x| walk(x, f)), E::Map(es) => es.iter().for_each(|(_, x)| walk(x, f)), E::Attr(a, ..) | E::Neg(a) | E::Not(a) | E::Test(a, ..) | E::Spread(a) => walk(a, f), E::Item(a, b, _) | E::Bin(_, a, b) => { walk(a, f); walk(b, f) }
    E::Slice(a, b, c, d) => { walk(a, f); for x in [b, c, d].into_iter().flatten() { walk(x, f); } } E::Tern(a, b, c) => { walk(a, f); walk(b, f); walk(c, f) } E::Filt(a, _, arg) => { walk(a, f); if let Some(x) = arg { walk(x, f); } } E::Comp(a, b, c) => { walk(a, f); walk(b, f); if let Some(x) = c { walk(x, f); } } _ => {} } }

// ---- generation (kind-directed)
#[derive(Clone, Copy, PartialEq)] enum T { Num, Str, Bool, Arr, Map, Any }
struct G<'r> { r: &'r mut R, pid: u64, in_comp: bool }
impl<'r> G<'r> {
    fn leaf(&mut self, t: T) -> E { let r = &mut *self.r; match t {
        // now and then the extremes of the integer range and floats just outside it
        T::Num if r.p(4) => E::Var(["big", "nbig", "hf", "nhf"][r.b(4) as usize].into()),
        T::Num => match r.b(8) { 0 => E::Var("n".into()), 1 => E::Var("f".into()), 2 => E::Lit(V::Float([0.5, 2.0, -1.5, 0.0][r.b(4) as usize])), 3 => { self.pid += 1; E::Probe(self.pid, V::Int(r.b(4) as i128)) } 4 => E::Attr(Box::new(E::Var("m".into())), "n".into(), false), 5 => E::Lit(V::Int(-(r.b(3) as i128))), _ => E::Lit(V::Int(r.b(5) as i128)) },
        T::Str => match r.b(6) { 0 => E::Var("s".into()), 1 => E::Attr(Box::new(E::Var("m".into())), "s".into(), false), 2 => { self.pid += 1; E::Probe(self.pid, V::Str("p".into())) } 3 => E::Lit(V::Str("".into())), _ => E::Lit(V::Str(["a", "b", "ab", "é", "a\"b", "it's", "b\\s", "l\nb", "t\tb", "q`t", "sl/ash", "c\rd"][r.b(12) as usize].into())) },
        T::Bool => match r.b(5) { 0 => E::Var("t".into()), 1 => E::Lit(V::Bool(false)), 2 => { self.pid += 1; E::Probe(self.pid, V::Bool(r.b(2) == 0)) } 3 => E::Lit(V::None), _ => E::Lit(V::Bool(true)) },
        T::Arr => match r.b(4) { 0 => E::Var("xs".into()), 1 => E::Lit(V::Arr(vec![])), 2 => E::Attr(Box::new(E::Var("m".into())), "xs".into(), false), _ => E::Lit(V::Arr(vec![V::Int(1), V::Int(2), V::Str("a".into())])) },
        T::Map => E::Var("m".into()),
        T::Any => match r.b(11) { 9 => E::Var("nn".into()), 10 => E::Attr(Box::new(E::Var("nn".into())), "y".into(), r.b(2) == 0), 0 => E::Var("u".into()), 1 => E::Attr(Box::new(E::Var("m".into())), "zz".into(), false), 2 => E::Attr(Box::new(E::Attr(Box::new(E::Var("m".into())), "zz".into(), r.b(3) == 0)), "y".into(), r.b(2) == 0), 3 => E::Attr(Box::new(E::Var("u".into())), "y".into(), r.b(2) == 0), 4 if self.in_comp => E::Var("it".into()), _ => { let t = [T::Num, T::Str, T::Bool, T::Arr, T::Map][r.b(5) as usize]; return self.leaf(t); } } } }
    fn g(&mut self, t: T, d: u32) -> E { if d == 0 || self.r.p(20) { return self.leaf(t); } let bx = |e| Box::new(e);
        let t2 = if self.r.p(12) { T::Any } else { t }; // sometimes ill-typed on purpose
        match t2 {
            T::Num => match self.r.b(10) { 0 => E::Neg(bx(self.g(T::Num, d - 1))), 1 => E::Filt(bx(self.g(T::Arr, d - 1)), "length", None), 2 => E::Filt(bx(self.g(T::Num, d - 1)), "abs", None), 3 => E::Tern(bx(self.g(T::Bool, d - 1)), bx(self.g(T::Num, d - 1)), bx(self.g(T::Any, d - 1))), 4 => E::Item(bx(self.g(T::Arr, d - 1)), bx(self.g(T::Num, d - 1)), self.r.p(20)),
                5 => E::Filt(bx(self.g(T::Any, d - 1)), "default", Some(bx(self.g(T::Num, d - 1)))), _ => { let op = ["+", "-", "*", "/", "//", "%", "**"][self.r.b(7) as usize]; E::Bin(op, bx(self.g(T::Num, d - 1)), bx(self.g(T::Num, d - 1))) } },
            T::Str => match self.r.b(7) { 0 => { let k = if self.r.p(50) { T::Num } else { T::Str }; E::Bin("~", bx(self.g(T::Str, d - 1)), bx(self.g(k, d - 1))) } 1 => E::Filt(bx(self.g(T::Str, d - 1)), "upper", None), 2 => E::Filt(bx(self.g(T::Num, d - 1)), "str", None), 3 => E::Slice(bx(self.g(T::Str, d - 1)), if self.r.p(50) { Some(bx(self.g(T::Num, d - 1))) } else { None }, if self.r.p(50) { Some(bx(self.g(T::Num, d - 1))) } else { None }, if self.r.p(30) { Some(bx(self.g(T::Num, d - 1))) } else { None }),
                4 => E::Bin("or", bx(self.g(T::Any, d - 1)), bx(self.g(T::Str, d - 1))), 5 => E::Filt(bx(self.g(T::Str, d - 1)), "reverse", None), _ => E::Tern(bx(self.g(T::Bool, d - 1)), bx(self.g(T::Str, d - 1)), bx(self.g(T::Str, d - 1))) },
            T::Bool => match self.r.b(9) { 0 => E::Not(bx(self.g(T::Any, d - 1))), 1 => E::Bin(["and", "or"][self.r.b(2) as usize], bx(self.g(T::Any, d - 1)), bx(self.g(T::Any, d - 1))), 2 => { let k = [T::Num, T::Str, T::Arr][self.r.b(3) as usize]; E::Bin(["<", "<=", ">", ">="][self.r.b(4) as usize], bx(self.g(k, d - 1)), bx(self.g(k, d - 1))) }
                3 => E::Bin(["==", "!="][self.r.b(2) as usize], bx(self.g(T::Any, d - 1)), bx(self.g(T::Any, d - 1))), 4 => { let k = if self.r.p(50) { T::Num } else { T::Str }; let c = [T::Arr, T::Str, T::Map][self.r.b(3) as usize]; E::Bin(["in", "not in"][self.r.b(2) as usize], bx(self.g(k, d - 1)), bx(self.g(c, d - 1))) }
                5 | 6 => E::Test(bx(self.g(T::Any, d - 1)), ["defined", "undefined", "string", "number", "integer", "float", "none", "array", "map", "bool", "iterable", "odd", "even"][self.r.b(13) as usize], self.r.p(30)), _ => E::Bin(["and", "or"][self.r.b(2) as usize], bx(self.g(T::Bool, d - 1)), bx(self.g(T::Bool, d - 1))) },
            T::Arr => match self.r.b(6) { 0 => E::Arr((0..self.r.b(3)).map(|_| self.g(T::Any, d - 1)).collect()), 1 => E::Slice(bx(self.g(T::Arr, d - 1)), Some(bx(self.g(T::Num, d - 1))), None, None), 2 => E::Filt(bx(self.g(T::Arr, d - 1)), "reverse", None),
                3 if !self.in_comp => { self.in_comp = true; let item = self.g(T::Any, d - 1); let cond = if self.r.p(50) { Some(bx(self.g(T::Bool, d - 1))) } else { None }; self.in_comp = false; let target = self.g(T::Arr, d - 1); E::Comp(bx(item), bx(target), cond) }
                4 => { let n = 1 + self.r.b(3); E::Arr((0..n).map(|_| if self.r.p(60) { E::Spread(bx(self.g(T::Arr, d - 1))) } else { self.g(T::Any, d - 1) }).collect()) }
                _ => E::Arr(vec![self.g(T::Num, d - 1), self.g(T::Str, d - 1)]) },
            T::Map => match self.r.b(4) { 0 | 1 => E::Map(vec![("k".into(), self.g(T::Any, d - 1)), ("n".into(), self.g(T::Num, d - 1))]),
                // spreads before, between and after plain entries, with keys the spread map has too (`n`, `s`) and keys it has not
                2 => { let n = 1 + self.r.b(3); E::Map((0..n).map(|_| if self.r.p(50) { (String::new(), E::Spread(bx(self.g(T::Map, d - 1)))) } else { (["n", "s", "k", "zq"][self.r.b(4) as usize].to_string(), self.g(T::Any, d - 1)) }).collect()) }
                _ => self.leaf(T::Map) },
            T::Any => { let k = [T::Num, T::Str, T::Bool, T::Arr, T::Map][self.r.b(5) as usize]; if self.r.p(25) { E::Tern(bx(self.g(T::Any, d - 1)), bx(self.g(T::Any, d - 1)), bx(self.g(T::Any, d - 1))) } else { self.g(k, d - 1) } } } }
}
// a `.`/`?.` base must be an identifier path; an Item/Slice base may be any primary but `?[` only after identifiers. Reject trees our printer can't spell.
/// a postfix chain that starts at a variable (the only bases `.`, `?.` and `?[` are parsed after)
fn rooted(e: &E) -> bool { match e { E::Var(_) => true, E::Attr(b, ..) | E::Item(b, ..) => rooted(b), _ => false } }
fn spellable(e: &E) -> bool { let mut ok = true; walk(e, &mut |x| match x { E::Comp(_, t, _) => { let mut has_map = false; walk(t, &mut |y| if matches!(y, E::Map(_)) || matches!(y, E::Var(n) if n == "m") { has_map = true; }); if has_map { ok = false; } } E::Attr(b, ..) => if !rooted(b) { ok = false }, E::Item(b, _, o) => { if *o && !rooted(b) { ok = false } if !matches!(**b, E::Var(_) | E::Attr(..) | E::Item(..) | E::Lit(V::Arr(_)) | E::Lit(V::Str(_)) | E::Arr(_)) { ok = false } }
    E::Slice(b, ..) => if !matches!(**b, E::Var(_) | E::Attr(..) | E::Item(..) | E::Lit(V::Arr(_)) | E::Lit(V::Str(_))) { ok = false }, _ => {} }); ok }


fn op_name(e: &E) -> String {
    match e {
        E::Lit(_) => "lit".into(),
        E::Arr(_) => "array".into(),
        E::Map(_) => "map".into(),
        E::Var(_) => "var".into(),
        E::Attr(_, _, o) => if *o { "?.".into() } else { ".".into() },
        E::Item(_, _, o) => if *o { "?[".into() } else { "[]".into() },
        E::Slice(..) => "slice".into(),
        E::Neg(_) => "neg".into(),
        E::Not(_) => "not".into(),
        E::Bin(op, ..) => op.to_string(),
        E::Tern(..) => "ternary".into(),
        E::Filt(_, n, _) => format!("|{n}"),
        E::Test(_, _, neg) => if *neg { "is not".into() } else { "is".into() },
        E::Probe(..) => "call".into(),
        E::Comp(..) => "comprehension".into(),
        E::Spread(_) => "spread".into(),
    }
}

fn children(e: &E) -> Vec<(&'static str, &E)> {
    match e {
        E::Attr(a, ..) | E::Neg(a) | E::Not(a) | E::Test(a, ..) | E::Spread(a) => vec![("operand", a)],
        E::Item(a, b, _) => vec![("base", a), ("index", b)],
        E::Bin(_, a, b) => vec![("left", a), ("right", b)],
        E::Tern(c, t, f) => vec![("cond", c), ("then", t), ("else", f)],
        E::Filt(a, _, arg) => { let mut v: Vec<(&'static str, &E)> = vec![("receiver", a)]; if let Some(x) = arg { v.push(("arg", x)); } v }
        E::Slice(a, b, c, d) => { let mut v: Vec<(&'static str, &E)> = vec![("base", a)]; for x in [b, c, d].into_iter().flatten() { v.push(("bound", x)); } v }
        E::Comp(a, b, c) => { let mut v: Vec<(&'static str, &E)> = vec![("item", a), ("target", b)]; if let Some(x) = c { v.push(("cond", x)); } v }
        E::Arr(es) => es.iter().map(|x| ("elem", x)).collect(),
        E::Map(es) => es.iter().map(|(_, x)| ("value", x)).collect(),
        _ => vec![],
    }
}

fn collect_cells(e: &E, out: &mut Vec<String>) {
    let p = op_name(e);
    for (side, c) in children(e) {
        if !matches!(c, E::Lit(_) | E::Var(_) | E::Probe(..)) {
            out.push(format!("{p}|{}|{side}", op_name(c)));
        }
        collect_cells(c, out);
    }
}

/// The systematic undefined-rule matrix of MIGRATION.md: (which part is missing) x (how it is used)
fn undefined_matrix() -> Vec<(String, E)> {
    let bx = |e: E| Box::new(e);
    let var = |n: &str| E::Var(n.into());
    let attr = |b: E, n: &str, o: bool| E::Attr(Box::new(b), n.into(), o);
    let subjects: Vec<(&str, E)> = vec![
        ("missing-variable", var("u")),
        ("missing-last-field", attr(var("m"), "zz", false)),
        ("field-of-missing-field", attr(attr(var("m"), "zz", false), "y", false)),
        ("field-of-missing-variable", attr(var("u"), "y", false)),
        ("optional-field-of-missing-variable", attr(var("u"), "y", true)),
        ("optional-field-of-missing-field", attr(attr(var("m"), "zz", false), "y", true)),
        ("optional-chain-two-levels", attr(attr(var("u"), "x", true), "y", true)),
        ("field-after-optional-field-of-missing-variable", attr(attr(var("u"), "x", true), "y", false)),
        ("field-after-optional-missing-field", attr(attr(var("m"), "zz", true), "y", false)),
        ("field-after-optional-field-of-none", attr(attr(var("nn"), "x", true), "y", false)),
        ("present-field-after-optional", attr(attr(var("m"), "a", true), "b", false)),
        ("field-of-none", attr(var("nn"), "y", false)),
        ("optional-field-of-none", attr(var("nn"), "y", true)),
        ("missing-index", E::Item(bx(var("xs")), bx(E::Lit(V::Int(99))), false)),
        ("missing-key", E::Item(bx(var("m")), bx(E::Lit(V::Str("zz".into()))), false)),
        ("index-of-missing-variable", E::Item(bx(var("u")), bx(E::Lit(V::Int(0))), false)),
        ("optional-index-of-missing-variable", E::Item(bx(var("u")), bx(E::Lit(V::Int(0))), true)),
        ("optional-index-of-none", E::Item(bx(var("nn")), bx(E::Lit(V::Int(0))), true)),
        // an entry that is there and holds an undefined value behaves like a missing last field
        ("entry-holding-undefined", attr(var("mu"), "k", false)),
        ("field-of-entry-holding-undefined", attr(attr(var("mu"), "k", false), "y", false)),
        // the missing field in the middle of a path bears the same name as the last one, or as a field that exists
        ("missing-field-twice", attr(attr(var("m"), "zz", false), "zz", false)),
        ("missing-field-then-present-name", attr(attr(attr(var("m"), "a", false), "zz", false), "b", false)),
        ("missing-field-twice-deeper", attr(attr(attr(var("m"), "a", false), "b2", false), "b2", false)),
        ("present-field", attr(var("m"), "n", false)),
        ("none-variable", var("nn")),
    ];
    let mut out = Vec::new();
    for (sname, s) in subjects {
        let uses: Vec<(&str, E)> = vec![
            ("print", s.clone()),
            ("math", E::Bin("+", bx(s.clone()), bx(E::Lit(V::Int(1))))),
            ("math-right", E::Bin("*", bx(E::Lit(V::Int(2))), bx(s.clone()))),
            ("negate", E::Neg(bx(s.clone()))),
            ("equal", E::Bin("==", bx(s.clone()), bx(E::Lit(V::Int(1))))),
            ("less-than", E::Bin("<", bx(s.clone()), bx(E::Lit(V::Int(1))))),
            ("field", attr(s.clone(), "f", false)),
            ("optional-field", attr(s.clone(), "f", true)),
            ("index", E::Item(bx(s.clone()), bx(E::Lit(V::Int(0))), false)),
            ("optional-index", E::Item(bx(s.clone()), bx(E::Lit(V::Int(0))), true)),
            ("or", E::Bin("or", bx(s.clone()), bx(E::Lit(V::Str("dflt".into()))))),
            ("and", E::Bin("and", bx(s.clone()), bx(E::Lit(V::Str("rhs".into()))))),
            ("or-right", E::Bin("or", bx(E::Lit(V::Bool(false))), bx(s.clone()))),
            ("not", E::Not(bx(s.clone()))),
            ("is-defined", E::Test(bx(s.clone()), "defined", false)),
            ("is-undefined", E::Test(bx(s.clone()), "undefined", false)),
            ("is-none", E::Test(bx(s.clone()), "none", false)),
            ("default", E::Filt(bx(s.clone()), "default", Some(bx(E::Lit(V::Str("D".into())))))),
            ("ternary-condition", E::Tern(bx(s.clone()), bx(E::Lit(V::Str("T".into()))), bx(E::Lit(V::Str("F".into()))))),
            ("ternary-branch", E::Tern(bx(E::Lit(V::Bool(true))), bx(s.clone()), bx(E::Lit(V::Str("F".into()))))),
            ("concat-left", E::Bin("in", bx(E::Lit(V::Int(1))), bx(E::Arr(vec![s.clone()])))),
            ("length", E::Filt(bx(s.clone()), "length", None)),
            ("slice", E::Slice(bx(s.clone()), Some(bx(E::Lit(V::Int(0)))), None, None)),
            ("slice-bound", E::Slice(bx(var("xs")), Some(bx(s.clone())), None, None)),
            ("in-array-literal", E::Arr(vec![s.clone()])),
        ];
        for (uname, e) in uses {
            out.push((format!("{sname}|{uname}"), e));
        }
    }
    out
}

/// nesting of `[`...`]` literals along any path, comprehension brackets and literal arrays included (engine limit: 2)
fn bracket_depth(e: &E) -> usize {
    fn lit_depth(v: &V) -> usize {
        match v {
            V::Arr(a) => 1 + a.iter().map(lit_depth).max().unwrap_or(0),
            _ => 0,
        }
    }
    let own = match e {
        E::Arr(_) | E::Comp(..) => 1,
        E::Lit(v) => return lit_depth(v),
        _ => 0,
    };
    own + children(e).into_iter().map(|(_, c)| bracket_depth(c)).max().unwrap_or(0)
}

/// What counts as true, for every kind and every representation of a value (the documentation: false, none/undefined,
/// zero, and empty strings/arrays/maps are falsy), through every construct that branches on a value.
fn truthiness_matrix(cx: &mut Cx) {
    cx.begin_case(0, "truthiness-matrix");
    let src = "{{ not v }}|{% if v %}T{% else %}F{% endif %}|{{ 1 if v else 2 }}|{% if v and true %}T{% else %}F{% endif %}|{% if v or false %}T{% else %}F{% endif %}|{{ v | default(value=\"D\", boolean=true) == \"D\" }}|{% if not v %}N{% elif v %}E{% endif %}|{{ [1 for q in [1] if v] | length }}";
    let mut t = Tera::default();
    if let Err(e) = t.add_raw_template("tr", src) {
        cx.violation("C02/truthiness-template-rejected", format!("{e}"), json!({"template": src}));
        return;
    }
    let mut pool = crate::values::kind_pool();
    for extra in [crate::values::V::I128(0), crate::values::V::U128(0), crate::values::V::U64(0), crate::values::V::I128(-1), crate::values::V::U128(1), crate::values::V::I128(1 << 100), crate::values::V::F64(-0.0), crate::values::V::F64(f64::NAN), crate::values::V::F64(f64::MIN_POSITIVE)] {
        pool.push(extra);
    }
    for v in &pool {
        if matches!(v, crate::values::V::Undef) {
            continue;
        }
        let tr = crate::model::truthy(v);
        let mut c = Context::new();
        c.insert_value("v", v.to_tera());
        cx.eval();
        cx.count("truthiness_cells", 1);
        cx.cell(format!("truthiness|{}|{tr}", v.kind()));
        let exp = format!("{}|{}|{}|{}|{}|{}|{}|{}", !tr, if tr { "T" } else { "F" }, if tr { 1 } else { 2 }, if tr { "T" } else { "F" }, if tr { "T" } else { "F" }, !tr, if tr { "E" } else { "N" }, if tr { 1 } else { 0 });
        match guard(|| t.render("tr", &c).map_err(|e| e.to_string())) {
            Ok(Ok(o)) if o == exp => {}
            Ok(o) => cx.violation(&format!("C02/truthiness/{}", v.kind()), format!("{:?} (documented as {}): not|if|ternary|and|or|default(boolean)|elif|comprehension-if gave {o:?}, expected {exp:?}", v.tagged(), if tr { "truthy" } else { "falsy" }), json!({"value": v.tagged(), "template": src})),
            Err(p) => cx.violation(&format!("C02/panic/{}", panic_site(&p)), format!("truthiness of {:?} panicked: {p}", v.tagged()), json!({"value": v.tagged()})),
        }
    }
}

/// `?[a:b]` is `?[` too: a none or undefined base gives undefined (testable, defaultable, not printable), any other base is
/// sliced as usual; without the `?` the same bases are errors.
fn optional_slice_matrix(cx: &mut Cx, t: &Tera, ctx: &Context) {
    let bases: [(&str, Option<&str>); 7] = [("nn", None), ("u", None), ("m.nn", None), ("m.zz", None), ("xs", Some("[5, \"x\"]")), ("s", Some("he")), ("m.xs", Some("[0, 1]"))];
    for (base, sliced) in bases {
        for (bounds, full) in [("0:2", true), (":2", true), ("0:2:1", true), ("::1", false), ("0:", false)] {
            let forms: Vec<(String, Result<String, ()>)> = vec![
                (format!("{{{{ {base}?[{bounds}] is undefined }}}}"), Ok(sliced.is_none().to_string())),
                (format!("{{{{ {base}?[{bounds}] | default(value=\"D\") }}}}"), match sliced { None => Ok("D".to_string()), Some(x) if full => Ok(x.to_string()), Some(_) => Err(()) }),
                (format!("{{{{ {base}?[{bounds}] }}}}"), match sliced { None => Err(()), Some(x) if full => Ok(x.to_string()), Some(_) => Err(()) }),
                (format!("{{{{ {base}[{bounds}] | default(value=\"D\") }}}}"), match sliced { None => Err(()), Some(x) if full => Ok(x.to_string()), Some(_) => Err(()) }),
                (format!("{{% if {base}?[{bounds}] %}}T{{% else %}}F{{% endif %}}"), Ok(if sliced.is_some() { "T" } else { "F" }.to_string())),
            ];
            for (src, exp) in forms {
                // the unbounded forms are only asserted where the outcome does not depend on the base's length
                if !full && sliced.is_some() && !src.contains("is undefined") && !src.contains("{% if") {
                    continue;
                }
                cx.eval();
                cx.count("optional_slice_cells", 1);
                cx.cell(format!("optional-slice|{base}|{bounds}|{}", if exp.is_ok() { "value" } else { "error" }));
                match guard(|| t.render_str(&src, ctx, false).map_err(|e| e.to_string())) {
                    Ok(got) => {
                        let agree = match (&exp, &got) {
                            (Ok(a), Ok(b)) => a == b,
                            (Err(()), Err(_)) => true,
                            _ => false,
                        };
                        if !agree {
                            cx.violation("C02/optional-slice", format!("{src:?}: the documentation gives {:?}, the engine {:?}", exp.as_ref().map_err(|_| "an error"), got.as_ref().map_err(|e| clip(e, 120))), json!({"source": src}));
                        }
                    }
                    Err(p) => cx.violation(&format!("C02/panic/{}", panic_site(&p)), format!("{src} panicked: {p}"), json!({"source": src})),
                }
            }
        }
    }
}

pub fn run(cx: &mut Cx) {
    let mut t = Tera::default();
    t.register_function("probe", |kw: Kwargs, _: &State| -> TeraResult<Value> {
        let id = kw.must_get::<u64>("id")?;
        TRACE.with(|tr| tr.borrow_mut().push(id));
        Ok(kw.get::<Value>("v")?.unwrap_or(Value::none()))
    });
    // the environment binds variables to values of every kind, none included; `u` stays unbound
    let env: Vec<(String, V)> = vec![
        ("n".into(), V::Int(3)),
        ("f".into(), V::Float(2.5)),
        ("s".into(), V::Str("hey".into())),
        ("t".into(), V::Bool(true)),
        ("nn".into(), V::None),
        ("big".into(), V::Int(i128::MAX)),
        ("nbig".into(), V::Int(i128::MIN)),
        ("hf".into(), V::Float(1.7014118346046923e38)),
        ("nhf".into(), V::Float(-3.402823669209385e38)),
        ("mu".into(), V::Map(vec![(K::S("k".into()), V::Undef), (K::S("j".into()), V::Int(1))])),
        ("xs".into(), V::Arr(vec![V::Int(5), V::Str("x".into()), V::None, V::Arr(vec![V::Int(1)])])),
        ("m".into(), V::Map(vec![(K::S("n".into()), V::Int(7)), (K::S("s".into()), V::Str("ms".into())), (K::S("xs".into()), V::Arr(vec![V::Int(0), V::Int(1)])), (K::S("a".into()), V::Map(vec![(K::S("b".into()), V::Int(1))])), (K::S("nn".into()), V::None)])),
    ];
    let mut ctx = Context::new();
    for (k, v) in &env {
        ctx.insert_value(k.clone(), v.to_tera());
    }
    let matrix = undefined_matrix();
    let nmatrix = matrix.len() as u64;
    let total = nmatrix + cx.total(400_000, 10_000_000);
    for case in cx.my_cases(total) {
        if case == 0 {
            truthiness_matrix(cx);
            optional_slice_matrix(cx, &t, &ctx);
        }
        let mut r = R(cx.rng(case));
        let (e, family, cellname): (E, &str, Option<String>) = if case < nmatrix {
            let (name, e) = &matrix[case as usize];
            (e.clone(), "undefined-matrix", Some(name.clone()))
        } else {
            let mut g = G { r: &mut r, pid: 0, in_comp: false };
            let depth = 2 + (case % 4) as u32;
            let e = g.g(T::Any, depth);
            if bad_tilde(&e) || !spellable(&e) || bracket_depth(&e) > 2 {
                cx.count("trees_outside_the_documented_grammar", 1);
                continue;
            }
            (e, "random-tree", None)
        };
        cx.begin_case(case, family);
        let mut ev = Ev { env: &env, trace: vec![], locals: vec![] };
        let expected = ev.ev(&e).and_then(|v| if matches!(v, V::Undef) { Err(()) } else { Ok(v.show()) });
        let exp_trace = ev.trace.clone();
        cx.count("expressions", 1);
        if let Some(c) = &cellname {
            cx.cell(format!("undefined|{c}|{}", if expected.is_ok() { "value" } else { "error" }));
            cx.count("undefined_rule_cells", 1);
        }
        let mut cells = Vec::new();
        collect_cells(&e, &mut cells);
        // three spellings: minimal parentheses (+ random redundant ones and whitespace), fully parenthesised, and the
        // expression placed in a statement position (if / set / kwarg), so that jump patching is exercised everywhere
        let mut results: Vec<(String, Result<String, String>, Vec<u64>)> = Vec::new();
        for (si, full) in [(0, false), (1, true), (2, false)] {
            let printed = P { r: &mut r, full }.pr(&e);
            let src = match si {
                2 => match case % 3 {
                    0 => format!("{{% set q = {printed} %}}{{{{ q }}}}"),
                    1 => format!("{{{{ ({printed}) | default(value=({printed})) }}}}"),
                    _ => format!("{{% if true %}}{{{{ {printed} }}}}{{% endif %}}"),
                },
                _ => format!("{{{{ {printed} }}}}"),
            };
            TRACE.with(|tr| tr.borrow_mut().clear());
            cx.eval();
            let got = match guard(|| t.render_str(&src, &ctx, false)) {
                Ok(g) => g.map_err(|e| e.to_string().lines().next().unwrap_or("").to_string()),
                Err(p) => {
                    cx.violation(&format!("C02/panic/{}", panic_site(&p)), format!("{src} panicked: {p}"), json!({"source": src}));
                    continue;
                }
            };
            let trace = TRACE.with(|tr| tr.borrow().clone());
            cx.count("probe_events", trace.len() as u64);
            results.push((src, got, trace));
        }
        for c in &cells {
            cx.cell(format!("{c}|{}", if expected.is_ok() { "value" } else { "error" }));
        }
        let replay = |src: &str| json!({"source": src, "tree": format!("{e:?}"), "environment": "n=3 f=2.5 big=i128::MAX nbig=i128::MIN hf=2^127 (float) nhf=-2^128 (float) s=\"hey\" t=true nn=none xs=[5,\"x\",none,[1]] m={n:7,s:\"ms\",xs:[0,1],a:{b:1},nn:none}; u unbound"});
        // ---- oracle 1: parenthesisation metamorphism (no model involved)
        if results.len() >= 2 {
            let (a, b) = (&results[0], &results[1]);
            let same = match (&a.1, &b.1) {
                (Ok(x), Ok(y)) => x == y,
                (Err(_), Err(_)) => true,
                _ => false,
            };
            if !same {
                let parent = cells.first().cloned().unwrap_or_default();
                cx.violation(&format!("C02/grouping-differs-from-documented-precedence/{}", parent.split('|').take(2).collect::<Vec<_>>().join("+")), format!("minimal-parentheses spelling {:?} gives {:?}, fully parenthesised {:?} gives {:?}", a.0, a.1, b.0, b.1), replay(&a.0));
            }
            cx.count("spelling_pairs_compared", 1);
        }
        // ---- oracle 2 and 3: reference evaluation and evaluation trace, on the first two spellings (the third
        //      evaluates the expression in another position; the `default(value=..)` form evaluates it twice)
        for (i, (src, got, trace)) in results.iter().enumerate() {
            let agree = match (&expected, got) {
                (Ok(a), Ok(b)) => a == b,
                (Err(()), Err(_)) => true,
                _ => false,
            };
            let twice = i == 2 && case % 3 == 1;
            if !agree && !twice {
                let kind = match (&expected, got) {
                    (Ok(_), Ok(_)) => "wrong-value",
                    (Ok(_), Err(_)) => "error-instead-of-value",
                    _ => "value-instead-of-error",
                };
                let root = cellname.clone().unwrap_or_else(|| op_name(&e));
                cx.violation(&format!("C02/{kind}/{}", clip(&root, 40)), format!("{src:?}: the documentation gives {:?}, the engine {:?}", expected.as_ref().map_err(|_| "an error"), got), replay(src));
            }
            // traces are only comparable when the model did not fail (an error may surface at a different point)
            if expected.is_ok() && !twice && *trace != exp_trace {
                cx.violation("C02/evaluation-order-or-short-circuit", format!("{src:?}: probes were evaluated in order {trace:?}, the documented order is {exp_trace:?}"), replay(src));
            }
            if expected.is_ok() && !twice {
                cx.count("traces_compared", 1);
            }
        }
        if let Some((src, got, _)) = results.first() {
            let (s2, g2) = (src.clone(), got.clone());
            cx.sample(|| json!({"source": s2, "rendered": g2, "family": family}));
        }
    }
}
