//! C20 — tera-contrib codecs. Event log decided offline by oracles/o_codecs.py (Python base64/urllib/json/re).
//!   E u p hex(in) hex(out)|ERR        b64_encode(url_safe=u, padded=p)   (u/p = 0, 1 or d for "argument omitted")
//!   R u p hex(in) hex(out)|ERR        b64_encode(..) | b64_decode(url_safe=u)
//!   D u hex(in) hex(out)|ERR          b64_decode of arbitrary text
//!   U strict hex(in) hex(out)|ERR     urlencode / urlencode_strict
//!   L hex(in) hex(out)|ERR            slug
//!   J pretty tagged(value) hex(out)|ERR   json_encode
use crate::core::*;
use crate::values::*;
use serde_json::json;
use tera::{Context, Tera, Value};

fn engine() -> Tera {
    let mut t = Tera::default();
    t.register_filter("b64_encode", tera_contrib::base64::b64_encode);
    t.register_filter("b64_decode", tera_contrib::base64::b64_decode);
    t.register_filter("urlencode", tera_contrib::urlencode::urlencode);
    t.register_filter("urlencode_strict", tera_contrib::urlencode::urlencode_strict);
    t.register_filter("json_encode", tera_contrib::json::json_encode);
    t.register_filter("slug", tera_contrib::slug::slug);
    let mut tpls = vec![
        ("Udef".to_string(), "{{ s | urlencode }}".to_string()),
        ("Ustrict".to_string(), "{{ s | urlencode_strict }}".to_string()),
        ("L".to_string(), "{{ s | slug }}".to_string()),
        ("J0".to_string(), "{{ v | json_encode }}".to_string()),
        ("J1".to_string(), "{{ v | json_encode(pretty=true) }}".to_string()),
        ("Jf".to_string(), "{{ v | json_encode(pretty=false) }}".to_string()),
        ("D0".to_string(), "{{ s | b64_decode }}".to_string()),
        ("D1".to_string(), "{{ s | b64_decode(url_safe=true) }}".to_string()),
        ("Df".to_string(), "{{ s | b64_decode(url_safe=false) }}".to_string()),
    ];
    for u in ["0", "1", "d"] {
        for p in ["0", "1", "d"] {
            let mut args = Vec::new();
            if u != "d" {
                args.push(format!("url_safe={}", u == "1"));
            }
            if p != "d" {
                args.push(format!("padded={}", p == "1"));
            }
            let enc = if args.is_empty() { "b64_encode".to_string() } else { format!("b64_encode({})", args.join(", ")) };
            let dec = if u == "d" { "b64_decode".to_string() } else { format!("b64_decode(url_safe={})", u == "1") };
            tpls.push((format!("E{u}{p}"), format!("{{{{ s | {enc} }}}}")));
            tpls.push((format!("R{u}{p}"), format!("{{{{ s | {enc} | {dec} }}}}")));
        }
    }
    t.autoescape_on(Vec::<&'static str>::new());
    t.add_raw_templates(tpls).expect("C20 templates");
    t
}

fn codec_string(rng: &mut Rng, case: u64) -> String {
    // deterministic part first: every single ASCII byte, every punctuation run, lengths mod 3
    if case < 128 {
        return (case as u8 as char).to_string();
    }
    if case < 256 {
        let c = (case - 128) as u8 as char;
        return format!("{c}{c}x{c}");
    }
    match rng.below(14) {
        0 => String::new(),
        12 | 13 => {
            // already slug-shaped text: lowercase letters, digits and hyphen runs at every position
            let n = 1 + rng.below(7);
            (0..n).map(|_| *rng.pick(&["a", "b7", "-", "--", "---", "0", "xyz", "2024", "q-r"])).collect::<Vec<_>>().join("")
        }
        1 => gen_string(rng),
        2 => {
            let n = rng.below(10);
            (0..n).map(|_| (0x20 + rng.below(0x5f) as u8) as char).collect()
        }
        3 => "!\"#$%&'()*+,-./:;<=>?@[\\]^_`{|}~".chars().filter(|_| rng.bool()).collect(),
        4 => {
            let n = rng.below(40);
            (0..n).map(|_| char::from_u32(rng.below(0x10ffff) as u32).unwrap_or('\u{fffd}')).collect()
        }
        5 => {
            // long strings, all lengths mod 3 (one case in ten of this arm: each costs ~0.5 MB of event log)
            let n = if rng.chance(1, 10) { 3000 + rng.below(6000) } else { 40 + rng.below(200) };
            (0..n).map(|i| if i % 97 == 0 { 'é' } else { (b'a' + (i % 26) as u8) as char }).collect()
        }
        6 => {
            let n = rng.below(8);
            (0..n).map(|_| *rng.pick(&["a b", "C'est", "--", "__", "Ünï", " ", "-x-", "日本", "ÀÉ", "...", "/", "%41", "+", "a\tb"])).collect::<Vec<_>>().join("")
        }
        7 => {
            let n = rng.below(7);
            (0..n).map(|_| (rng.below(128) as u8) as char).collect()
        }
        8 => {
            let n = 1 + rng.below(5);
            (0..n).map(|_| *rng.pick(&['\u{0}', '\u{7f}', '\u{80}', '\u{7ff}', '\u{800}', '\u{ffff}', '\u{10000}', '\u{10ffff}', '\u{d7ff}', '\u{e000}'])).collect()
        }
        _ => {
            let n = rng.below(24);
            (0..n).map(|_| *rng.pick(&['a', 'Z', '0', '9', '-', '_', '.', '~', '/', ' ', '%', '+', '=', '&', '?', 'é', '😀'])).collect()
        }
    }
}

fn b64ish(rng: &mut Rng) -> String {
    // text for the decoder: mostly base64 alphabet with occasional intruders, odd lengths, misplaced padding
    let n = rng.below(14);
    let std = b"ABCDEFGHIJKLMNOPQRSTUVWXYZabcdefghijklmnopqrstuvwxyz0123456789+/";
    let url = b"ABCDEFGHIJKLMNOPQRSTUVWXYZabcdefghijklmnopqrstuvwxyz0123456789-_";
    let alpha = if rng.bool() { std } else { url };
    let mut s: String = if rng.bool() {
        // a well-formed encoding of some text (own encoder, so that the decoder's accepting side is exercised)
        let text = gen_string(rng);
        let bytes = text.as_bytes();
        let mut o = String::new();
        for ch in bytes.chunks(3) {
            let b = [ch[0], *ch.get(1).unwrap_or(&0), *ch.get(2).unwrap_or(&0)];
            let idx = [b[0] >> 2, (b[0] & 3) << 4 | b[1] >> 4, (b[1] & 15) << 2 | b[2] >> 6, b[2] & 63];
            for (i, x) in idx.iter().enumerate() {
                if i <= ch.len() {
                    o.push(alpha[*x as usize] as char);
                }
            }
        }
        if rng.bool() {
            while o.len() % 4 != 0 {
                o.push('=');
            }
        }
        o
    } else {
        (0..n).map(|_| alpha[rng.below(64)] as char).collect()
    };
    match rng.below(16) {
        0 => s.push('='),
        1 => s.push_str("=="),
        2 => s.insert(rng.below(s.len() + 1), *rng.pick(&['=', ' ', '\n', '*', 'é', '-', '+', '/', '_'])),
        3 => s.push_str("==="),
        _ => {}
    }
    s
}

fn stringified(k: &K) -> String {
    match k {
        K::Str(s) => s.clone(),
        K::Bool(b) => b.to_string(),
        k => {
            let (neg, m) = k.int().unwrap();
            format!("{}{m}", if neg { "-" } else { "" })
        }
    }
}

/// json_encode is only specified for values free of non-finite floats; stringified keys must stay distinct
fn json_ok(v: &V) -> bool {
    match v {
        V::F64(f) => f.is_finite(),
        V::Arr(a) => a.iter().all(json_ok),
        V::Map(m) => {
            let mut ks: Vec<String> = m.iter().map(|(k, _)| stringified(k)).collect();
            ks.sort();
            let n = ks.len();
            ks.dedup();
            ks.len() == n && m.iter().all(|(_, v)| json_ok(v))
        }
        _ => true,
    }
}

pub fn run(cx: &mut Cx) {
    let tera = engine();
    let total = cx.total(6000, 600_000);
    let render = |cx: &mut Cx, name: &str, ctx: &Context| -> Option<String> {
        cx.eval();
        match guard(|| tera.render(name, ctx)) {
            Ok(Ok(s)) => Some(hex(s.as_bytes())),
            Ok(Err(_)) => Some("ERR".into()),
            Err(p) => {
                cx.violation(&format!("C20/panic/{}", panic_site(&p)), format!("panic in template {name}: {p}"), json!({"template": name}));
                None
            }
        }
    };
    for case in cx.my_cases(total) {
        cx.begin_case(case, "codecs");
        let mut rng = cx.rng(case);
        let s = codec_string(&mut rng, case);
        let sh = hex(s.as_bytes());
        let cls = if s.is_empty() { "empty" } else if s.len() > 1000 { "long" } else if s.is_ascii() { if s.chars().all(|c| c.is_ascii_alphanumeric()) { "alnum" } else { "ascii-punct" } } else { "unicode" };
        let m3 = s.len() % 3;
        let mut ctx = Context::new();
        ctx.insert_value("s", Value::from(s.as_str()));
        for u in ["0", "1", "d"] {
            for p in ["0", "1", "d"] {
                if let Some(o) = render(cx, &format!("E{u}{p}"), &ctx) {
                    cx.cell(format!("E{u}{p}|{cls}|{m3}"));
                    cx.log_line(&format!("E\t{u}\t{p}\t{sh}\t{o}"));
                }
                if let Some(o) = render(cx, &format!("R{u}{p}"), &ctx) {
                    cx.cell(format!("R{u}{p}|{cls}|{m3}"));
                    cx.log_line(&format!("R\t{u}\t{p}\t{sh}\t{o}"));
                }
            }
        }
        for strict in ["def", "strict"] {
            if let Some(o) = render(cx, &format!("U{strict}"), &ctx) {
                cx.cell(format!("U{strict}|{cls}"));
                cx.log_line(&format!("U\t{strict}\t{sh}\t{o}"));
            }
        }
        if let Some(o) = render(cx, "L", &ctx) {
            cx.cell(format!("L|{cls}"));
            cx.log_line(&format!("L\t{sh}\t{o}"));
        }
        // decoder on arbitrary text
        let d = if rng.chance(1, 4) { s.clone() } else { b64ish(&mut rng) };
        let mut dctx = Context::new();
        dctx.insert_value("s", Value::from(d.as_str()));
        for u in ["0", "1", "f"] {
            if let Some(o) = render(cx, &format!("D{u}"), &dctx) {
                cx.cell(format!("D{u}|{}|{}", d.len() % 4, if o == "ERR" { "err" } else { "ok" }));
                cx.log_line(&format!("D\t{u}\t{}\t{o}", hex(d.as_bytes())));
            }
        }
        // json_encode of any value
        let opts = GenOpts { nonfinite: false, max_depth: 3, max_len: 4, ..ALL_KINDS };
        let mut v = gen_value(&mut rng, &opts, 0);
        if !json_ok(&v) {
            v = V::Arr(vec![V::Str(s.clone()), V::I128(i128::MIN), V::U128(u128::MAX)]);
        }
        let mut jctx = Context::new();
        jctx.insert_value("v", v.to_tera());
        for pretty in ["0", "1", "f"] {
            if let Some(o) = render(cx, &format!("J{pretty}"), &jctx) {
                cx.cell(format!("J{pretty}|{}|d{}", v.kind(), v.depth()));
                cx.log_line(&format!("J\t{pretty}\t{}\t{o}", serde_json::to_string(&v.tagged()).unwrap()));
            }
        }
        let s2 = clip(&s, 60);
        cx.sample(|| json!({"string": s2, "decoder_input": d, "json_value": v.tagged()}));
    }
}
