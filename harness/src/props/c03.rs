//! C03 — control flow, variable scoping, captures and includes behave as documented.
//! Reference interpretation of generated statement trees over {context, global context} with deliberate shadowing of
//! the same five names across all four scopes; the engine's output must equal the model's exactly. Scope visibility
//! is additionally observed through `{{ __tera_context }}`; map loops are checked as multisets of iteration records.
use crate::core::*;
use serde_json::json;
use std::collections::BTreeMap;
use tera::{Context, Tera};

#[derive(Clone, Debug)]
enum S {
    T(String),
    /// print a name (through `default` so that unbound names are observable)
    P(usize),
    /// print a loop.* variable
    PL(u8),
    Set(usize, i64),
    SetG(usize, i64),
    /// set a = b | default(value=9)
    SetFrom(usize, usize),
    /// set a = b + k (error when b is not a number: guarded by default to 0 through `int`? no: only generated on numeric names)
    SetStr(usize, String),
    /// if / elif* / else over truthiness of names
    If(Vec<(usize, bool, Vec<S>)>, Vec<S>),
    For(usize, Vec<i64>, bool, Vec<S>, Vec<S>),
    ForStr(usize, String, Vec<S>, Vec<S>),
    /// key/value loop over a map literal of 0 or 1 entries (order-free): (key var, value var, entry, body, else)
    ForKV(usize, usize, Option<(String, i64)>, Vec<S>, Vec<S>),
    Break(usize),
    Continue(usize),
    SetBlock(usize, u8, Vec<S>),
    Filt(u8, Vec<S>),
    Inc(usize),
    /// `{{ __tera_context }}` (only generated outside loops and includes)
    Dump,
}

const NAMES: [&str; 5] = ["a", "b", "c", "d", "e"];
const CHAINS: [&str; 4] = ["", " | upper", " | trim", " | upper | trim"];
const SECTIONS: [&str; 3] = ["upper", "trim", "lower"];

struct GenCx {
    d: u32,
    in_loop: bool,
    in_cap: bool,
    tpl: usize,
    ntpl: usize,
}

fn gen_body(r: &mut Rng, g: &GenCx) -> Vec<S> {
    let n = 1 + r.below(4);
    let mut v = vec![];
    let sub = |in_loop: bool, in_cap: bool| GenCx { d: g.d.saturating_sub(1), in_loop, in_cap, tpl: g.tpl, ntpl: g.ntpl };
    for _ in 0..n {
        let k = r.below(20);
        let s = match k {
            0 | 1 => S::T(r.pick(&["x", "y ", "z", " w\n", "é"]).to_string()),
            2 | 3 => S::P(r.below(5)),
            4 => S::Set(r.below(5), r.below(4) as i64),
            5 => S::SetG(r.below(5), r.below(4) as i64),
            6 => S::SetFrom(r.below(5), r.below(5)),
            7 if g.d > 0 => {
                let nb = 1 + r.below(3);
                let branches = (0..nb).map(|_| (r.below(5), r.chance(1, 4), gen_body(r, &sub(g.in_loop, g.in_cap)))).collect();
                S::If(branches, if r.bool() { gen_body(r, &sub(g.in_loop, g.in_cap)) } else { vec![] })
            }
            8 | 9 if g.d > 0 => {
                let len = r.below(4);
                S::For(r.below(5), (0..len).map(|_| r.below(4) as i64).collect(), r.chance(1, 4), gen_body(r, &sub(true, false)), if r.chance(1, 3) { gen_body(r, &sub(g.in_loop, g.in_cap)) } else { vec![] })
            }
            10 if g.d > 0 => S::ForStr(r.below(5), r.pick(&["", "q", "é日", "a😀b"]).to_string(), gen_body(r, &sub(true, false)), if r.chance(1, 3) { gen_body(r, &sub(g.in_loop, g.in_cap)) } else { vec![] }),
            18 if g.d > 0 => {
                let kv = r.below(5);
                let mut vv = r.below(5);
                if vv == kv {
                    vv = (vv + 1) % 5;
                }
                let entry = if r.chance(1, 4) { None } else { Some((r.pick(&["mk", "k2", ""]).to_string(), r.below(4) as i64)) };
                S::ForKV(kv, vv, entry, gen_body(r, &sub(true, false)), if r.chance(1, 3) { gen_body(r, &sub(g.in_loop, g.in_cap)) } else { vec![] })
            }
            11 if g.in_loop && !g.in_cap => {
                if r.bool() {
                    S::Break(r.below(5))
                } else {
                    S::Continue(r.below(5))
                }
            }
            12 if g.d > 0 => S::SetBlock(r.below(5), r.below(4) as u8, gen_body(r, &sub(g.in_loop, true))),
            13 if g.d > 0 => S::Filt(r.below(3) as u8, gen_body(r, &sub(g.in_loop, true))),
            14 if g.tpl + 1 < g.ntpl => S::Inc(g.tpl + 1 + r.below(g.ntpl - g.tpl - 1)),
            15 if g.in_loop => S::PL(r.below(5) as u8),
            16 => S::SetStr(r.below(5), r.pick(&["", "txt", " s "]).to_string()),
            17 if !g.in_loop && g.tpl == 0 => S::Dump,
            _ => S::T("w".into()),
        };
        v.push(s);
    }
    v
}

fn pr(b: &[S], out: &mut String) {
    for s in b {
        match s {
            S::T(t) => out.push_str(t),
            S::P(n) => out.push_str(&format!("{{{{ {} | default(value='~') }}}}", NAMES[*n])),
            S::PL(k) => out.push_str(["{{ loop.index }}", "{{ loop.index0 }}", "{{ loop.first }}", "{{ loop.last }}", "{{ loop.length }}"][*k as usize]),
            S::Set(n, k) => out.push_str(&format!("{{% set {} = {} %}}", NAMES[*n], k)),
            S::SetG(n, k) => out.push_str(&format!("{{% set_global {} = {} %}}", NAMES[*n], k)),
            S::SetFrom(n, m) => out.push_str(&format!("{{% set {} = {} | default(value=9) %}}", NAMES[*n], NAMES[*m])),
            S::SetStr(n, t) => out.push_str(&format!("{{% set {} = \"{}\" %}}", NAMES[*n], t)),
            S::If(branches, e) => {
                for (i, (n, neg, body)) in branches.iter().enumerate() {
                    out.push_str(&format!("{{% {} {}{} %}}", if i == 0 { "if" } else { "elif" }, if *neg { "not " } else { "" }, NAMES[*n]));
                    pr(body, out);
                }
                if !e.is_empty() {
                    out.push_str("{% else %}");
                    pr(e, out);
                }
                out.push_str("{% endif %}");
            }
            S::For(n, xs, rev, body, els) => {
                out.push_str(&format!("{{% for {} in {:?}{} %}}", NAMES[*n], xs, if *rev { " | reverse" } else { "" }));
                pr(body, out);
                if !els.is_empty() {
                    out.push_str("{% else %}");
                    pr(els, out);
                }
                out.push_str("{% endfor %}");
            }
            S::ForStr(n, s, body, els) => {
                out.push_str(&format!("{{% for {} in \"{}\" %}}", NAMES[*n], s));
                pr(body, out);
                if !els.is_empty() {
                    out.push_str("{% else %}");
                    pr(els, out);
                }
                out.push_str("{% endfor %}");
            }
            S::ForKV(kn, vn, entry, body, els) => {
                let lit = match entry {
                    Some((k, v)) => format!("{{\"{k}\": {v} }}"),
                    None => "{}".to_string(),
                };
                out.push_str(&format!("{{% for {}, {} in {lit} %}}", NAMES[*kn], NAMES[*vn]));
                pr(body, out);
                if !els.is_empty() {
                    out.push_str("{% else %}");
                    pr(els, out);
                }
                out.push_str("{% endfor %}");
            }
            S::Break(n) => out.push_str(&format!("{{% if {} %}}{{% break %}}{{% endif %}}", NAMES[*n])),
            S::Continue(n) => out.push_str(&format!("{{% if {} %}}{{% continue %}}{{% endif %}}", NAMES[*n])),
            S::SetBlock(n, chain, b) => {
                out.push_str(&format!("{{% set {}{} %}}", NAMES[*n], CHAINS[*chain as usize]));
                pr(b, out);
                out.push_str("{% endset %}");
            }
            S::Filt(sec, b) => {
                out.push_str(&format!("{{% filter {} %}}", SECTIONS[*sec as usize]));
                pr(b, out);
                out.push_str("{% endfilter %}");
            }
            S::Inc(i) => out.push_str(&format!("{{% include \"t{i}\" %}}")),
            S::Dump => out.push_str("<{{ __tera_context }}>"),
        }
    }
}

#[derive(Clone, Debug, PartialEq)]
enum V {
    I(i64),
    S(String),
}
impl V {
    fn truthy(&self) -> bool {
        match self {
            V::I(i) => *i != 0,
            V::S(s) => !s.is_empty(),
        }
    }
    fn show(&self) -> String {
        match self {
            V::I(i) => i.to_string(),
            V::S(s) => s.clone(),
        }
    }
    fn show_in_map(&self) -> String {
        match self {
            V::I(i) => i.to_string(),
            V::S(s) => format!("{s:?}"),
        }
    }
}

struct Loop {
    var: usize,
    key: Option<(usize, V)>,
    cur: V,
    locals: BTreeMap<usize, V>,
    idx: usize,
    len: usize,
}
struct St<'p> {
    loops: Vec<Loop>,
    sets: BTreeMap<usize, V>,
    parent: Option<&'p St<'p>>,
    ctx: &'p BTreeMap<usize, V>,
    g: &'p BTreeMap<usize, V>,
    dumps: usize,
}
impl<'p> St<'p> {
    /// documented resolution order: innermost loop .. outermost loop, assignments, the includer's scopes, the render
    /// context, the global context
    fn get(&self, n: usize) -> Option<V> {
        for l in self.loops.iter().rev() {
            if let Some(v) = l.locals.get(&n) {
                return Some(v.clone());
            }
            if l.var == n {
                return Some(l.cur.clone());
            }
            if let Some((kn, kv)) = &l.key {
                if *kn == n {
                    return Some(kv.clone());
                }
            }
        }
        if let Some(v) = self.sets.get(&n) {
            return Some(v.clone());
        }
        if let Some(p) = self.parent {
            if let Some(v) = p.get(n) {
                return Some(v);
            }
        }
        if let Some(v) = self.ctx.get(&n) {
            return Some(v.clone());
        }
        self.g.get(&n).cloned()
    }
    /// an assignment made inside a loop body disappears when that iteration ends
    fn set(&mut self, n: usize, v: V) {
        if let Some(l) = self.loops.last_mut() {
            l.locals.insert(n, v);
        } else {
            self.sets.insert(n, v);
        }
    }
}

enum Flow {
    Normal,
    Break,
    Continue,
}

fn apply_chain(s: &str, chain: &str) -> String {
    let mut t = s.to_string();
    for f in chain.split('|').map(|x| x.trim()).filter(|x| !x.is_empty()) {
        t = match f {
            "upper" => t.to_uppercase(),
            "trim" => t.trim().to_string(),
            "lower" => t.to_lowercase(),
            _ => t,
        };
    }
    t
}

fn run_loop(st: &mut St, out: &mut Vec<String>, tpls: &[Vec<S>], var: usize, items: Vec<V>, body: &[S], els: &[S]) -> Flow {
    if items.is_empty() {
        return run(els, st, out, tpls);
    }
    let len = items.len();
    st.loops.push(Loop { var, key: None, cur: V::I(0), locals: BTreeMap::new(), idx: 0, len });
    for (i, x) in items.into_iter().enumerate() {
        {
            let l = st.loops.last_mut().unwrap();
            l.cur = x;
            l.idx = i;
            l.locals.clear();
        }
        if let Flow::Break = run(body, st, out, tpls) {
            break;
        }
    }
    st.loops.pop();
    Flow::Normal
}

fn run(b: &[S], st: &mut St, out: &mut Vec<String>, tpls: &[Vec<S>]) -> Flow {
    for s in b {
        match s {
            S::T(t) => out.last_mut().unwrap().push_str(t),
            S::P(n) => {
                let s = st.get(*n).map(|v| v.show()).unwrap_or("~".into());
                out.last_mut().unwrap().push_str(&s);
            }
            S::PL(k) => {
                let l = st.loops.last().unwrap();
                let s = match k {
                    0 => (l.idx + 1).to_string(),
                    1 => l.idx.to_string(),
                    2 => (l.idx == 0).to_string(),
                    3 => (l.idx + 1 == l.len).to_string(),
                    _ => l.len.to_string(),
                };
                out.last_mut().unwrap().push_str(&s);
            }
            S::Set(n, k) => st.set(*n, V::I(*k)),
            S::SetStr(n, t) => st.set(*n, V::S(t.clone())),
            // set_global and assignments outside loops stay visible for the rest of the render
            S::SetG(n, k) => {
                st.sets.insert(*n, V::I(*k));
            }
            S::SetFrom(n, m) => {
                let v = st.get(*m).unwrap_or(V::I(9));
                st.set(*n, v);
            }
            S::If(branches, e) => {
                let mut taken: Option<&Vec<S>> = None;
                for (n, neg, body) in branches {
                    let c = st.get(*n).map(|v| v.truthy()).unwrap_or(false);
                    if c != *neg {
                        taken = Some(body);
                        break;
                    }
                }
                match run(taken.unwrap_or(e), st, out, tpls) {
                    Flow::Normal => {}
                    f => return f,
                }
            }
            S::For(n, xs, rev, body, els) => {
                let mut items: Vec<V> = xs.iter().map(|x| V::I(*x)).collect();
                if *rev {
                    items.reverse();
                }
                match run_loop(st, out, tpls, *n, items, body, els) {
                    Flow::Normal => {}
                    f => return f,
                }
            }
            S::ForStr(n, s, body, els) => {
                let items: Vec<V> = s.chars().map(|c| V::S(c.to_string())).collect();
                match run_loop(st, out, tpls, *n, items, body, els) {
                    Flow::Normal => {}
                    f => return f,
                }
            }
            S::ForKV(kn, vn, entry, body, els) => match entry {
                None => match run(els, st, out, tpls) {
                    Flow::Normal => {}
                    f => return f,
                },
                Some((k, v)) => {
                    st.loops.push(Loop { var: *vn, key: Some((*kn, V::S(k.clone()))), cur: V::I(*v), locals: BTreeMap::new(), idx: 0, len: 1 });
                    let _ = run(body, st, out, tpls);
                    st.loops.pop();
                }
            },
            S::Break(n) => {
                if st.get(*n).map(|v| v.truthy()).unwrap_or(false) {
                    return Flow::Break;
                }
            }
            S::Continue(n) => {
                if st.get(*n).map(|v| v.truthy()).unwrap_or(false) {
                    return Flow::Continue;
                }
            }
            S::SetBlock(n, chain, b) => {
                out.push(String::new());
                let f = run(b, st, out, tpls);
                let cap = out.pop().unwrap();
                st.set(*n, V::S(apply_chain(&cap, CHAINS[*chain as usize])));
                if !matches!(f, Flow::Normal) {
                    return f;
                }
            }
            S::Filt(sec, b) => {
                out.push(String::new());
                let f = run(b, st, out, tpls);
                let cap = out.pop().unwrap();
                out.last_mut().unwrap().push_str(&apply_chain(&cap, SECTIONS[*sec as usize]));
                if !matches!(f, Flow::Normal) {
                    return f;
                }
            }
            S::Inc(i) => {
                // `include` renders the named template against the includer's current variables; nothing it assigns is
                // visible to its includer
                let mut sub = St { loops: vec![], sets: BTreeMap::new(), parent: Some(&*st), ctx: st.ctx, g: st.g, dumps: 0 };
                let mut o = vec![String::new()];
                run(&tpls[*i], &mut sub, &mut o, tpls);
                let text = o.pop().unwrap();
                out.last_mut().unwrap().push_str(&text);
            }
            S::Dump => {
                // context U global context U assignments, printed as a map in sorted key order
                let mut m: BTreeMap<&str, V> = BTreeMap::new();
                for (k, v) in st.g {
                    m.insert(NAMES[*k], v.clone());
                }
                for (k, v) in st.ctx {
                    m.insert(NAMES[*k], v.clone());
                }
                for (k, v) in &st.sets {
                    m.insert(NAMES[*k], v.clone());
                }
                let body = m.iter().map(|(k, v)| format!("{k:?}: {}", v.show_in_map())).collect::<Vec<_>>().join(", ");
                out.last_mut().unwrap().push_str(&format!("<{{{body}}}>"));
                st.dumps += 1;
            }
        }
    }
    Flow::Normal
}

fn nesting_signature(b: &[S], path: &str, out: &mut Vec<String>) {
    for s in b {
        match s {
            S::P(_) | S::PL(_) | S::Dump => out.push(format!("print@{path}")),
            S::Break(_) => out.push(format!("break@{path}")),
            S::Continue(_) => out.push(format!("continue@{path}")),
            S::Set(..) | S::SetFrom(..) | S::SetStr(..) => out.push(format!("set@{path}")),
            S::SetG(..) => out.push(format!("set_global@{path}")),
            S::Inc(_) => out.push(format!("include@{path}")),
            S::If(br, e) => {
                for (_, _, body) in br {
                    nesting_signature(body, &format!("{path}/if"), out);
                }
                nesting_signature(e, &format!("{path}/else"), out);
            }
            S::ForKV(_, _, _, body, els) => {
                nesting_signature(body, &format!("{path}/for-kv"), out);
                nesting_signature(els, &format!("{path}/for-else"), out);
            }
            S::For(_, _, _, body, els) | S::ForStr(_, _, body, els) => {
                nesting_signature(body, &format!("{path}/for"), out);
                nesting_signature(els, &format!("{path}/for-else"), out);
            }
            S::SetBlock(_, _, body) => nesting_signature(body, &format!("{path}/set-block"), out),
            S::Filt(_, body) => nesting_signature(body, &format!("{path}/filter"), out),
            S::T(_) => {}
        }
    }
}

/// map loops: every entry exactly once, with correct loop.index/first/last/length (order is not specified)
fn map_loop_case(cx: &mut Cx, rng: &mut Rng) {
    let n = rng.below(9);
    let mut keys: Vec<String> = Vec::new();
    for _ in 0..n {
        let k = format!("k{}", rng.below(30));
        if !keys.contains(&k) {
            keys.push(k);
        }
    }
    let n = keys.len();
    let mut m = tera::value::Map::new();
    for (i, k) in keys.iter().enumerate() {
        m.insert(tera::value::Key::String(std::sync::Arc::from(k.as_str())), tera::Value::from(i as i64 * 10));
    }
    let mut ctx = Context::new();
    ctx.insert_value("m", tera::Value::from(m));
    let src = "{% for k, v in m %}\u{1}{{ k }}={{ v }}:{{ loop.index }}/{{ loop.index0 }}/{{ loop.length }}/{{ loop.first }}/{{ loop.last }}{% else %}EMPTY{% endfor %}";
    cx.eval();
    match guard(|| Tera::default().render_str(src, &ctx, false)) {
        Ok(Ok(out)) => {
            cx.count("map_loops_checked", 1);
            cx.cell(format!("map-loop|{n}"));
            let replay = json!({"keys": keys, "output": out});
            if n == 0 {
                if out != "EMPTY" {
                    cx.violation("C03/for-else-on-empty-map", format!("an empty map rendered {out:?}"), replay);
                }
                return;
            }
            let recs: Vec<&str> = out.split('\u{1}').filter(|s| !s.is_empty()).collect();
            let mut seen: Vec<String> = Vec::new();
            let mut ok = recs.len() == n;
            for (i, r) in recs.iter().enumerate() {
                let Some((kv, meta)) = r.split_once(':') else { ok = false; break };
                let Some((k, v)) = kv.split_once('=') else { ok = false; break };
                let exp_v = keys.iter().position(|x| x == k).map(|p| (p * 10).to_string());
                if exp_v.as_deref() != Some(v) || seen.contains(&k.to_string()) {
                    ok = false;
                }
                seen.push(k.to_string());
                if meta != format!("{}/{}/{}/{}/{}", i + 1, i, n, i == 0, i + 1 == n) {
                    ok = false;
                }
            }
            if !ok {
                cx.violation("C03/map-loop-records", format!("a map of {n} entries {keys:?} iterated as {recs:?}"), replay);
            }
        }
        Ok(Err(e)) => cx.violation("C03/map-loop-error", format!("map loop failed: {e}"), json!({"keys": keys})),
        Err(p) => cx.violation(&format!("C03/panic/{}", panic_site(&p)), format!("map loop panicked: {p}"), json!({"keys": keys})),
    }
}

/// `include` renders the named template against the includer's current variables — so cutting an included template
/// between two top-level statements and moving the tail into an include of its own changes nothing. Checked on general
/// generated programs (loops, captures, components, filters around the include sites): every entry renders to the same
/// text, or fails, before and after the cut.
fn include_split_case(cx: &mut Cx, case: u64) {
    cx.begin_case(case, "include-split");
    let mut rng = cx.rng(case);
    let program = {
        let mut g = crate::progs::PGen::new(&mut rng);
        g.program()
    };
    // what `__tera_context` lists inside an included template is not specified
    if program.splits.is_empty() || program.templates.iter().any(|(_, s)| s.contains("__tera_context")) {
        cx.count("programs_without_a_cut", 1);
        return;
    }
    let Ok(Ok(orig)) = guard(|| crate::props::c18::build_engine(&program)) else {
        cx.count("split_programs_rejected", 1);
        return;
    };
    let mut cut = program.clone_templates();
    for (name, head, tail) in &program.splits {
        let tname = format!("tail-{name}");
        for t in cut.iter_mut() {
            if t.0 == *name {
                t.1 = format!("{head}{{% include \"{tname}\" %}}");
            }
        }
        cut.push((tname, tail.clone()));
    }
    let p2 = crate::progs::Program { templates: cut.clone(), entries: program.entries.clone(), blocks: vec![], components: program.components.clone(), splits: vec![] };
    let split = match guard(|| crate::props::c18::build_engine(&p2)) {
        Ok(Ok(t)) => t,
        other => {
            cx.violation("C03/include-split-rejected", format!("the program was accepted, the same program with included templates cut in two was not: {:?}", other.map(|r| r.map(|_| ()))), json!({"templates": program.templates, "cut": cut}));
            return;
        }
    };
    let mut ctx = crate::props::c18::context_of(&crate::progs::base_context());
    ctx.insert("a", "A<arg>");
    ctx.insert("n", &3);
    for e in &program.entries {
        let r = guard(|| (orig.render(e, &ctx).map_err(|x| x.to_string()), split.render(e, &ctx).map_err(|x| x.to_string())));
        cx.evals(2);
        cx.count("include_splits_compared", 1);
        match r {
            Ok((a, b)) => {
                let same = match (&a, &b) {
                    (Ok(x), Ok(y)) => x == y,
                    (Err(_), Err(_)) => true,
                    _ => false,
                };
                if !same {
                    cx.violation("C03/include-split-changes-output", format!("{e}: whole {:?}, with the tails of the included templates moved into includes of their own {:?}", a.as_ref().map(|s| clip(s, 300)), b.as_ref().map(|s| clip(s, 300))), json!({"templates": program.templates, "cut": cut, "entry": e}));
                }
            }
            Err(p) => cx.violation(&format!("C03/panic/{}", panic_site(&p)), format!("{p}"), json!({"templates": program.templates, "cut": cut})),
        }
    }
}

pub fn run_prop(cx: &mut Cx) {
    let total = cx.total(300_000, 6_000_000);
    for case in cx.my_cases(total) {
        if case % 64 == 63 {
            include_split_case(cx, case);
            continue;
        }
        let mut r = cx.rng(case);
        if case % 10 == 9 {
            cx.begin_case(case, "map-loop");
            for _ in 0..4 {
                map_loop_case(cx, &mut r);
            }
            continue;
        }
        cx.begin_case(case, "program");
        let ntpl = 1 + r.below(5);
        let depth = 2 + r.below(4) as u32;
        let tpls: Vec<Vec<S>> = (0..ntpl).map(|i| gen_body(&mut r, &GenCx { d: depth, in_loop: false, in_cap: false, tpl: i, ntpl })).collect();
        // the same five names live in the context, the global context, both or neither
        let mut ctxm = BTreeMap::new();
        let mut gm = BTreeMap::new();
        for i in 0..5 {
            match r.below(5) {
                0 => {
                    ctxm.insert(i, V::I(r.below(3) as i64));
                }
                1 => {
                    gm.insert(i, V::I(r.below(3) as i64 + 5));
                }
                2 => {
                    ctxm.insert(i, V::I(1));
                    gm.insert(i, V::I(7));
                }
                3 => {
                    ctxm.insert(i, V::S(r.pick(&["", "cx"]).to_string()));
                }
                _ => {}
            }
        }
        let srcs: Vec<(String, String)> = tpls
            .iter()
            .enumerate()
            .map(|(i, b)| {
                let mut s = String::new();
                pr(b, &mut s);
                (format!("t{i}"), s)
            })
            .collect();
        let replay = json!({"templates": srcs, "context": format!("{ctxm:?}"), "global_context": format!("{gm:?}")});
        cx.eval();
        let built = guard(|| {
            let mut t = Tera::default();
            t.autoescape_on(Vec::<&'static str>::new());
            for (k, v) in &gm {
                match v {
                    V::I(i) => t.global_context().insert(NAMES[*k], i),
                    V::S(s) => t.global_context().insert(NAMES[*k], s),
                }
            }
            t.add_raw_templates(srcs.clone()).map(|_| t).map_err(|e| e.to_string())
        });
        let t = match built {
            Ok(Ok(t)) => t,
            Ok(Err(e)) => {
                cx.violation("C03/valid-program-rejected", format!("a generated statement tree was rejected: {}", clip(&e, 300)), replay);
                continue;
            }
            Err(p) => {
                cx.violation(&format!("C03/panic/{}", panic_site(&p)), format!("registration panicked: {p}"), replay);
                continue;
            }
        };
        let mut ctx = Context::new();
        for (k, v) in &ctxm {
            match v {
                V::I(i) => ctx.insert(NAMES[*k], i),
                V::S(s) => ctx.insert(NAMES[*k], s),
            }
        }
        let mut st = St { loops: vec![], sets: BTreeMap::new(), parent: None, ctx: &ctxm, g: &gm, dumps: 0 };
        let mut o = vec![String::new()];
        run(&tpls[0], &mut st, &mut o, &tpls);
        let exp = o.pop().unwrap();
        cx.count("scope_dump_comparisons", st.dumps as u64);
        let mut sig = Vec::new();
        nesting_signature(&tpls[0], "", &mut sig);
        for s in sig.into_iter().take(12) {
            cx.cell(s);
        }
        match guard(|| t.render("t0", &ctx)) {
            Ok(Ok(out)) => {
                cx.count("programs_compared", 1);
                if out != exp {
                    // classify by the first construct kinds present, to keep classes stable
                    let has = |f: &dyn Fn(&S) -> bool| -> bool {
                        fn any(b: &[S], f: &dyn Fn(&S) -> bool) -> bool {
                            b.iter().any(|s| {
                                f(s) || match s {
                                    S::If(br, e) => br.iter().any(|(_, _, x)| any(x, f)) || any(e, f),
                                    S::For(_, _, _, x, y) | S::ForStr(_, _, x, y) | S::ForKV(_, _, _, x, y) => any(x, f) || any(y, f),
                                    S::SetBlock(_, _, x) | S::Filt(_, x) => any(x, f),
                                    _ => false,
                                }
                            })
                        }
                        tpls.iter().any(|b| any(b, f))
                    };
                    let mut tags = vec![];
                    if has(&|s| matches!(s, S::Break(_) | S::Continue(_))) {
                        tags.push("break-continue");
                    }
                    if has(&|s| matches!(s, S::Inc(_))) {
                        tags.push("include");
                    }
                    if has(&|s| matches!(s, S::SetBlock(..) | S::Filt(..))) {
                        tags.push("capture");
                    }
                    if has(&|s| matches!(s, S::SetG(..))) {
                        tags.push("set_global");
                    }
                    if has(&|s| matches!(s, S::Dump)) {
                        tags.push("scope-dump");
                    }
                    cx.violation(&format!("C03/output-differs-from-model/{}", tags.join("+")), format!("rendered {:?}, the documented semantics give {:?}", clip(&out, 400), clip(&exp, 400)), replay);
                }
            }
            Ok(Err(e)) => cx.violation("C03/valid-program-fails", format!("rendering failed: {}; the model gives {:?}", clip(&e.to_string(), 300), clip(&exp, 200)), replay),
            Err(p) => cx.violation(&format!("C03/panic/{}", panic_site(&p)), format!("render panicked: {p}"), replay),
        }
        let s2 = srcs.clone();
        cx.sample(|| json!({"templates": s2, "expected": clip(&exp, 200)}));
    }
}
