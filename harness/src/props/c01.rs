//! C01 — autoescaping. Two observation modes over the same generated programs:
//! (A) default escaper, data drawn from an alphabet disjoint from template text: no raw `< > " '` may reach the output and
//!     every `&` must start one of the five entities;
//! (B) a marking escaper installed with the public `set_escape_fn` wraps every escaped string in private-use brackets and
//!     counts its calls: the bracket depth of every data character is the number of times it was escaped.
use crate::core::*;
use crate::progs::{base_context, PGen};
use serde_json::json;
use std::io::Write;
use std::sync::atomic::{AtomicU64, Ordering};
use tera::{value::Map, Context, Kwargs, State, Tera, Value};

static ESC_CALLS: AtomicU64 = AtomicU64::new(0);
static ESC_INVALID_UTF8: AtomicU64 = AtomicU64::new(0);

fn mark(s: &str, out: &mut dyn Write) -> std::io::Result<()> {
    ESC_CALLS.fetch_add(1, Ordering::Relaxed);
    // the string was produced with from_utf8_unchecked: validate it where it becomes observable
    if std::str::from_utf8(s.as_bytes()).is_err() {
        ESC_INVALID_UTF8.fetch_add(1, Ordering::Relaxed);
    }
    out.write_all("\u{e000}".as_bytes())?;
    out.write_all(s.as_bytes())?;
    out.write_all("\u{e001}".as_bytes())
}

/// data alphabet: Greek letters + the five specials; template text uses ASCII lowercase letters only
const DATA: &str = "αβγ<>\"'&";
fn is_data(c: char) -> bool {
    DATA.contains(c) || ('Α'..='Ω').contains(&c)
}

struct Prog {
    tpls: Vec<(String, String)>,
    entry: String,
    passthrough: bool,
    safe: bool,
    ctx: Context,
    route: Vec<&'static str>,
    sink: &'static str,
}

fn build(r: &mut Rng, autoescape: bool, ext_on: &str, ext_off: &str) -> Prog {
    let ext = if autoescape { ext_on } else { ext_off };
    let src_val: String = {
        let mut s = String::from("α");
        for _ in 0..(1 + r.below(4)) {
            s.push(DATA.chars().nth(r.below(8)).unwrap());
        }
        // strings made only of special characters too
        if r.chance(1, 6) {
            s = (0..(1 + r.below(4))).map(|_| *r.pick(&['<', '>', '"', '\'', '&'])).collect();
        }
        s
    };
    let mut ctx = Context::new();
    let mut tpls: Vec<(String, String)> = vec![];
    let mut passthrough = true;
    let mut route: Vec<&'static str> = vec![];
    // source
    let mut pre = String::new();
    let mut cur = match r.below(8) {
        6 | 7 => {
            // the data is a map *key*: reached through a key/value loop or the keys filter
            let mut m = Map::new();
            m.insert(src_val.clone().into(), Value::from("z"));
            ctx.insert_value("hm", Value::from(m));
            if r.bool() {
                pre += "{% for kk, yy in hm %}{% set_global k0 = kk %}{% endfor %}";
                route.push("ctx-map-key-loop");
            } else {
                pre += "{% set k0 = hm | keys | first %}";
                route.push("ctx-map-key-filter");
            }
            "k0".to_string()
        }
        0 | 3 => {
            ctx.insert("v", &src_val);
            route.push("ctx-string");
            "v".to_string()
        }
        1 => {
            let mut m = Map::new();
            m.insert("k".into(), Value::from(src_val.as_str()));
            ctx.insert_value("m", Value::from(m));
            route.push("ctx-map-field");
            "m.k".to_string()
        }
        2 => {
            ctx.insert("arr", &vec![src_val.clone()]);
            route.push("ctx-array-item");
            "arr[0]".to_string()
        }
        4 => {
            let mut inner = Map::new();
            inner.insert("k".into(), Value::from(src_val.as_str()));
            let mut m = Map::new();
            m.insert("n".into(), Value::from(inner));
            ctx.insert_value("mm", Value::from(m));
            route.push("ctx-nested");
            "mm.n.k".to_string()
        }
        _ => {
            route.push("literal");
            format!("\"{}\"", src_val.replace('\\', "").replace('"', "'"))
        }
    };
    let mut nvar = 0;
    let mut extra_tpls = vec![];
    let mut comps = String::new();
    let safe_at_end = r.chance(1, 4);
    let mut caplike = false;
    let mut rebuild = false;
    for _ in 0..(1 + r.below(6)) {
        nvar += 1;
        let x = format!("x{nvar}");
        match r.below(32) {
            24 => {
                // every built-in that returns text built from its input: the result is a new, normal string
                // (`reverse` and cutting filters are left out: they would reorder the marks an earlier capture left)
                let f = *r.pick(&["lower", "capitalize", "title", "trim", "trim_start", "trim_end", "truncate(length=9999)", "indent", "str", "newlines_to_br", "trim(pat=\"zz\")", "pl", "via(name=\"upper\")", "via(name=\"pl\")", "mk | lower", "truncate(length=9999, end=\"\")", "indent(first=true)", "replace(from=\"\", to=\"\")"]);
                pre += &format!("{{% set {x} = {cur} | {f} %}}");
                route.push("filter-text-builtin");
                rebuild = true;
                cur = x;
            }
            25 => {
                let f = *r.pick(&["last", "nth(n=0)", "sort | first", "unique | first", "reverse | first", "sort | last"]);
                pre += &format!("{{% set {x} = [{cur}] | {f} %}}");
                route.push("filter-array-builtin");
                cur = x;
            }
            26 => {
                match r.below(3) {
                    0 => pre += &format!("{{% set {x} = {{\"k\": {cur} }} | get(key=\"k\") %}}"),
                    1 => pre += &format!("{{% set {x} = {{\"k\": {cur} }} | values | first %}}"),
                    _ => pre += &format!("{{% set {x}p = {{\"k\": {cur} }} | pairs | first %}}{{% set {x} = {x}p[1] %}}"),
                }
                route.push("filter-map-builtin");
                cur = x;
            }
            27 => {
                pre += &format!("{{% for y{nvar} in [{cur}] %}}{{% set_global {x} = y{nvar} %}}{{% endfor %}}");
                route.push("loop-variable");
                cur = x;
            }
            28 => {
                pre += &format!("{{% for k{nvar}, y{nvar} in {{\"k\": {cur} }} %}}{{% set_global {x} = y{nvar} %}}{{% endfor %}}");
                route.push("key-value-loop");
                cur = x;
            }
            29 => {
                pre += &format!("{{% set {x} = {cur} | split(pat=\"zzz\") | first %}}");
                route.push("split-first");
                rebuild = true;
                cur = x;
            }
            30 => {
                pre += &format!("{{% set {x} = [y{nvar} for y{nvar} in [{cur}]] | first %}}");
                route.push("comprehension");
                cur = x;
            }
            31 => {
                pre += &format!("{{% set {x}a = [{cur}] %}}{{% set {x} = {x}a[-1] %}}");
                route.push("negative-index");
                cur = x;
            }
            19 => {
                // engine-escaped (safe) text concatenated with data: the result is a new, normal string
                pre += &format!("{{% set s{nvar} %}}k{{% endset %}}{{% set {x} = s{nvar} ~ {cur} %}}");
                route.push("concat-after-safe-capture");
                rebuild = true;
                cur = x;
            }
            20 => {
                pre += &format!("{{% set {x} = (\"k\" | safe) ~ {cur} %}}");
                route.push("concat-after-safe-literal");
                rebuild = true;
                cur = x;
            }
            21 => {
                // `safe` only works as the last filter: anything rebuilt afterwards is escaped again
                if r.bool() {
                    pre += &format!("{{% set {x} = {cur} | safe | upper %}}");
                } else {
                    pre += &format!("{{% set {x} = plf(v=mkf(v={cur})) %}}");
                }
                route.push("safe-then-upper");
                rebuild = true;
                cur = x;
            }
            22 => {
                pre += &format!("{{% set {x} = ({cur} | safe) ~ \"\" %}}");
                route.push("safe-then-concat");
                rebuild = true;
                cur = x;
            }
            23 => {
                pre += &format!("{{% set {x} = [{cur} | safe, \"\"] | join(sep=\"\") %}}");
                route.push("safe-then-join");
                rebuild = true;
                cur = x;
            }
            0 => {
                pre += &format!("{{% set {x} = {cur} %}}");
                route.push("set");
                cur = x;
            }
            1 if !safe_at_end => {
                pre += &format!("{{% set {x} %}}{{% for y{nvar} in [{cur}, {cur}] %}}{{% if loop.first %}}{{{{ y{nvar} }}}}{{% endif %}}{{% endfor %}}{{% endset %}}");
                route.push("loop-in-capture");
                caplike = true;
                cur = x;
            }
            2 if !safe_at_end => {
                // capture: escaped once inside, printed as is
                pre += &format!("{{% set {x} %}}a{{{{ {cur} }}}}b{{% endset %}}");
                route.push("set-block");
                caplike = true;
                cur = x;
            }
            3 if !safe_at_end => {
                pre += &format!("{{% set {x} %}}{{% filter trim %}} {{{{ {cur} }}}} {{% endfilter %}}{{% endset %}}");
                route.push("filter-section");
                caplike = true;
                rebuild = true;
                cur = x;
            }
            4 if !safe_at_end => {
                let name = format!("inc{nvar}.{ext}");
                extra_tpls.push((name.clone(), format!("i{{{{ {cur} }}}}j")));
                pre += &format!("{{% set {x} %}}{{% include \"{name}\" %}}{{% endset %}}");
                route.push("include");
                caplike = true;
                cur = x;
            }
            5 if !safe_at_end => {
                comps += &format!("{{% component c{nvar}(p) %}}c{{{{ p }}}}d{{% endcomponent %}}");
                pre += &format!("{{% set {x} = <c{nvar} p={{{cur}}} /> %}}");
                route.push("component-argument");
                caplike = true;
                cur = x;
            }
            6 if !safe_at_end => {
                comps += &format!("{{% component b{nvar}() %}}e{{{{ body }}}}f{{% endcomponent %}}");
                pre += &format!("{{% set {x} %}}{{% <b{nvar}> %}}g{{{{ {cur} }}}}h{{% </b{nvar}> %}}{{% endset %}}");
                route.push("component-body");
                caplike = true;
                cur = x;
            }
            7 => {
                pre += &format!("{{% set {x} = {cur} ~ \"\" %}}");
                route.push("concat");
                rebuild = true;
                cur = x;
            }
            8 => {
                pre += &format!("{{% set {x} = {cur} | upper %}}");
                route.push("filter-upper");
                rebuild = true;
                cur = x;
            }
            9 => {
                pre += &format!("{{% set {x} = {cur} if true else \"\" %}}");
                route.push("ternary");
                cur = x;
            }
            10 => {
                pre += &format!("{{% set {x} = nothing or {cur} %}}");
                route.push("or");
                cur = x;
            }
            11 => {
                pre += &format!("{{% set {x} = [{cur}] | first %}}");
                route.push("array-first");
                cur = x;
            }
            12 => {
                pre += &format!("{{% set {x} = {cur} | default(value=\"\") %}}");
                route.push("default");
                cur = x;
            }
            13 if !safe_at_end => {
                comps += &format!("{{% component r{nvar}(...rest) %}}{{{{ rest.q }}}}{{% endcomponent %}}");
                pre += &format!("{{% set {x} = <r{nvar} q={{{cur}}} /> %}}");
                route.push("component-rest");
                caplike = true;
                cur = x;
            }
            14 => {
                pre += &format!("{{% set {x} = {{\"k\": {cur} }} %}}{{% set {x}b = {x}.k %}}");
                route.push("map-literal-field");
                cur = format!("{x}b");
            }
            15 => {
                pre += &format!("{{% set {x} = {cur} | replace(from=\"zz\", to=\"\") %}}");
                route.push("filter-replace");
                rebuild = true;
                cur = x;
            }
            16 => {
                pre += &format!("{{% set {x} = ident(v={cur}) %}}");
                route.push("function-result");
                cur = x;
            }
            17 => {
                pre += &format!("{{% set {x} = [{cur}, \"\"] | join(sep=\"\") %}}");
                route.push("join");
                rebuild = true;
                cur = x;
            }
            _ => {
                pre += &format!("{{% set_global {x} = {cur}[0:] %}}");
                route.push("slice");
                cur = x;
            }
        }
    }
    // an already-escaped capture that is rebuilt afterwards loses its safe mark: escaped again (depth >= 1 still holds)
    if caplike && rebuild {
        passthrough = false;
    }
    // print site: plain expression (WriteTop), bare variable path (fused WritePath), or a directly printed container
    let (print, sink): (String, &'static str) = if safe_at_end {
        match r.below(6) {
            0 => (format!("{{{{ {cur} | mk }}}}"), "filter-registered-safe"),
            1 => (format!("{{{{ mkf(v={cur}) }}}}"), "function-registered-safe"),
            2 => (format!("{{{{ {cur} | via(name=\"mk\") }}}}"), "safe-filter-through-call_filter"),
            3 => (format!("{{% set ms = {cur} | mk %}}{{{{ ms }}}}"), "filter-registered-safe-then-variable"),
            _ => (format!("{{{{ {cur} | safe }}}}"), "safe"),
        }
    } else {
        match r.below(5) {
            0 => {
                passthrough = false; // strings are quoted inside containers: the quotes are data as well
                (format!("{{{{ [{cur}] }}}}"), "array-literal")
            }
            1 => {
                passthrough = false;
                (format!("{{{{ {{\"k\": {cur} }} }}}}"), "map-literal")
            }
            2 => (format!("{{% set w = {{\"f\": {cur} }} %}}{{{{ w.f }}}}"), "fused-path"),
            3 => (format!("{{% set cap %}}{{{{ {cur} }}}}{{% endset %}}{{{{ cap }}}}"), "inside-capture"),
            _ => (format!("{{{{ {cur} }}}}"), "expression"),
        }
    };
    let body = format!("{pre}p{print}q");
    let entry = format!("entry.{ext}");
    if r.chance(1, 3) {
        tpls.push((format!("base.{ext}"), "s{% block main %}{% endblock %}t".into()));
        tpls.push((entry.clone(), format!("{{% extends \"base.{ext}\" %}}{{% block main %}}{body}{{% endblock %}}")));
        route.push("block");
    } else if r.chance(1, 4) {
        tpls.push((format!("base.{ext}"), "s{% block main %}u{% block inner %}{% endblock %}{% endblock %}t".into()));
        tpls.push((format!("mid.{ext}"), format!("{{% extends \"base.{ext}\" %}}{{% block inner %}}{body}{{% endblock %}}")));
        tpls.push((entry.clone(), format!("{{% extends \"mid.{ext}\" %}}{{% block inner %}}w{{{{ super() }}}}{{% endblock %}}")));
        route.push("super");
    } else {
        tpls.push((entry.clone(), body));
    }
    tpls.push((format!("comps.{ext}"), comps));
    tpls.extend(extra_tpls);
    Prog { tpls, entry, passthrough, safe: safe_at_end, ctx, route, sink }
}

fn depths(out: &str) -> Vec<(char, i32)> {
    let mut d = 0;
    let mut v = vec![];
    for c in out.chars() {
        match c {
            '\u{e000}' => d += 1,
            '\u{e001}' => d -= 1,
            c if is_data(c) => v.push((c, d)),
            _ => {}
        }
    }
    v
}

/// A filter registered as safe: what it returns is written as is
struct SafeWrapFilter;
impl tera::Filter<&str, String> for SafeWrapFilter {
    fn call(&self, value: &str, _: Kwargs, _: &State) -> String {
        format!("‹{value}›")
    }
    fn is_safe(&self) -> bool {
        true
    }
}
/// A function registered as safe
struct SafeEchoFunction;
impl tera::Function<tera::TeraResult<String>> for SafeEchoFunction {
    fn call(&self, kw: Kwargs, _: &State) -> tera::TeraResult<String> {
        Ok(format!("«{}»", kw.must_get::<String>("v")?))
    }
    fn is_safe(&self) -> bool {
        true
    }
}

fn engine(suffixes: Option<&[&'static str]>, late: bool, tpls: &[(String, String)]) -> Result<Tera, String> {
    let mut t = Tera::default();
    t.register_filter("mk", SafeWrapFilter);
    t.register_function("mkf", SafeEchoFunction);
    // the same two, not registered as safe
    t.register_filter("pl", |v: &str, _: Kwargs, _: &State| format!("‹{v}›"));
    t.register_function("plf", |kw: Kwargs, _: &State| -> tera::TeraResult<String> { Ok(format!("«{}»", kw.must_get::<String>("v")?)) });
    // a filter that applies another registered filter through the State API
    t.register_filter("via", |v: Value, kw: Kwargs, st: &State| -> tera::TeraResult<Value> { st.call_filter(kw.must_get::<&str>("name")?, &v, Kwargs::default()) });
    t.register_function("ident", |kw: Kwargs, _: &State| -> tera::TeraResult<Value> { Ok(kw.get::<Value>("v")?.unwrap_or(Value::none())) });
    if let (Some(s), false) = (suffixes, late) {
        t.autoescape_on(s.to_vec());
    }
    t.add_raw_templates(tpls.to_vec()).map_err(|e| e.to_string())?;
    if let (Some(s), true) = (suffixes, late) {
        t.autoescape_on(s.to_vec());
    }
    Ok(t)
}

/// raw specials / bare ampersands in an output produced with the default escaper
fn raw_special(out: &str) -> Option<String> {
    if let Some(c) = out.chars().find(|c| "<>\"'".contains(*c)) {
        return Some(format!("raw `{c}`"));
    }
    let b = out.as_bytes();
    for (i, c) in b.iter().enumerate() {
        if *c == b'&' && !["&amp;", "&lt;", "&gt;", "&quot;", "&#39;", "&#x27;"].iter().any(|e| out[i..].starts_with(e)) {
            return Some("bare `&`".to_string());
        }
    }
    None
}

/// Which templates are autoescaped is decided by the whole name against the whole suffix list, whatever the order and
/// grouping in which templates were added and suffix lists were set: names sharing their last extension but not the
/// matching suffix, multi-dot suffixes, suffixes without a dot, a name equal to a suffix, registration in several calls
/// with the list changed before, between and after them. After every step every registered template is rendered alone
/// (a world in which every participating template has the same setting) with the marking escaper.
fn suffix_history_case(cx: &mut Cx, case: u64, r: &mut Rng) {
    cx.begin_case(case, "suffix-history");
    const NAMES: &[&str] = &["a.html", "b.php.html", "mail/plain.html", "c.a.b", "d.b", "x.tpl", "y.t.tpl", "noext", "e.html.txt", "f.xml", ".html", "g.HTML", "h.php.htm", "dir.html/i", "j.txt", "k.t.txt", "l.php.xml", "m.a.a.b"];
    const LISTS: &[&[&str]] = &[&[".php.html"], &[".html"], &[".a.b", ".tpl"], &[".t.tpl", ".t.txt"], &["html"], &["l"], &[], &[".html", ".php.html"], &["plain.html"], &[".php.htm", ".php.xml"], &[".b"], &[".a.a.b", ".txt"], &["ext"], &[".html.txt"]];
    let mut t = Tera::default();
    t.set_escape_fn(mark);
    let mut current: Vec<&str> = vec![".html", ".htm", ".xml"];
    let mut names: Vec<&str> = NAMES.to_vec();
    for i in (1..names.len()).rev() {
        names.swap(i, r.below(i + 1));
    }
    names.truncate(3 + r.below(8));
    let mut registered: Vec<&str> = Vec::new();
    let mut history: Vec<serde_json::Value> = Vec::new();
    let mut pos = 0;
    let steps = 2 + r.below(5);
    let mut ctx = Context::new();
    ctx.insert("v", "α<'");
    for _ in 0..steps {
        if pos < names.len() && r.chance(2, 3) {
            let n = 1 + r.below((names.len() - pos).min(4));
            let batch: Vec<(String, String)> = names[pos..pos + n].iter().map(|n| (n.to_string(), "t{{ v }}{% set c %}{{ v }}{% endset %}{{ c }}".to_string())).collect();
            history.push(json!({"add": names[pos..pos + n]}));
            registered.extend(&names[pos..pos + n]);
            pos += n;
            if let Err(e) = t.add_raw_templates(batch) {
                cx.violation("C01/valid-route-rejected/suffix-history", format!("registration failed: {e}"), json!({"history": history}));
                return;
            }
        } else {
            let l = *r.pick(LISTS);
            history.push(json!({"autoescape_on": l}));
            t.autoescape_on(l.to_vec());
            current = l.to_vec();
        }
        for name in &registered {
            let expect = current.iter().any(|s| name.ends_with(s));
            let b0 = ESC_CALLS.load(Ordering::Relaxed);
            cx.eval();
            match guard(|| t.render(name, &ctx)) {
                Ok(Ok(o)) => {
                    let calls = ESC_CALLS.load(Ordering::Relaxed) - b0;
                    let ds = depths(&o);
                    cx.count("suffix_decisions_checked", 1);
                    cx.cell(format!("suffix-history|{name}|{}|{}", current.join(","), if expect { "on" } else { "off" }));
                    let ok = if expect { ds.len() == 6 && ds.iter().all(|(_, d)| *d == 1) && calls == 2 } else { ds.len() == 6 && ds.iter().all(|(_, d)| *d == 0) && calls == 0 };
                    if !ok {
                        cx.violation(
                            &format!("C01/suffix-decision/{}", if expect { "unescaped-data" } else { "escaper-used-although-autoescape-is-off" }),
                            format!("template {name:?} with the suffix list {current:?} should {}be autoescaped; {calls} escaper call(s), marked output {o:?}", if expect { "" } else { "not " }),
                            json!({"history": history, "template": name, "suffixes": current}),
                        );
                        return;
                    }
                }
                other => {
                    cx.violation("C01/valid-route-fails/suffix-history", format!("render of {name:?} failed: {:?}", other.map(|x| x.map_err(|e| e.to_string()))), json!({"history": history}));
                    return;
                }
            }
        }
    }
}

/// The safe mark belongs to a value, not to its text: the same text routed twice in a row through the same sink — a
/// component argument, a component body, a registered function or filter argument, `default`, a map entry, an assignment
/// — once marked safe and once not, in both orders, is written raw where it was marked and through the escaper where it
/// was not. The halves are separated by template text; the marking escaper says which is which.
fn twin_sink_case(cx: &mut Cx, case: u64, r: &mut Rng) {
    cx.begin_case(case, "twin-sinks");
    const SINKS: &[(&str, &str)] = &[
        ("component-arg", "{{ <tw a={@} /> }}"),
        ("component-arg-in-body-call", "{% <tw a={@}> %}x{% </tw> %}"),
        ("component-body", "{% <twb> %}{{ @ }}{% </twb> %}"),
        // what a function or filter returns is a new value: only the unmarked occurrences are asserted for these two
        ("function-result", "{{ ident(v=@) }}"),
        ("filter-result", "{{ nope | default(value=@) }}"),
        ("map-entry", "{% set m = {\"k\": @} %}{{ m.k }}"),
        ("array-entry", "{{ [@][0] }}"),
        ("assignment", "{% set w = @ %}{{ w }}"),
        ("ternary", "{{ @ if true else 0 }}"),
        ("print", "{{ @ }}"),
    ];
    let (sname, sink) = *r.pick(SINKS);
    let src = *r.pick(&["v", "v2", "\"αβ<'\"", "m0.k"]);
    let n = 2 + r.below(3);
    let flags: Vec<bool> = (0..n).map(|_| r.bool()).collect();
    let in_loop = r.chance(1, 3);
    let body: String = if in_loop && !sink.contains("{% set") {
        // the same call site visited with a safe and an unsafe element in turn
        let elems: Vec<String> = flags.iter().map(|f| if *f { format!("{src} | safe") } else { src.to_string() }).collect();
        format!("{{% for e in [{}] %}}{}z{{% endfor %}}", elems.join(", "), sink.replace('@', "e"))
    } else {
        flags.iter().map(|f| format!("{}z", sink.replace('@', &if *f { format!("{src} | safe") } else { src.to_string() }))).collect()
    };
    let tpls = vec![("c.html".to_string(), "{% component tw(a) %}{{ a }}{% endcomponent %}{% component twb() %}{{ body }}{% endcomponent %}".to_string()), ("t.html".to_string(), body)];
    let replay = json!({"templates": tpls, "safe_flags": flags, "sink": sname});
    let Ok(Ok(mut t)) = guard(|| engine(None, false, &tpls)) else {
        cx.violation("C01/valid-route-rejected/twin-sinks", "registration failed".to_string(), replay);
        return;
    };
    t.set_escape_fn(mark);
    let mut ctx = Context::new();
    ctx.insert("v", "αβ<'");
    ctx.insert("v2", "αβ<'");
    let mut m = Map::new();
    m.insert("k".into(), Value::from("αβ<'"));
    ctx.insert_value("m0", Value::from(m));
    cx.eval();
    match guard(|| t.render("t.html", &ctx)) {
        Ok(Ok(o)) => {
            let parts: Vec<&str> = o.split('z').collect();
            cx.count("twin_sink_halves_classified", flags.len() as u64);
            cx.cell(format!("twin-sinks|{sname}|{src}|{}|{}", if in_loop { "loop" } else { "inline" }, flags.iter().map(|f| if *f { 's' } else { 'u' }).collect::<String>()));
            if parts.len() != flags.len() + 1 {
                cx.violation("C01/data-lost/twin-sinks", format!("expected {} parts, marked output {o:?}", flags.len()), replay);
                return;
            }
            for (i, f) in flags.iter().enumerate() {
                let ds = depths(parts[i]);
                let want = if *f { 0 } else { 1 };
                if *f && sname.ends_with("-result") {
                    continue;
                }
                if ds.len() != 4 || ds.iter().any(|(_, d)| *d != want) {
                    cx.violation(
                        &format!("C01/{}/twin-{sname}", if *f { "safe-value-escaped" } else { "unescaped-data" }),
                        format!("occurrence {i} ({}) of the same text through {sname}: marked output {o:?}", if *f { "marked safe" } else { "not marked safe" }),
                        replay,
                    );
                    return;
                }
            }
        }
        other => cx.violation("C01/valid-route-fails/twin-sinks", format!("render failed: {:?}", other.map(|x| x.map_err(|e| e.to_string()))), replay),
    }
}

pub fn run(cx: &mut Cx) {
    let total = cx.total(40_000, 3_000_000);
    let vars = base_context();
    for case in cx.my_cases(total) {
        let mut r = cx.rng(case);
        if case % 8 == 7 {
            // ---- the general program generator in mode A: text free of markup, no `safe`, hostile data
            cx.begin_case(case, "programs-mode-a");
            let program = {
                let mut g = PGen::new(&mut r);
                g.allow_safe = false;
                g.markup_free = true;
                g.program()
            };
            let built = guard(|| crate::props::c18::build_engine(&program));
            let Ok(Ok(t)) = built else {
                cx.count("programs_rejected", 1);
                continue;
            };
            let mut ctx = crate::props::c18::context_of(&vars);
            ctx.insert("a", "A<arg>'\"&");
            ctx.insert("n", &3);
            for e in &program.entries {
                cx.eval();
                match guard(|| t.render(e, &ctx)) {
                    Ok(Ok(out)) => {
                        cx.count("mode_a_outputs_checked", 1);
                        cx.cell("mode-a|program".to_string());
                        if let Some(what) = raw_special(&out) {
                            cx.violation("C01/unescaped-data-in-autoescaped-output", format!("{what} in the output of {e} although all text is markup free and `safe` is unused: {:?}", clip(&out, 400)), json!({"templates": program.templates}));
                        }
                    }
                    Ok(Err(_)) => {}
                    Err(p) => cx.violation(&format!("C01/panic/{}", panic_site(&p)), format!("render panicked: {p}"), json!({"templates": program.templates})),
                }
            }
            continue;
        }
        if case % 16 == 5 {
            suffix_history_case(cx, case, &mut r);
            continue;
        }
        if case % 16 == 13 {
            twin_sink_case(cx, case, &mut r);
            continue;
        }
        cx.begin_case(case, "routes");
        // configuration: default suffixes, custom suffix lists set before or after adding templates, per-call flags
        let config = r.below(4);
        let (suffixes, ext_on, ext_off): (Option<&[&'static str]>, &str, &str) = match config {
            0 => (None, "html", "txt"),
            1 => (Some(&[".tpl", ".html"]), "tpl", "xml"),
            2 => (Some(&[".a.b"]), "a.b", "html"),
            _ => (None, "xml", "md"),
        };
        let late = r.bool();
        let autoescape = r.below(5) != 0;
        let p = build(&mut r, autoescape, ext_on, ext_off);
        let replay = json!({"templates": p.tpls, "entry": p.entry, "autoescape": autoescape, "suffixes": suffixes, "suffixes_set_after_adding": late, "route": p.route, "sink": p.sink});
        let mut t = match guard(|| engine(suffixes, late, &p.tpls)) {
            Ok(Ok(t)) => t,
            Ok(Err(e)) => {
                cx.violation("C01/valid-route-rejected", format!("registration failed: {}", clip(&e, 300)), replay);
                continue;
            }
            Err(pn) => {
                cx.violation(&format!("C01/panic/{}", panic_site(&pn)), format!("registration panicked: {pn}"), replay);
                continue;
            }
        };
        cx.count("programs", 1);
        let sig = format!("{}|{}|{}|config{config}{}", p.route.join(">"), p.sink, if autoescape { "on" } else { "off" }, if late { "-late" } else { "" });
        cx.cell(sig);
        // ---- mode A: default escaper
        cx.eval();
        let out_a = match guard(|| t.render(&p.entry, &p.ctx)) {
            Ok(Ok(o)) => o,
            Ok(Err(e)) => {
                cx.violation("C01/valid-route-fails", format!("render failed: {}", clip(&e.to_string(), 300)), replay);
                continue;
            }
            Err(pn) => {
                cx.violation(&format!("C01/panic/{}", panic_site(&pn)), format!("render panicked: {pn}"), replay);
                continue;
            }
        };
        if autoescape && !p.safe {
            cx.count("mode_a_outputs_checked", 1);
            if let Some(what) = raw_special(&out_a) {
                cx.violation(&format!("C01/unescaped-data-in-autoescaped-output/{}", p.sink), format!("{what} in {:?}", clip(&out_a, 300)), replay.clone());
            }
        }
        // ---- mode B: marking escaper
        t.set_escape_fn(mark);
        let before = ESC_CALLS.load(Ordering::Relaxed);
        cx.eval();
        let out_b = match guard(|| t.render(&p.entry, &p.ctx)) {
            Ok(Ok(o)) => o,
            other => {
                cx.violation("C01/render-differs-with-custom-escaper", format!("the render with a custom escape function did not succeed: {:?}", other.map(|r| r.map_err(|e| e.to_string()))), replay);
                continue;
            }
        };
        let calls = ESC_CALLS.load(Ordering::Relaxed) - before;
        cx.count("escape_calls_logged", calls);
        let ds = depths(&out_b);
        cx.count("data_characters_classified", ds.len() as u64);
        if ds.is_empty() {
            cx.violation("C01/data-lost", format!("no data character reached the output {:?}", clip(&out_b, 200)), replay.clone());
        }
        let verdict: Option<(&str, String)> = if !autoescape {
            cx.count("not_autoescaped_programs", 1);
            if calls != 0 || ds.iter().any(|(_, d)| *d != 0) {
                Some(("escaper-used-although-autoescape-is-off", format!("{calls} escaper call(s)")))
            } else {
                None
            }
        } else if p.safe {
            cx.count("safe_programs", 1);
            ds.iter().find(|(_, d)| *d != 0).map(|(c, d)| ("safe-value-escaped", format!("`{c}` at depth {d}")))
        } else if p.passthrough {
            cx.count("pass_through_programs", 1);
            ds.iter().find(|(_, d)| *d != 1).map(|(c, d)| (if *d == 0 { "unescaped-data" } else { "double-escaping-of-engine-escaped-text" }, format!("`{c}` at depth {d} in a pass-through route")))
        } else {
            ds.iter().find(|(_, d)| *d < 1).map(|(c, d)| ("unescaped-data", format!("`{c}` at depth {d}")))
        };
        if let Some((class, why)) = verdict {
            cx.violation(&format!("C01/{class}/{}", p.sink), format!("{why}; marked output {:?}", clip(&out_b, 300)), replay.clone());
        }
        // ---- the same program through render_block: the block's text obeys the same rule as inside the full render
        if let Some(bname) = if p.route.contains(&"block") { Some("main") } else if p.route.contains(&"super") { Some("inner") } else { None } {
            let b0 = ESC_CALLS.load(Ordering::Relaxed);
            cx.eval();
            match guard(|| t.render_block(&p.entry, bname, &p.ctx)) {
                Ok(Ok(ob)) => {
                    let calls = ESC_CALLS.load(Ordering::Relaxed) - b0;
                    let ds = depths(&ob);
                    cx.count("render_block_outputs_classified", 1);
                    let bad: Option<String> = if !autoescape {
                        (calls != 0 || ds.iter().any(|(_, d)| *d != 0)).then(|| format!("{calls} escaper call(s) although autoescape is off"))
                    } else if p.safe {
                        ds.iter().find(|(_, d)| *d != 0).map(|(c, d)| format!("safe value escaped: `{c}` at depth {d}"))
                    } else if p.passthrough {
                        ds.iter().find(|(_, d)| *d != 1).map(|(c, d)| format!("`{c}` at depth {d} in a pass-through route"))
                    } else {
                        ds.iter().find(|(_, d)| *d < 1).map(|(c, d)| format!("`{c}` at depth {d}"))
                    };
                    if ds.is_empty() {
                        cx.violation("C01/data-lost/render_block", format!("render_block({bname}) wrote no data character: {:?}", clip(&ob, 200)), replay.clone());
                    } else if let Some(why) = bad {
                        cx.violation(&format!("C01/render_block-escapes-differently/{}", p.sink), format!("render_block({bname}): {why}; marked output {:?}", clip(&ob, 300)), replay.clone());
                    }
                }
                other => cx.violation("C01/render_block-fails", format!("render_block({bname}) on a route that renders: {:?}", other.map(|r| r.map_err(|e| e.to_string()))), replay.clone()),
            }
        }
        // ---- per-call flags: render_str with the flag on/off behaves like the matching suffix
        if case % 5 == 0 {
            let src = "{{ v }}|{{ m.k }}|{% set c %}{{ v }}{% endset %}{{ c }}";
            let mut c2 = Context::new();
            c2.insert("v", "α<'");
            let mut m = Map::new();
            m.insert("k".into(), Value::from("β&\""));
            c2.insert_value("m", Value::from(m));
            for flag in [true, false] {
                let b0 = ESC_CALLS.load(Ordering::Relaxed);
                cx.eval();
                if let Ok(Ok(o)) = guard(|| t.render_str(src, &c2, flag)) {
                    let calls = ESC_CALLS.load(Ordering::Relaxed) - b0;
                    let ds = depths(&o);
                    let ok = if flag { ds.iter().all(|(_, d)| *d == 1) && calls == 3 } else { ds.iter().all(|(_, d)| *d == 0) && calls == 0 };
                    cx.count("per_call_flag_checks", 1);
                    if !ok {
                        cx.violation("C01/render_str-ignores-its-autoescape-flag", format!("render_str(.., autoescape={flag}) made {calls} escaper call(s): {o:?}"), json!({"source": src, "flag": flag}));
                    }
                }
            }
        }
        // ---- render_component with its per-call flag, through includes and nested components. Only consistent worlds are
        //      asserted (flag on + every template autoescaped by suffix, flag off + none): what a mixed render does is
        //      not stated by the property
        if case % 3 == 0 {
            // … except for `render_component`, whose flag is the setting of the whole render it starts: nested component
            // calls and the templates included below it follow the flag, whatever their own suffix says (`render_str`, whose
            // includes follow their own suffix, is a different entry point and is left alone)
            for (flag, ext) in [(true, "html"), (false, "txt"), (true, "txt"), (false, "html")] {
                let mixed = flag != (ext == "html");
                let parts = vec![
                    (format!("comps.{ext}"), format!("{{% component card(a) %}}[{{{{ a }}}}|{{% include \"part.{ext}\" %}}|{{{{ <inner a={{a}} /> }}}}|{{{{ body | default(value=\"\") }}}}]{{% endcomponent %}}{{% component inner(a) %}}({{{{ a }}}}{{% include \"part.{ext}\" %}}){{% endcomponent %}}")),
                    (format!("part.{ext}"), "p{{ a }}{% set c %}{{ a }}{% endset %}{{ c }}".to_string()),
                    (format!("page.{ext}"), format!("{{{{ <card a={{a}} /> }}}}{{% include \"part.{ext}\" %}}")),
                ];
                let Ok(Ok(mut t2)) = guard(|| engine(None, false, &parts)) else {
                    cx.violation("C01/api-flag-world-rejected", "the component/include world was rejected".to_string(), json!({"templates": parts}));
                    continue;
                };
                t2.set_escape_fn(mark);
                let mut c2 = Context::new();
                c2.insert("a", "β&\"<'");
                for which in ["render_component", "render"] {
                    if mixed && which == "render" {
                        continue;
                    }
                    let b0 = ESC_CALLS.load(Ordering::Relaxed);
                    cx.eval();
                    let r = guard(|| match which {
                        "render_component" => t2.render_component("card", &c2, Some("bodytext"), flag),
                        _ => t2.render(&format!("page.{ext}"), &c2),
                    });
                    match r {
                        Ok(Ok(o)) => {
                            let calls = ESC_CALLS.load(Ordering::Relaxed) - b0;
                            let ds = depths(&o);
                            cx.count("per_call_flag_checks", 1);
                            cx.cell(format!("api-flag|{which}|{flag}|{}", if mixed { "suffix-disagrees" } else { "suffix-agrees" }));
                            let ok = if flag { !ds.is_empty() && ds.iter().all(|(_, d)| *d == 1) } else { ds.iter().all(|(_, d)| *d == 0) && calls == 0 };
                            if !ok {
                                cx.violation(&format!("C01/component-include-world-escaping/{which}"), format!("{which} (autoescape {flag} everywhere): {calls} escaper call(s), marked output {o:?}"), json!({"templates": parts, "flag": flag, "api": which}));
                            }
                        }
                        other => cx.violation("C01/api-flag-render-failed", format!("{which} with flag {flag} failed: {:?}", other.map(|x| x.map_err(|e| e.to_string()))), json!({"templates": parts})),
                    }
                }
            }
        }
        let (t2, r2) = (p.tpls.clone(), p.route.clone());
        cx.sample(|| json!({"templates": t2, "route": r2, "marked_output": clip(&out_b, 200), "default_escaper_output": clip(&out_a, 200)}));
    }
    let bad = ESC_INVALID_UTF8.load(Ordering::Relaxed);
    if bad > 0 {
        cx.violation("C01/escaper-received-invalid-utf8", format!("the escape function received {bad} string(s) that are not valid UTF-8"), json!({}));
    }
}
