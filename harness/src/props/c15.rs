//! C15 — coherence of equality, ordering and key lookup. Law checker over a value pool (all pairs and triples,
//! through the public PartialEq/PartialOrd/Ord of tera::Value and through templates) + key-lookup monitor against
//! an association-list model keyed by mathematical equality.
use crate::core::*;
use crate::model;
use crate::values::*;
use serde_json::json;
use std::cmp::Ordering;
use tera::value::{Key, Map};
use tera::{Context, Tera, Value};

pub fn base_pool() -> Vec<V> {
    let s = |x: &str| V::Str(x.to_string());
    let mut p = vec![V::Undef, V::None, V::Bool(false), V::Bool(true)];
    // every number in all the encodings able to hold it
    for (neg, mag) in [(false, 0u128), (false, 1), (true, 1), (false, 2), (true, 2), (false, 255), (false, 1 << 53), (false, (1 << 53) + 1), (false, i64::MAX as u128), (false, i64::MAX as u128 + 1),
        (true, i64::MAX as u128 + 1), (false, u64::MAX as u128), (false, u64::MAX as u128 + 1), (false, i128::MAX as u128), (false, i128::MAX as u128 + 1), (true, i128::MAX as u128 + 1), (false, u128::MAX)] {
        if !neg {
            if mag <= i64::MAX as u128 { p.push(V::I64(mag as i64)); }
            if mag <= u64::MAX as u128 { p.push(V::U64(mag as u64)); }
            if mag <= i128::MAX as u128 { p.push(V::I128(mag as i128)); }
            p.push(V::U128(mag));
        } else {
            if mag <= i64::MAX as u128 + 1 { p.push(V::I64((mag as i128).wrapping_neg() as i64)); }
            if mag <= i128::MAX as u128 + 1 { p.push(V::I128((mag as i128).wrapping_neg())); }
        }
    }
    for f in [0.0, -0.0, 1.0, -1.0, 2.0, 0.5, 1.5, -1.5, 255.0, 9007199254740992.0, 9007199254740994.0, 9223372036854775808.0, -9223372036854775808.0, 18446744073709551616.0,
        1.7014118346046923e38, -1.7014118346046923e38, 3.402823669209385e38, 1e300, -1e300, f64::INFINITY, f64::NEG_INFINITY, f64::NAN, 5e-324] {
        p.push(V::F64(f));
    }
    for t in ["", "a", "b", "ab", "A", "é", "日本", "1", "true", "a longer string that lives on the heap"] {
        p.push(s(t));
    }
    p.push(V::Safe("a".into()));
    p.push(V::Safe("".into()));
    p.push(V::Safe("a longer string that lives on the heap".into()));
    p.extend([V::Bytes(vec![]), V::Bytes(vec![97]), V::Bytes(vec![97, 98]), V::Bytes(vec![255])]);
    // arrays: nested, mixed kinds, prefixes of one another, incomparable items at the same position
    let arrs = vec![
        vec![], vec![V::I64(1)], vec![V::U64(1)], vec![V::F64(1.0)], vec![V::I64(2)], vec![V::I64(1), V::I64(2)], vec![V::I64(1), V::I64(3)], vec![s("a")], vec![s("b")], vec![V::Safe("a".into())],
        vec![V::I64(1), s("a")], vec![s("a"), V::I64(1)], vec![V::None], vec![V::Undef], vec![V::Bool(true)], vec![V::Arr(vec![])], vec![V::Arr(vec![V::I64(1)])], vec![V::Arr(vec![s("a")])],
        vec![V::Map(vec![])], vec![V::Map(vec![(K::Str("a".into()), V::I64(1))])], vec![V::Map(vec![(K::Str("a".into()), V::I64(2))])], vec![V::F64(f64::NAN)], vec![V::I64(0), V::None], vec![V::I64(0), V::I64(0), V::I64(0)],
        vec![V::Bytes(vec![1])], vec![V::I64(2), s("z")], vec![V::I64(1), V::Arr(vec![V::I64(0)])], vec![V::I64(1), V::Arr(vec![s("x")])],
    ];
    p.extend(arrs.into_iter().map(V::Arr));
    // maps: differing in one entry, one key, key encodings, nested
    let k = |x: &str| K::Str(x.to_string());
    let maps = vec![
        vec![], vec![(k("a"), V::I64(1))], vec![(k("a"), V::U64(1))], vec![(k("a"), V::I64(2))], vec![(k("b"), V::I64(1))], vec![(k("a"), V::I64(1)), (k("b"), V::I64(2))], vec![(k("b"), V::I64(2)), (k("a"), V::I64(1))],
        vec![(k("a"), V::I64(1)), (k("b"), V::I64(3))], vec![(K::I64(1), s("x"))], vec![(K::U64(1), s("x"))], vec![(K::I128(1), s("x"))], vec![(K::U128(1), s("x"))], vec![(K::I64(1), s("y"))], vec![(K::Bool(true), s("x"))],
        vec![(k("1"), s("x"))], vec![(k("a"), V::Map(vec![(k("b"), V::I64(1))]))], vec![(k("a"), V::Map(vec![(k("b"), V::I64(2))]))], vec![(k("a"), V::Arr(vec![V::I64(1)]))], vec![(k("a"), V::None)], vec![(k("a"), V::Undef)],
        vec![(k("a"), s("x"))], vec![(k("a"), V::Safe("x".into()))], (0..9).map(|i| (K::Str(format!("k{i}")), V::I64(i))).collect(), (0..9).map(|i| (K::Str(format!("k{i}")), V::I64(if i == 8 { 0 } else { i }))).collect(),
    ];
    p.extend(maps.into_iter().map(V::Map));
    p
}

fn ord_i8(o: Ordering) -> i8 {
    match o {
        Ordering::Less => -1,
        Ordering::Equal => 0,
        Ordering::Greater => 1,
    }
}

struct Laws<'a> {
    pool: &'a [V],
    tv: Vec<Value>,
    eqm: Vec<Vec<bool>>,
    cmpm: Vec<Vec<i8>>,
}

fn kinds3(p: &[V], i: usize, j: usize, k: usize) -> String {
    format!("{}/{}/{}", model::class(&p[i]), model::class(&p[j]), model::class(&p[k]))
}

fn check_laws(cx: &mut Cx, pool: &[V], tag: &str) {
    let tv: Vec<Value> = pool.iter().map(|v| v.to_tera()).collect();
    let n = pool.len();
    let mut l = Laws { pool, tv, eqm: vec![vec![false; n]; n], cmpm: vec![vec![0; n]; n] };
    // ---- pairs
    for i in 0..n {
        for j in 0..n {
            let (a, b) = (&l.tv[i], &l.tv[j]);
            let r = guard(|| (a == b, a.partial_cmp(b), a.cmp(b)));
            cx.eval();
            let (e, pc, c) = match r {
                Ok(x) => x,
                Err(p) => {
                    cx.violation(&format!("C15/panic/{}", panic_site(&p)), format!("panic comparing {:?} with {:?}: {p}", pool[i], pool[j]), json!({"a": pool[i].tagged(), "b": pool[j].tagged()}));
                    continue;
                }
            };
            l.eqm[i][j] = e;
            l.cmpm[i][j] = ord_i8(c);
            let (ka, kb) = (model::class(&pool[i]), model::class(&pool[j]));
            cx.cell(format!("pair|{}|{}", pool[i].kind(), pool[j].kind()));
            let me = model::eq(&pool[i], &pool[j]);
            if e != me {
                cx.violation(&format!("C15/eq-differs-from-structural-equality/{ka}/{kb}"), format!("{:?} == {:?} is {e}, structural/mathematical equality says {me}", pool[i], pool[j]), json!({"a": pool[i].tagged(), "b": pool[j].tagged(), "pool": tag}));
            }
            if let Some(o) = pc {
                if o != c {
                    cx.violation(&format!("C15/partial_cmp-disagrees-with-cmp/{ka}/{kb}"), format!("partial_cmp({:?}, {:?}) = {o:?} but cmp = {c:?}", pool[i], pool[j]), json!({"a": pool[i].tagged(), "b": pool[j].tagged()}));
                }
            }
            if let Some(mo) = model::scalar_cmp(&pool[i], &pool[j]) {
                if pc != Some(mo) {
                    cx.violation(&format!("C15/order-differs-from-exact-order/{ka}/{kb}"), format!("partial_cmp({:?}, {:?}) = {pc:?}, exact order says {mo:?}", pool[i], pool[j]), json!({"a": pool[i].tagged(), "b": pool[j].tagged()}));
                }
            } else if ka != kb && pc.is_some() {
                cx.violation(&format!("C15/cross-kind-comparable/{ka}/{kb}"), format!("partial_cmp({:?}, {:?}) = {pc:?} across kinds", pool[i], pool[j]), json!({"a": pool[i].tagged(), "b": pool[j].tagged()}));
            }
            if c == Ordering::Equal && !e {
                cx.violation(&format!("C15/cmp-equal-without-eq/{ka}/{kb}"), format!("cmp({:?}, {:?}) = Equal but they are not ==", pool[i], pool[j]), json!({"a": pool[i].tagged(), "b": pool[j].tagged(), "pool": tag}));
            }
            if e && c != Ordering::Equal {
                cx.violation(&format!("C15/eq-without-cmp-equal/{ka}/{kb}"), format!("{:?} == {:?} but cmp = {c:?}", pool[i], pool[j]), json!({"a": pool[i].tagged(), "b": pool[j].tagged()}));
            }
        }
    }
    // the public `Number` type (what custom filters receive) must order and equate numbers like values do
    let nums: Vec<(usize, tera::Number)> = pool
        .iter()
        .enumerate()
        .filter_map(|(i, v)| match v {
            V::F64(f) => Some((i, tera::Number::Float(*f))),
            other => other.i128().filter(|_| other.is_int()).map(|x| (i, tera::Number::Integer(x))),
        })
        .collect();
    for (i, a) in &nums {
        for (j, b) in &nums {
            let r = guard(|| (a == b, a.partial_cmp(b)));
            cx.eval();
            if let Ok((e, pc)) = r {
                let me = model::eq(&pool[*i], &pool[*j]);
                let mo = model::num_cmp(&pool[*i], &pool[*j]);
                if e != me || pc != mo {
                    cx.violation("C15/number-api-differs-from-exact-order", format!("Number {a:?} vs {b:?}: == is {e}, partial_cmp {pc:?}; exact: == {me}, order {mo:?}"), json!({"a": pool[*i].tagged(), "b": pool[*j].tagged()}));
                }
            }
        }
    }
    cx.count("number_api_pairs", (nums.len() * nums.len()) as u64);
    cx.count("pairs", (n * n) as u64);
    for i in 0..n {
        if !l.eqm[i][i] {
            cx.violation("C15/eq-not-reflexive", format!("{:?} != itself", pool[i]), json!({"a": pool[i].tagged()}));
        }
        for j in 0..n {
            if l.eqm[i][j] != l.eqm[j][i] {
                cx.violation("C15/eq-not-symmetric", format!("{:?} vs {:?}", pool[i], pool[j]), json!({"a": pool[i].tagged(), "b": pool[j].tagged()}));
            }
            if l.cmpm[i][j] != -l.cmpm[j][i] {
                cx.violation(&format!("C15/cmp-not-antisymmetric/{}/{}", model::class(&pool[i]), model::class(&pool[j])), format!("cmp({:?}, {:?}) = {} but reversed = {}", pool[i], pool[j], l.cmpm[i][j], l.cmpm[j][i]), json!({"a": pool[i].tagged(), "b": pool[j].tagged()}));
            }
        }
    }
    // ---- triples
    let mut triples = 0u64;
    for i in 0..n {
        for j in 0..n {
            let (eij, cij) = (l.eqm[i][j], l.cmpm[i][j]);
            for k in 0..n {
                triples += 1;
                if eij && l.eqm[j][k] && !l.eqm[i][k] {
                    cx.violation(&format!("C15/eq-not-transitive/{}", kinds3(pool, i, j, k)), format!("{:?} == {:?} == {:?} but first != third", pool[i], pool[j], pool[k]), json!({"a": pool[i].tagged(), "b": pool[j].tagged(), "c": pool[k].tagged()}));
                }
                if cij <= 0 && l.cmpm[j][k] <= 0 && l.cmpm[i][k] > 0 {
                    cx.violation(&format!("C15/cmp-not-transitive/{}", kinds3(pool, i, j, k)), format!("{:?} <= {:?} <= {:?} but first > third", pool[i], pool[j], pool[k]), json!({"a": pool[i].tagged(), "b": pool[j].tagged(), "c": pool[k].tagged(), "pool": tag}));
                }
                // equal values are interchangeable in the order
                if eij && l.cmpm[i][k] != l.cmpm[j][k] {
                    cx.violation(&format!("C15/eq-not-congruent-with-cmp/{}", kinds3(pool, i, j, k)), format!("{:?} == {:?} but they compare differently with {:?}", pool[i], pool[j], pool[k]), json!({"a": pool[i].tagged(), "b": pool[j].tagged(), "c": pool[k].tagged()}));
                }
            }
        }
    }
    cx.count("triples", triples);
    cx.evals(triples);
}

fn template_laws(cx: &mut Cx, tera: &Tera, pool: &[V], rng: &mut Rng, samples: usize) {
    for _ in 0..samples {
        let (i, j) = (rng.below(pool.len()), rng.below(pool.len()));
        let (a, b) = (&pool[i], &pool[j]);
        if matches!(a, V::Undef) || matches!(b, V::Undef) {
            continue;
        }
        let (ta, tb) = (a.to_tera(), b.to_tera());
        let mut ctx = Context::new();
        ctx.insert_value("a", ta.clone());
        ctx.insert_value("b", tb.clone());
        let r = guard(|| tera.render("cmp", &ctx));
        cx.eval();
        let exp_eq = ta == tb;
        let pc = ta.partial_cmp(&tb);
        match r {
            Err(p) => cx.violation(&format!("C15/panic/{}", panic_site(&p)), format!("panic rendering comparisons of {a:?} and {b:?}: {p}"), json!({"a": a.tagged(), "b": b.tagged()})),
            Ok(Ok(out)) => {
                cx.cell(format!("tpl|{}|{}|ok", a.kind(), b.kind()));
                let exp = match pc {
                    Some(o) => format!("{}|{}|{}|{}|{}|{}", exp_eq, !exp_eq, o == Ordering::Less, o != Ordering::Greater, o == Ordering::Greater, o != Ordering::Less),
                    None => String::from("<error expected>"),
                };
                if out != exp {
                    cx.violation("C15/template-comparison-differs-from-api", format!("`==|!=|<|<=|>|>=` of {a:?} and {b:?} rendered {out}, the value API says {exp}"), json!({"a": a.tagged(), "b": b.tagged()}));
                }
            }
            Ok(Err(_)) => {
                cx.cell(format!("tpl|{}|{}|err", a.kind(), b.kind()));
                if pc.is_some() {
                    cx.violation("C15/template-comparison-errors-on-comparable", format!("`<` on {a:?} and {b:?} is an error although they are comparable"), json!({"a": a.tagged(), "b": b.tagged()}));
                }
                // equality alone must never be an error
                let r2 = guard(|| tera.render("eq", &ctx));
                cx.eval();
                match r2 {
                    Ok(Ok(out)) => {
                        if out != format!("{}|{}", exp_eq, !exp_eq) {
                            cx.violation("C15/template-eq-differs-from-api", format!("`==|!=` of {a:?} and {b:?} rendered {out}, the value API says {exp_eq}"), json!({"a": a.tagged(), "b": b.tagged()}));
                        }
                    }
                    Ok(Err(e)) => cx.violation("C15/template-eq-error", format!("`==` of {a:?} and {b:?} is an error: {e}"), json!({"a": a.tagged(), "b": b.tagged()})),
                    Err(p) => cx.violation(&format!("C15/panic/{}", panic_site(&p)), format!("panic: {p}"), json!({"a": a.tagged(), "b": b.tagged()})),
                }
            }
        }
    }
    // unique / sort over random sub-multisets of the pool
    for _ in 0..samples / 8 {
        // one in four beyond the small sizes (17..96 elements): fast paths chosen by length must agree with the plain ones
        let n = if rng.below(4) == 0 { 17 + rng.below(80) } else { rng.below(30) };
        let idx: Vec<usize> = (0..n).map(|_| rng.below(pool.len())).filter(|i| !matches!(pool[*i], V::Undef)).collect();
        let xs: Vec<V> = idx.iter().map(|i| pool[*i].clone()).collect();
        // membership: `a in xs` exactly when some element equals a (whatever the representation of either)
        for _ in 0..4 {
            let a = match rng.below(3) {
                0 if !xs.is_empty() => match xs[rng.below(xs.len())].int() {
                    Some(i) => { let e = int_encodings(i); e[rng.below(e.len())].clone() }
                    None => xs[rng.below(xs.len())].clone(),
                },
                _ => pool[rng.below(pool.len())].clone(),
            };
            if matches!(a, V::Undef) {
                continue;
            }
            let want = xs.iter().any(|x| model::eq(x, &a));
            let mut ctx = Context::new();
            ctx.insert_value("xs", V::Arr(xs.clone()).to_tera());
            ctx.insert_value("a", a.to_tera());
            let r = guard(|| tera.render("mem", &ctx));
            cx.eval();
            match r {
                Ok(Ok(out)) => {
                    cx.cell(format!("mem|{}|{}|{}", a.kind(), if xs.len() > 16 { "big" } else { "small" }, want));
                    if out != format!("{}|{}", want, !want) {
                        cx.violation("C15/array-membership-differs-from-equality", format!("`a in xs|a not in xs` rendered {out} for a = {a:?} and xs = {xs:?} ({} elements); some element equals a: {want}", xs.len()), json!({"a": a.tagged(), "xs": V::Arr(xs.clone()).tagged()}));
                    }
                }
                Ok(Err(e)) => cx.violation("C15/array-membership-error", format!("`a in xs` failed for a = {a:?}, xs = {xs:?}: {e}"), json!({"a": a.tagged(), "xs": V::Arr(xs.clone()).tagged()})),
                Err(p) => cx.violation(&format!("C15/panic/{}", panic_site(&p)), format!("`a in xs` panicked for a = {a:?}: {p}"), json!({"a": a.tagged(), "xs": V::Arr(xs.clone()).tagged()})),
            }
        }
        let mut classes: Vec<&V> = Vec::new();
        for x in &xs {
            if !classes.iter().any(|c| model::eq(c, x)) {
                classes.push(x);
            }
        }
        let mut ctx = Context::new();
        ctx.insert_value("xs", V::Arr(xs.clone()).to_tera());
        let r = guard(|| tera.render("uniq", &ctx));
        cx.eval();
        match r {
            Ok(Ok(out)) => {
                cx.count("unique_checks", 1);
                if out != classes.len().to_string() {
                    cx.violation("C15/unique-count-differs-from-equality-classes", format!("{xs:?} | unique has {out} elements, there are {} classes of equal values", classes.len()), json!({"xs": V::Arr(xs.clone()).tagged()}));
                }
            }
            Ok(Err(e)) => cx.violation("C15/unique-error", format!("unique failed on {xs:?}: {e}"), json!({"xs": V::Arr(xs.clone()).tagged()})),
            Err(p) => cx.violation(&format!("C15/panic/{}", panic_site(&p)), format!("unique panicked on {xs:?}: {p}"), json!({"xs": V::Arr(xs.clone()).tagged()})),
        }
        let r = guard(|| tera.render("sort", &ctx));
        cx.eval();
        if let Err(p) = r {
            cx.violation(&format!("C15/panic/{}", panic_site(&p)), format!("sort panicked on {xs:?}: {p}"), json!({"xs": V::Arr(xs.clone()).tagged()}));
        } else {
            cx.count("sort_checks", 1);
        }
    }
}

// ---------------------------------------------------------------------------------- key lookups

const STATIC_KEYS: [&str; 12] = ["a", "b", "name", "id", "k0", "k1", "k2", "k3", "long_key_name_over_21_bytes_xx", "x", "y", "z"];

fn int_encodings(i: Int) -> Vec<V> {
    let mut out = Vec::new();
    let (neg, mag) = i;
    if !neg || mag == 0 {
        if mag <= i64::MAX as u128 { out.push(V::I64(mag as i64)); }
        if mag <= u64::MAX as u128 { out.push(V::U64(mag as u64)); }
        if mag <= i128::MAX as u128 { out.push(V::I128(mag as i128)); }
        out.push(V::U128(mag));
    } else {
        if mag <= i64::MAX as u128 + 1 { out.push(V::I64((mag as i128).wrapping_neg() as i64)); }
        if mag <= i128::MAX as u128 + 1 { out.push(V::I128((mag as i128).wrapping_neg())); }
    }
    out
}

fn lookup_case(cx: &mut Cx, tera: &Tera, rng: &mut Rng) {
    let size = match rng.below(16) {
        0..=3 => rng.below(3),
        4..=7 => 4 + rng.below(6), // straddles the linear-scan / hash cutoff (6)
        8 => *rng.pick(&[17usize, 31, 32, 33, 63, 64, 65, 100, 127, 128, 129, 257]), // around power-of-two sizes
        _ => rng.below(17),
    };
    // build the model (association list) and the engine map with the same entries
    let mut model_map: Vec<(K, i64)> = Vec::new();
    let mut emap = Map::new();
    let mut borrowed = 0;
    for id in 0..size {
        let k = match rng.below(8) {
            // big maps need keys that do not collide: sequential integers and strings for half of the entries
            0..=3 if size > 16 => if rng.bool() { K::I64(id as i64 - 8) } else { K::Str(format!("k{id}")) },
            0..=2 => K::Str(STATIC_KEYS[rng.below(STATIC_KEYS.len())].to_string()),
            3 => K::Str(gen_string(rng)),
            4 => K::Bool(rng.bool()),
            _ => match gen_int(rng) {
                V::I64(v) => K::I64(if rng.bool() { v } else { v % 5 }),
                V::U64(v) => K::U64(if rng.bool() { v } else { v % 5 }),
                V::I128(v) => K::I128(v),
                V::U128(v) => K::U128(v),
                _ => K::I64(3),
            },
        };
        if model_map.iter().any(|(k2, _)| k2.same(&k)) {
            continue;
        }
        // string keys that are in the static list are inserted borrowed half of the time
        let ek = match &k {
            K::Str(s) if rng.bool() => match STATIC_KEYS.iter().find(|x| **x == s.as_str()) {
                Some(st) => {
                    borrowed += 1;
                    Key::Str(st)
                }
                None => k.to_key(),
            },
            _ => k.to_key(),
        };
        emap.insert(ek, Value::from(1000 + id as i64));
        model_map.push((k, 1000 + id as i64));
    }
    let n = model_map.len();
    let m = Value::from(emap);
    // probes: every present key in every encoding + absent keys
    let mut probes: Vec<V> = Vec::new();
    for (k, _) in &model_map {
        match k {
            K::Str(s) => {
                probes.push(V::Str(s.clone()));
                probes.push(V::Safe(s.clone()));
            }
            K::Bool(b) => probes.push(V::Bool(*b)),
            k => probes.extend(int_encodings(k.int().unwrap())),
        }
    }
    for _ in 0..6 {
        probes.push(match rng.below(5) {
            0 => V::Str(STATIC_KEYS[rng.below(STATIC_KEYS.len())].to_string()),
            1 => V::Str(gen_string(rng)),
            2 => V::Bool(rng.bool()),
            3 => V::I64(rng.range(-5, 5)),
            _ => gen_int(rng),
        });
    }
    for p in probes {
        let pk = match &p {
            V::Str(s) | V::Safe(s) => K::Str(s.clone()),
            V::Bool(b) => K::Bool(*b),
            V::I64(v) => K::I64(*v),
            V::U64(v) => K::U64(*v),
            V::I128(v) => K::I128(*v),
            V::U128(v) => K::U128(*v),
            _ => unreachable!(),
        };
        let expected: Option<i64> = model_map.iter().find(|(k, _)| k.same(&pk)).map(|(_, v)| *v);
        let exp_txt = expected.map(|v| v.to_string()).unwrap_or_else(|| "UNDEF".into());
        let mut ctx = Context::new();
        ctx.insert_value("m", m.clone());
        ctx.insert_value("k", p.to_tera());
        let size_class = if n <= 6 { "scan" } else { "hash" };
        let mut paths: Vec<(&str, String, String)> = vec![
            ("m[k]", "{{ m[k] | default(value=\"UNDEF\") }}".into(), exp_txt.clone()),
            ("m?[k]", "{{ m?[k] | default(value=\"UNDEF\") }}".into(), exp_txt.clone()),
            ("k in m", "{{ k in m }}|{{ k not in m }}".into(), format!("{}|{}", expected.is_some(), expected.is_none())),
            ("containing", "{{ m is containing(pat=k) }}".into(), expected.is_some().to_string()),
        ];
        if let V::Str(s) | V::Safe(s) = &p {
            paths.push(("get", "{{ m | get(key=k, default=\"UNDEF\") }}".into(), exp_txt.clone()));
            let ident = !s.is_empty() && s.chars().all(|c| c.is_ascii_alphanumeric() || c == '_') && !s.chars().next().unwrap().is_ascii_digit() && !["true", "false", "none", "not", "and", "or", "in", "is", "if", "else", "loop", "True", "False", "None", "null"].contains(&s.as_str());
            if ident {
                paths.push(("m.k", format!("{{{{ m.{s} | default(value=\"UNDEF\") }}}}"), exp_txt.clone()));
                paths.push(("m?.k", format!("{{{{ m?.{s} | default(value=\"UNDEF\") }}}}"), exp_txt.clone()));
                paths.push(("m['k']", format!("{{{{ m['{s}'] | default(value=\"UNDEF\") }}}}"), exp_txt.clone()));
            }
        }
        if let Some(i) = p.i128() {
            if i >= 0 && i <= i64::MAX as i128 {
                paths.push(("m[lit]", format!("{{{{ m[{i}] | default(value=\"UNDEF\") }}}}"), exp_txt.clone()));
            }
        }
        for (path, tpl, exp) in paths {
            let r = guard(|| tera.render_str(&tpl, &ctx, false));
            cx.eval();
            cx.count("lookups", 1);
            cx.cell(format!("lookup|{path}|{}|{size_class}|{}", p.kind(), if expected.is_some() { "present" } else { "absent" }));
            match r {
                Ok(Ok(out)) => {
                    if out != exp {
                        let sig = format!("C15/lookup/{path}/{}/{}", pk.kind(), if expected.is_some() { "inserted-key-not-found" } else { "absent-key-found" });
                        cx.violation(&sig, format!("{tpl} with k={p:?} on a map of {n} entries {:?} rendered {out}, expected {exp}", model_map), json!({"map": model_map.iter().map(|(k, v)| json!([k.tagged(), v])).collect::<Vec<_>>(), "k": p.tagged(), "template": tpl, "borrowed_keys": borrowed}));
                    }
                }
                Ok(Err(e)) => cx.violation(&format!("C15/lookup-error/{path}/{}", pk.kind()), format!("{tpl} with k={p:?} failed: {e}"), json!({"k": p.tagged(), "template": tpl})),
                Err(pn) => cx.violation(&format!("C15/panic/{}", panic_site(&pn)), format!("{tpl} with k={p:?} panicked: {pn}"), json!({"k": p.tagged(), "template": tpl})),
            }
        }
    }
    // a value that cannot be a key at all (non-integral float, array, map, none, bytes) was never inserted: it is not found
    for needle in [V::F64(1.5), V::F64(f64::NAN), V::Arr(vec![V::I64(1)]), V::Map(vec![(K::Str("a".into()), V::I64(1))]), V::None, V::Bytes(vec![1, 2])] {
        let mut ctx = Context::new();
        ctx.insert_value("m", m.clone());
        ctx.insert_value("k", needle.to_tera());
        for tpl in ["{{ k in m }}", "{{ m is containing(pat=k) }}", "{{ m[k] is defined }}"] {
            let r = guard(|| tera.render_str(tpl, &ctx, false));
            cx.eval();
            cx.count("non_key_needles", 1);
            match r {
                Ok(Ok(out)) if out == "true" => cx.violation(&format!("C15/lookup/non-key-found/{}", needle.kind()), format!("{tpl} with k={needle:?} (which cannot be a key) on a map of {n} entries rendered true"), json!({"k": needle.tagged(), "template": tpl})),
                // `false`, or refusing the operand kind, are both fine
                Ok(_) => {}
                Err(pn) => cx.violation(&format!("C15/panic/{}", panic_site(&pn)), format!("{tpl} with k={needle:?} panicked: {pn}"), json!({"k": needle.tagged(), "template": tpl})),
            }
        }
    }
    // the keys filter / pairs / length agree with the model
    let mut ctx = Context::new();
    ctx.insert_value("m", m.clone());
    if let Ok(Ok(out)) = guard(|| tera.render_str("{{ m | length }}|{{ m | keys | length }}|{{ m | values | length }}|{{ m | pairs | length }}", &ctx, false)) {
        cx.eval();
        if out != format!("{n}|{n}|{n}|{n}") {
            cx.violation("C15/map-size", format!("length/keys/values/pairs of a map with {n} distinct keys rendered {out}"), json!({"map": model_map.iter().map(|(k, v)| json!([k.tagged(), v])).collect::<Vec<_>>()}));
        }
    }
    let mm = model_map.clone();
    cx.sample(|| json!({"lookup_map": mm.iter().map(|(k, v)| json!([k.tagged(), v])).collect::<Vec<_>>()}));
}

/// The same text reached through every way a string value comes into being (context string, owned map key handed back
/// by a key/value loop or by keys/pairs, borrowed key, safe mark, concatenation, slice, case round trip, a capture), at
/// every byte length around the inline/heap boundary of the string type: all of them must be `==`, order as equal, be
/// found in arrays and maps, and form one class for unique.
fn string_representations(cx: &mut Cx, rng: &mut Rng) {
    let mut t = Tera::default();
    t.autoescape_on(Vec::<&'static str>::new());
    let src = "{% for k, v in m %}{% set cap %}{{ s }}{% endset %}{% set ways = [s, k, m | keys | first, (m | pairs | first)[0], s | safe, h ~ tl, s[:], s | upper | lower, cap, k ~ \"\", lit.k0] %}\
{% for a in ways %}{% for b in ways %}{{ a == b }},{{ a <= b }},{{ a >= b }},{{ a != b }},{{ a < b }},{{ a in [b] }},{{ [a] == [b] }},{{ {\"x\": a} == {\"x\": b} }},{{ m[a] == 1 }},{{ a in m }},{{ [a, b] | unique | length }};{% endfor %}{% endfor %}{% endfor %}";
    if let Err(e) = t.add_raw_template("w", src) {
        cx.violation("C15/string-representation-template-rejected", format!("{e}"), json!({"template": src}));
        return;
    }
    for len in 0..=48usize {
        // lower-case ASCII (so that upper|lower is the identity), or the same with multi-byte characters mixed in
        let multibyte = rng.chance(1, 3);
        let mut text = String::new();
        while text.len() < len {
            let room = len - text.len();
            if multibyte && room >= 2 && rng.chance(1, 3) {
                text.push(*rng.pick(&['é', 'ö']));
            } else {
                text.push((b'a' + rng.below(26) as u8) as char);
            }
        }
        if text.is_empty() && len > 0 {
            continue;
        }
        let cut = text.char_indices().map(|(i, _)| i).nth(rng.below(text.chars().count().max(1))).unwrap_or(0);
        let mut ctx = tera::Context::new();
        let mut m = std::collections::HashMap::new();
        m.insert(text.clone(), 1);
        ctx.insert("m", &m);
        ctx.insert("s", &text);
        ctx.insert("h", &text[..cut]);
        ctx.insert("tl", &text[cut..]);
        let mut lit = tera::value::Map::new();
        lit.insert("k0".into(), tera::Value::from(text.as_str()));
        ctx.insert_value("lit", tera::Value::from(lit));
        cx.eval();
        cx.cell(format!("string-representations|len{len}|{}", if multibyte { "multibyte" } else { "ascii" }));
        match guard(|| t.render("w", &ctx).map_err(|e| e.to_string())) {
            Ok(Ok(out)) => {
                cx.count("string_representation_pairs", out.matches(';').count() as u64);
                let want = "true,true,true,false,false,true,true,true,true,true,1";
                for (i, cellv) in out.split(';').filter(|c| !c.trim().is_empty()).enumerate() {
                    if cellv.trim() != want {
                        let names = ["context string", "owned key from a key/value loop", "keys | first", "pairs | first | [0]", "safe", "concatenation", "slice [:]", "upper | lower", "capture", "key ~ \"\"", "value of a map entry"];
                        let (a, b) = (i / names.len(), i % names.len());
                        cx.violation(
                            "C15/equal-text-not-equal-across-representations",
                            format!("{:?} ({} bytes) as `{}` vs `{}`: ==,<=,>=,!=,<,in [b],[a]==[b],{{x:a}}=={{x:b}},m[a]==1,a in m,unique length gave {}, expected {want}", text, text.len(), names.get(a).unwrap_or(&"?"), names.get(b).unwrap_or(&"?"), cellv.trim()),
                            json!({"text": text, "bytes": text.len(), "template": src}),
                        );
                        break;
                    }
                }
            }
            Ok(Err(e)) => cx.violation("C15/string-representation-render-failed", format!("{:?}: {e}", text), json!({"text": text, "template": src})),
            Err(p) => cx.violation(&format!("C15/panic/{}", panic_site(&p)), format!("{:?}: {p}", text), json!({"text": text, "template": src})),
        }
    }
}

pub fn run(cx: &mut Cx) {
    let mut tera = Tera::default();
    tera.add_raw_templates(vec![
        ("cmp", "{{ a == b }}|{{ a != b }}|{{ a < b }}|{{ a <= b }}|{{ a > b }}|{{ a >= b }}"),
        ("eq", "{{ a == b }}|{{ a != b }}"),
        ("uniq", "{{ xs | unique | length }}"),
        ("sort", "{{ xs | sort | length }}"),
        ("mem", "{{ a in xs }}|{{ a not in xs }}"),
    ])
    .unwrap();
    let base = base_pool();
    cx.counters.insert("const:base_pool_values".into(), base.len() as u64);
    let total = 1 + cx.total(1200, 40000);
    for case in cx.my_cases(total) {
        let mut rng = cx.rng(case);
        if case == 0 {
            cx.begin_case(case, "base-pool-laws");
            check_laws(cx, &base, "base");
            template_laws(cx, &tera, &base, &mut rng, 6000);
            cx.count("base_pool_completed", 1);
            continue;
        }
        if case % 4 == 1 {
            // random pool: random values of every kind + a slice of the base pool, all pairs and triples
            cx.begin_case(case, "random-pool-laws");
            let mut pool: Vec<V> = (0..36).map(|_| gen_value(&mut rng, &ALL_KINDS, 0)).collect();
            // near-duplicates: re-encode / perturb a few members so that equal and almost-equal values meet
            for i in 0..10 {
                let v = pool[rng.below(pool.len())].clone();
                pool.push(match v {
                    V::Arr(mut a) => {
                        if i % 2 == 0 { a.push(V::I64(0)); }
                        V::Arr(a)
                    }
                    V::Map(mut m) => {
                        if i % 2 == 0 && !m.is_empty() { m[0].1 = V::I64(-7); }
                        V::Map(m)
                    }
                    V::Str(s) => V::Safe(s),
                    x => match x.int() {
                        Some(i) => { let e = int_encodings(i); e[rng.below(e.len())].clone() }
                        None => x,
                    },
                });
            }
            for _ in 0..14 {
                pool.push(base[rng.below(base.len())].clone());
            }
            check_laws(cx, &pool, "random");
            template_laws(cx, &tera, &pool, &mut rng, 200);
            let p2 = pool[..3].to_vec();
            cx.sample(|| json!({"random_pool_first_values": p2.iter().map(|v| v.tagged()).collect::<Vec<_>>()}));
        } else if case % 4 == 2 {
            cx.begin_case(case, "string-representations");
            string_representations(cx, &mut rng);
        } else {
            cx.begin_case(case, "key-lookup");
            for _ in 0..12 {
                lookup_case(cx, &tera, &mut rng);
                cx.count("lookup_maps", 1);
            }
        }
    }
}
