//! C08 — literal text and whitespace control. A template is generated as a flat list of items (text, expression,
//! tags, comments, raw blocks, each with its `-` markers); the expected output is computed from that list alone
//! (the specification of the property, independent of the lexer), under several delimiter sets.
use crate::core::*;
use serde_json::json;
use tera::{Context, Delimiters, Tera};

#[derive(Debug, Clone)]
enum It {
    Text { s: String, vis: bool },
    /// `{{ content }}` writing `out` when visible
    Expr { content: String, out: String, l: bool, r: bool, vis: bool },
    /// `{% content %}`: writes nothing itself
    Tag { content: String, l: bool, r: bool, kind: &'static str },
    Comment { body: String, l: bool, r: bool },
    Raw { ol: bool, ir: bool, body: String, il: bool, or: bool, vis: bool },
}

#[derive(Clone, Debug)]
struct D {
    bs: String,
    be: String,
    vs: String,
    ve: String,
    cs: String,
    ce: String,
}

impl D {
    fn default() -> D {
        D { bs: "{%".into(), be: "%}".into(), vs: "{{".into(), ve: "}}".into(), cs: "{#".into(), ce: "#}".into() }
    }
    fn to_tera(&self) -> Delimiters {
        Delimiters { block_start: self.bs.clone().into(), block_end: self.be.clone().into(), variable_start: self.vs.clone().into(), variable_end: self.ve.clone().into(), comment_start: self.cs.clone().into(), comment_end: self.ce.clone().into() }
    }
    fn starts(&self) -> [&str; 3] {
        [&self.vs, &self.bs, &self.cs]
    }
    fn all(&self) -> [&str; 6] {
        [&self.bs, &self.be, &self.vs, &self.ve, &self.cs, &self.ce]
    }
    fn class(&self) -> &'static str {
        if self.bs == "{%" && self.vs == "{{" {
            "default"
        } else if self.all().iter().all(|x| x.is_ascii()) {
            "ascii"
        } else if self.all().iter().all(|x| !x.is_ascii()) {
            "two-byte"
        } else {
            "mixed"
        }
    }
}

/// Delimiter sets of the specification class: punctuation or two-byte characters that contain no `-`, whitespace,
/// quote, identifier or expression-operator character, six members pairwise distinct.
fn random_delims(rng: &mut Rng) -> D {
    let ascii = ['{', '}', '%', '#', '@', '$', ';', '^', '&', '!'];
    let two = ["«", "»", "§", "¶", "±", "÷", "×", "µ", "¿", "¡", "Â", "ī"];
    loop {
        let mut members: Vec<String> = Vec::new();
        let style = rng.below(3);
        for _ in 0..6 {
            let m = if style == 0 || (style == 2 && rng.bool()) {
                format!("{}{}", rng.pick(&ascii), rng.pick(&ascii))
            } else {
                rng.pick(&two).to_string()
            };
            members.push(m);
        }
        let mut sorted = members.clone();
        sorted.sort();
        sorted.dedup();
        if sorted.len() != 6 {
            continue;
        }
        // a start delimiter must not be a prefix-overlap trap for another member: keep them free of shared first+second char swaps
        let d = D { bs: members[0].clone(), be: members[1].clone(), vs: members[2].clone(), ve: members[3].clone(), cs: members[4].clone(), ce: members[5].clone() };
        return d;
    }
}

fn first_start(s: &str, ds: &[D]) -> Option<usize> {
    ds.iter().flat_map(|d| d.starts().into_iter().filter_map(|x| s.find(x)).collect::<Vec<_>>()).min()
}

fn gen_text(rng: &mut Rng, ds: &[D]) -> String {
    let base = [" ", "  ", "\n", "\t", "\r\n", "\u{a0}", "\u{3000}", "\u{2003}", "a", "b", "é", "日", "x y", "<", ">", "-", "--", "%", "#", "{", "}", "\u{85}", "\u{200b}", "😀", "0", "\"", "'"];
    for _ in 0..50 {
        let n = rng.below(7);
        let mut s = String::new();
        for _ in 0..n {
            match rng.below(8) {
                0..=4 => s.push_str(base[rng.below(base.len())]),
                5 => {
                    // partial delimiters: one character of some delimiter, or an end delimiter
                    let d = rng.pick(ds);
                    let m = *rng.pick(&d.all());
                    if rng.bool() {
                        s.push(m.chars().next().unwrap());
                    } else if m == d.be || m == d.ve || m == d.ce {
                        s.push_str(m);
                    } else {
                        s.push(m.chars().last().unwrap());
                    }
                }
                6 => {
                    // characters sharing UTF-8 bytes with two-byte delimiters (same lead or continuation byte)
                    s.push(*rng.pick(&['Ã', 'Â', 'ª', '¬', 'Á', '»', '«', 'ë', 'Ä', 'ī', 'ū', '¶']));
                }
                _ => s.push(char::from_u32(0x20 + rng.below(0x2ff) as u32).unwrap_or(' ')),
            }
        }
        if first_start(&s, ds).is_none() {
            return s;
        }
    }
    String::new()
}

struct Gen<'a> {
    rng: &'a mut Rng,
    ds: &'a [D],
    nblock: usize,
    items: Vec<It>,
}

impl<'a> Gen<'a> {
    fn marks(&mut self) -> (bool, bool) {
        (self.rng.chance(2, 5), self.rng.chance(2, 5))
    }
    fn tag(&mut self, content: &str, kind: &'static str) {
        let (l, r) = self.marks();
        self.items.push(It::Tag { content: content.to_string(), l, r, kind });
    }
    fn seq(&mut self, depth: usize, vis: bool, block_ok: bool) {
        let k = 1 + self.rng.below(if depth == 0 { 7 } else { 4 });
        for _ in 0..k {
            match self.rng.below(17) {
                0..=4 => {
                    let s = gen_text(self.rng, self.ds);
                    self.items.push(It::Text { s, vis });
                }
                5 => {
                    let (l, r) = self.marks();
                    let (content, out) = match self.rng.below(4) {
                        0 => ("7".to_string(), "7".to_string()),
                        1 => ("\" lit \"".to_string(), " lit ".to_string()),
                        2 => ("<c.i />".to_string(), "(i)".to_string()),
                        _ => ("'' ~ 1".to_string(), "1".to_string()),
                    };
                    self.items.push(It::Expr { content, out, l, r, vis });
                }
                6 => self.tag("set q = 1", "set"),
                7 => {
                    let (mut l, mut r) = self.marks();
                    let mut body = format!(" {} ", gen_text(self.rng, self.ds));
                    if self.ds.iter().any(|d| body.contains(d.ce.as_str())) {
                        body = " c ".to_string();
                    }
                    // degenerate bodies: empty, and text touching the delimiters (never a dash at either end: that
                    // would be a marker). With an empty body a single marker is spelled `{#-#}` whichever side it is
                    // meant for: it is generated as a left marker and either reading is accepted (see `lone_dash`)
                    if self.rng.chance(1, 4) {
                        body = self.rng.pick(&["", "", "x", " x", "x ", "a-b", "#", "- -".trim_matches('-')]).to_string();
                        if body.is_empty() && r && !l {
                            (l, r) = (true, false);
                        }
                        // the end delimiter must not be completed early by the body's last characters
                        let early = self.ds.iter().any(|d| {
                            let tail = format!("{body}{}{}", if r { "-" } else { "" }, d.ce);
                            tail.find(d.ce.as_str()) != Some(tail.len() - d.ce.len())
                        });
                        if early {
                            body = " c ".to_string();
                        }
                    }
                    self.items.push(It::Comment { body, l, r });
                }
                8 => {
                    let mut body = gen_text(self.rng, self.ds);
                    // raw bodies may contain every other construct, spelled with the *first* delimiter set only when
                    // a single set is in use (the body is literal text and would differ between spellings otherwise)
                    if self.ds.len() == 1 {
                        let d = &self.ds[0];
                        match self.rng.below(4) {
                            0 => body.push_str(&format!("{} 1 {}{}", d.vs, d.ve, gen_text(self.rng, self.ds))),
                            1 => body.push_str(&format!("{} if x {}", d.bs, d.be)),
                            2 => body.push_str(&format!("{} c {} {}- endif {}", d.cs, d.ce, d.bs, d.be)),
                            _ => {}
                        }
                    }
                    let (ol, or) = self.marks();
                    let (ir, il) = self.marks();
                    self.items.push(It::Raw { ol, ir, body, il, or, vis });
                }
                9 => {
                    let (l, r) = self.marks();
                    self.items.push(It::Tag { content: "include \"inc\"".to_string(), l, r, kind: "include" });
                    // the included template writes a fixed token: modelled as an expression-like output without markers
                    self.items.push(It::Expr { content: String::new(), out: "⟨inc⟩".to_string(), l: false, r: false, vis });
                }
                10 if depth < 3 => {
                    // if / elif / else with a known taken branch
                    let nb = 1 + self.rng.below(3);
                    let taken = self.rng.below(nb + 1); // == nb: none of the conditions holds
                    let has_else = self.rng.bool();
                    for b in 0..nb {
                        let cond = if b == taken { "true" } else { "false" };
                        self.tag(&format!("{} {cond}", if b == 0 { "if" } else { "elif" }), if b == 0 { "if" } else { "elif" });
                        self.seq(depth + 1, vis && b == taken, false);
                    }
                    if has_else {
                        self.tag("else", "else");
                        self.seq(depth + 1, vis && taken == nb, false);
                    }
                    self.tag("endif", "endif");
                }
                11 if depth < 3 => {
                    let nonempty = self.rng.bool();
                    self.tag(if nonempty { "for i in [1]" } else { "for i in []" }, "for");
                    self.seq(depth + 1, vis && nonempty, false);
                    if self.rng.bool() {
                        self.tag("else", "for-else");
                        self.seq(depth + 1, vis && !nonempty, false);
                    }
                    self.tag("endfor", "endfor");
                }
                12 if depth < 3 => {
                    self.tag("filter str", "filter");
                    self.seq(depth + 1, vis, block_ok);
                    self.tag("endfilter", "endfilter");
                }
                13 if depth < 3 => {
                    // set block, printed right after it: `{% endset %}{{ sv }}` (no marker on the inner sides)
                    self.tag("set sv", "set-block");
                    self.seq(depth + 1, vis, false);
                    let l = self.rng.chance(2, 5);
                    self.items.push(It::Tag { content: "endset".to_string(), l, r: false, kind: "endset" });
                    self.items.push(It::Expr { content: "sv".to_string(), out: String::new(), l: false, r: self.rng.chance(2, 5), vis });
                }
                14 if depth < 3 && block_ok => {
                    let name = format!("b{}", self.nblock);
                    self.nblock += 1;
                    self.tag(&format!("block {name}"), "block");
                    self.seq(depth + 1, vis, true);
                    let with_name = self.rng.bool();
                    self.tag(&if with_name { format!("endblock {name}") } else { "endblock".to_string() }, "endblock");
                }
                15 if depth < 3 => {
                    // component call with a body: the component writes `(` body `)`
                    let (l, r) = self.marks();
                    self.items.push(It::Tag { content: "<c.b>".to_string(), l, r, kind: "component-open" });
                    self.items.push(It::Expr { content: String::new(), out: "(".to_string(), l: false, r: false, vis });
                    self.seq(depth + 1, vis, false);
                    let (l, r) = self.marks();
                    // the closing output `)` comes with the closing tag: emitted before it in the item list, without markers
                    self.items.push(It::Expr { content: String::new(), out: ")".to_string(), l: false, r: false, vis });
                    self.items.push(It::Tag { content: "</c.b>".to_string(), l, r, kind: "component-close" });
                }
                _ => {
                    let s = gen_text(self.rng, self.ds);
                    self.items.push(It::Text { s, vis });
                }
            }
        }
    }
}

/// The pseudo items with empty content (outputs of include / component) are not printed in the source.
fn is_pseudo(it: &It) -> bool {
    matches!(it, It::Expr { content, .. } if content.is_empty())
}

fn lmark(it: &It) -> bool {
    match it {
        It::Expr { l, .. } | It::Tag { l, .. } | It::Comment { l, .. } => *l,
        It::Raw { ol, .. } => *ol,
        It::Text { .. } => false,
    }
}
fn rmark(it: &It) -> bool {
    match it {
        It::Expr { r, .. } | It::Tag { r, .. } | It::Comment { r, .. } => *r,
        It::Raw { or, .. } => *or,
        It::Text { .. } => false,
    }
}

/// the item lists obtained by reading every lone dash of an empty comment (`{#-#}`) as a right marker instead of a left one
/// (None when there is no such comment). With several such comments all are flipped together: the engine reads them all
/// the same way.
fn lone_dash(items: &[It]) -> Option<Vec<It>> {
    let mut any = false;
    let flipped: Vec<It> = items
        .iter()
        .map(|it| match it {
            It::Comment { body, l: true, r: false } if body.is_empty() => {
                any = true;
                It::Comment { body: String::new(), l: false, r: true }
            }
            other => other.clone(),
        })
        .collect();
    any.then_some(flipped)
}

fn spell(items: &[It], d: &D) -> String {
    let m = |b: bool| if b { "-" } else { "" };
    let mut src = String::new();
    for it in items {
        match it {
            It::Text { s, .. } => src.push_str(s),
            It::Expr { content, l, r, .. } => {
                if !content.is_empty() {
                    src.push_str(&format!("{}{} {content} {}{}", d.vs, m(*l), m(*r), d.ve))
                }
            }
            It::Tag { content, l, r, .. } => src.push_str(&format!("{}{} {content} {}{}", d.bs, m(*l), m(*r), d.be)),
            It::Comment { body, l, r } => src.push_str(&format!("{}{}{body}{}{}", d.cs, m(*l), m(*r), d.ce)),
            It::Raw { ol, ir, body, il, or, .. } => src.push_str(&format!("{}{} raw {}{}{body}{}{} endraw {}{}", d.bs, m(*ol), m(*ir), d.be, d.bs, m(*il), m(*or), d.be)),
        }
    }
    src
}

/// The specification: text verbatim; each `-` trims exactly the facing end of the directly adjacent literal text
/// (a raw body counts as literal text); comments nothing; raw verbatim.
fn expected(items: &[It]) -> String {
    // real (spelled) neighbours only: pseudo items stand for output written by the tag next to them
    let real: Vec<usize> = (0..items.len()).filter(|i| !is_pseudo(&items[*i])).collect();
    let mut prev_of = vec![None; items.len()];
    let mut next_of = vec![None; items.len()];
    for (k, i) in real.iter().enumerate() {
        if k > 0 {
            prev_of[*i] = Some(real[k - 1]);
        }
        if k + 1 < real.len() {
            next_of[*i] = Some(real[k + 1]);
        }
    }
    let mut exp = String::new();
    let mut captured: Vec<String> = Vec::new(); // set-block captures
    let mut capture_start: Vec<usize> = Vec::new();
    for (i, it) in items.iter().enumerate() {
        let prev_r = prev_of[i].map(|p| rmark(&items[p])).unwrap_or(false);
        let next_l = next_of[i].map(|n| lmark(&items[n])).unwrap_or(false);
        match it {
            It::Text { s, vis } => {
                let mut t: &str = s;
                if prev_r {
                    t = t.trim_start();
                }
                if next_l {
                    t = t.trim_end();
                }
                if *vis {
                    exp.push_str(t);
                }
            }
            It::Expr { content, out, vis, .. } => {
                if *vis {
                    if content == "sv" {
                        exp.push_str(&captured.pop().unwrap_or_default());
                    } else {
                        exp.push_str(out);
                    }
                } else if content == "sv" {
                    captured.pop();
                }
            }
            It::Raw { ir, body, il, vis, .. } => {
                // two items with nothing between them are directly adjacent: `-%}{% raw %} body` trims the body
                let mut t: &str = body;
                if *ir || prev_r {
                    t = t.trim_start();
                }
                if *il || next_l {
                    t = t.trim_end();
                }
                if *vis {
                    exp.push_str(t);
                }
            }
            It::Tag { kind, .. } => {
                if *kind == "set-block" {
                    capture_start.push(exp.len());
                } else if *kind == "endset" {
                    let at = capture_start.pop().unwrap_or(exp.len());
                    captured.push(exp.split_off(at));
                }
            }
            It::Comment { .. } => {}
        }
    }
    exp
}

fn engine(d: &D, src: &str) -> Result<Result<String, String>, String> {
    guard(|| {
        let mut t = Tera::default();
        t.set_delimiters(d.to_tera()).map_err(|e| format!("set_delimiters: {e}"))?;
        t.autoescape_on(Vec::<&'static str>::new());
        let comp = format!(
            "{bs} component c.i() {be}(i){bs} endcomponent {be}{bs} component c.b() {be}({vs} body {ve}){bs} endcomponent {be}",
            bs = d.bs, be = d.be, vs = d.vs, ve = d.ve
        );
        t.add_raw_templates(vec![("inc", "⟨inc⟩".to_string()), ("comps", comp), ("t", src.to_string())]).map_err(|e| format!("add: {e}"))?;
        t.render("t", &Context::new()).map_err(|e| format!("render: {e}"))
    })
}

pub fn run(cx: &mut Cx) {
    let total = cx.total(200_000, 6_000_000);
    for case in cx.my_cases(total) {
        let mut rng = cx.rng(case);
        if case % 8 == 7 {
            // ---- identity: a source without any start delimiter renders to itself, under any accepted set
            cx.begin_case(case, "identity");
            let d = if rng.bool() { D::default() } else { random_delims(&mut rng) };
            let ds = [d.clone()];
            let mut s = String::new();
            for _ in 0..(1 + rng.below(6)) {
                s.push_str(&gen_text(&mut rng, &ds));
                if rng.chance(1, 4) {
                    s.push_str(&crate::values::gen_string(&mut rng));
                }
            }
            if first_start(&s, &ds).is_some() {
                continue;
            }
            cx.eval();
            cx.cell(format!("identity|{}|{}", d.class(), if s.is_ascii() { "ascii" } else { "unicode" }));
            match engine(&d, &s) {
                Ok(Ok(out)) if out == s => cx.count("identity_checks", 1),
                Ok(other) => cx.violation("C08/identity", format!("a source without start delimiter did not render to itself under {d:?}: {s:?} -> {other:?}"), json!({"source": s, "delimiters": format!("{d:?}")})),
                Err(p) => cx.violation(&format!("C08/panic/{}", panic_site(&p)), format!("panic on {s:?}: {p}"), json!({"source": s})),
            }
            continue;
        }
        cx.begin_case(case, "items");
        // one in three cases checks the re-spelling metamorphism over three sets; raw bodies then stay delimiter free
        let ds: Vec<D> = match rng.below(3) {
            0 => vec![D::default()],
            1 => vec![random_delims(&mut rng)],
            _ => vec![D::default(), random_delims(&mut rng), random_delims(&mut rng)],
        };
        let mut g = Gen { rng: &mut rng, ds: &ds, nblock: 0, items: Vec::new() };
        g.seq(0, true, true);
        let items = g.items;
        // merge adjacent texts, drop empty texts: two items with nothing between them are directly adjacent
        let mut merged: Vec<It> = Vec::new();
        for it in items {
            if let (Some(It::Text { s: a, vis: va }), It::Text { s: b, vis: vb }) = (merged.last_mut(), &it) {
                if va == vb {
                    a.push_str(b);
                    continue;
                }
            }
            merged.push(it);
        }
        let items: Vec<It> = merged.into_iter().filter(|it| !matches!(it, It::Text { s, .. } if s.is_empty())).collect();
        // a text is literal text only if, under every set in use, the first start delimiter of text + next delimiter sits at len(text)
        let mut valid = true;
        for d in &ds {
            let one = [d.clone()];
            let reals: Vec<&It> = items.iter().filter(|i| !is_pseudo(i)).collect();
            for (i, it) in reals.iter().enumerate() {
                let (t, is_raw) = match it {
                    It::Text { s, .. } => (s.as_str(), false),
                    It::Raw { body, .. } => (body.as_str(), true),
                    _ => continue,
                };
                let nextd: Option<&str> = if is_raw {
                    Some(&d.bs)
                } else {
                    match reals.get(i + 1) {
                        Some(It::Expr { .. }) => Some(&d.vs),
                        Some(It::Comment { .. }) => Some(&d.cs),
                        Some(It::Text { .. }) => {
                            valid = false; // two texts of different visibility side by side cannot happen (a tag separates them)
                            None
                        }
                        Some(_) => Some(&d.bs),
                        None => None,
                    }
                };
                if is_raw {
                    // the body must not contain its own terminator
                    let probe = format!("{t}{}", d.bs);
                    // a start delimiter straddling the end of the body makes the terminator ambiguous
                    for p in t.len().saturating_sub(d.bs.len() - 1)..t.len() {
                        if probe.is_char_boundary(p) && probe[p..].starts_with(d.bs.as_str()) {
                            valid = false;
                        }
                    }
                    let mut pos = 0;
                    while let Some(p) = probe[pos..].find(d.bs.as_str()) {
                        let after = probe[pos + p + d.bs.len()..].trim_start_matches('-').trim_start();
                        if after.starts_with("endraw") && pos + p != t.len() {
                            valid = false;
                        }
                        pos += p + d.bs.len();
                    }
                    continue;
                }
                let probe = format!("{t}{}", nextd.unwrap_or(""));
                match (first_start(&probe, &one), nextd) {
                    (Some(p), Some(_)) if p == t.len() => {}
                    (None, None) => {}
                    _ => valid = false,
                }
            }
        }
        if !valid {
            cx.count("rejected_ambiguous_texts", 1);
            continue;
        }
        let exp = expected(&items);
        // coverage cells: (left neighbour kind, its right marker, text class, right neighbour's left marker, its kind)
        {
            let reals: Vec<&It> = items.iter().filter(|i| !is_pseudo(i)).collect();
            let kind = |it: &It| -> &'static str {
                match it {
                    It::Text { .. } => "text",
                    It::Expr { .. } => "expr",
                    It::Tag { kind, .. } => kind,
                    It::Comment { .. } => "comment",
                    It::Raw { .. } => "raw",
                }
            };
            for (i, it) in reals.iter().enumerate() {
                let t = match it {
                    It::Text { s, .. } => s,
                    It::Raw { body, .. } => body,
                    _ => continue,
                };
                let tclass = if t.trim().is_empty() { "all-ws" } else if t.trim_start().len() != t.len() && t.trim_end().len() != t.len() { "ws-both" } else if t.trim_start().len() != t.len() { "ws-start" } else if t.trim_end().len() != t.len() { "ws-end" } else { "no-ws" };
                let (lk, lm) = if i > 0 { (kind(reals[i - 1]), rmark(reals[i - 1])) } else { ("start", false) };
                let (rk, rm) = reals.get(i + 1).map(|x| (kind(x), lmark(x))).unwrap_or(("end", false));
                cx.cell(format!("{lk}|{lm}|{}:{tclass}|{rm}|{rk}", kind(it)));
            }
        }
        let mut outputs: Vec<String> = Vec::new();
        for d in &ds {
            let src = spell(&items, d);
            cx.eval();
            match engine(d, &src) {
                Ok(Ok(out)) => {
                    // `{#-#}`: one dash, two delimiters it is "inside" of. It removes whitespace on one side — whichever the
                    // engine reads it as — never on both, never on none
                    let alt = lone_dash(&items).map(|flipped| expected(&flipped));
                    if out != exp && alt.as_deref() != Some(out.as_str()) {
                        // classify: does a `-` reach across a comment?
                        let reals: Vec<&It> = items.iter().filter(|i| !is_pseudo(i)).collect();
                        let across_comment = reals.windows(2).any(|w| matches!(w[1], It::Comment { r: false, .. }) && rmark(w[0]));
                        let sig = if across_comment { "C08/trim-leaks-across-comment" } else { "C08/output-differs-from-item-specification" };
                        cx.violation(sig, format!("under {} delimiters {src:?} rendered {out:?}, the item list says {exp:?}", d.class()), json!({"source": src, "expected": exp, "observed": out, "delimiters": format!("{d:?}"), "items": format!("{items:?}")}));
                    }
                    outputs.push(out);
                    cx.count("templates_compared", 1);
                }
                Ok(Err(e)) => cx.violation("C08/valid-item-list-rejected", format!("under {d:?} {src:?} failed: {e}"), json!({"source": src, "delimiters": format!("{d:?}"), "error": e})),
                Err(p) => cx.violation(&format!("C08/panic/{}", panic_site(&p)), format!("panic on {src:?} under {d:?}: {p}"), json!({"source": src, "delimiters": format!("{d:?}")})),
            }
        }
        if ds.len() > 1 {
            cx.count("respelling_groups", 1);
            if outputs.len() == ds.len() && outputs.windows(2).any(|w| w[0] != w[1]) {
                cx.violation("C08/respelling-changes-output", format!("the same item list rendered differently under different delimiter sets: {outputs:?}"), json!({"items": format!("{items:?}"), "delimiters": format!("{ds:?}")}));
            }
        }
        let src0 = spell(&items, &ds[0]);
        let e2 = exp.clone();
        cx.sample(|| json!({"source": src0, "expected_output": e2, "delimiter_sets": ds.len()}));
    }
}
