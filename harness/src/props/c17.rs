//! C17 — every built-in filter, test and function is total and honours its contract.
//! (A) matrix enumeration with the panic recorder: built-in x receiver pool x declared-argument states
//!     {absent, right kind at boundary values, each wrong kind} (+ undeclared argument names for totality);
//! (B) contract laws per built-in on random hostile strings and numbers, written from the documentation.
use crate::core::*;
use crate::model;
use crate::values::*;
use serde_json::json;
use tera::{Context, Tera, Value};

#[derive(Clone, Copy, PartialEq, Debug)]
enum Ty {
    Str,
    Bool,
    USize,
    U32,
    I32,
    I128,
    Any,
}

#[derive(Clone, Copy, PartialEq, Debug)]
enum Kind {
    Filter,
    Test,
    Function,
}

struct Spec {
    name: &'static str,
    kind: Kind,
    /// receiver kinds the built-in is documented for (used only to know when the *only* problem is the argument)
    recv: &'static str,
    args: &'static [(&'static str, bool, Ty)],
}

const fn f(name: &'static str, recv: &'static str, args: &'static [(&'static str, bool, Ty)]) -> Spec {
    Spec { name, kind: Kind::Filter, recv, args }
}
const fn t(name: &'static str, recv: &'static str, args: &'static [(&'static str, bool, Ty)]) -> Spec {
    Spec { name, kind: Kind::Test, recv, args }
}

const SPECS: &[Spec] = &[
    f("safe", "any", &[]),
    f("default", "any", &[("value", true, Ty::Any), ("boolean", false, Ty::Bool)]),
    f("upper", "str", &[]),
    f("lower", "str", &[]),
    f("wordcount", "str", &[]),
    f("escape_html", "str", &[]),
    f("escape_xml", "str", &[]),
    f("newlines_to_br", "str", &[]),
    f("pluralize", "int", &[("singular", false, Ty::Str), ("plural", false, Ty::Str)]),
    f("trim", "str", &[("pat", false, Ty::Str)]),
    f("trim_start", "str", &[("pat", false, Ty::Str)]),
    f("trim_end", "str", &[("pat", false, Ty::Str)]),
    f("replace", "str", &[("from", true, Ty::Str), ("to", true, Ty::Str)]),
    f("capitalize", "str", &[]),
    f("title", "str", &[]),
    f("truncate", "str", &[("length", true, Ty::USize), ("end", false, Ty::Str)]),
    f("indent", "str", &[("width", false, Ty::USize), ("first", false, Ty::Bool), ("blank", false, Ty::Bool)]),
    f("str", "any", &[]),
    f("int", "numstr", &[("base", false, Ty::U32)]),
    f("float", "numstr", &[]),
    f("length", "sized", &[]),
    f("reverse", "sized", &[]),
    f("split", "str", &[("pat", true, Ty::Str)]),
    f("abs", "num", &[]),
    f("round", "num", &[("method", false, Ty::Str), ("precision", false, Ty::I32)]),
    f("first", "arr", &[]),
    f("last", "arr", &[]),
    f("nth", "arr", &[("n", true, Ty::USize)]),
    f("join", "arr", &[("sep", false, Ty::Str)]),
    f("sort", "arr", &[("attribute", false, Ty::Str)]),
    f("unique", "arr", &[]),
    f("get", "map", &[("key", true, Ty::Str), ("default", false, Ty::Any)]),
    f("values", "map", &[]),
    f("keys", "map", &[]),
    f("pairs", "map", &[]),
    f("group_by", "arr", &[("attribute", true, Ty::Str)]),
    t("string", "any", &[]),
    t("number", "any", &[]),
    t("map", "any", &[]),
    t("bool", "any", &[]),
    t("array", "any", &[]),
    t("integer", "any", &[]),
    t("float", "any", &[]),
    t("none", "any", &[]),
    t("iterable", "any", &[]),
    t("defined", "any", &[]),
    t("undefined", "any", &[]),
    t("odd", "int", &[]),
    t("even", "int", &[]),
    t("divisible_by", "int", &[("divisor", true, Ty::I128)]),
    t("starting_with", "str", &[("pat", true, Ty::Str)]),
    t("ending_with", "str", &[("pat", true, Ty::Str)]),
    t("containing", "container", &[("pat", true, Ty::Any)]),
    Spec { name: "range", kind: Kind::Function, recv: "none", args: &[("end", true, Ty::I128), ("start", false, Ty::I128), ("step_by", false, Ty::I128)] },
    Spec { name: "throw", kind: Kind::Function, recv: "none", args: &[("message", true, Ty::Str)] },
];

const ARGNAMES: [&str; 21] = ["value", "boolean", "singular", "plural", "pat", "from", "to", "length", "end", "width", "first", "blank", "base", "method", "precision", "n", "sep", "attribute", "key", "default", "divisor"];

fn recv_ok(recv: &str, v: &V) -> bool {
    match recv {
        "any" => !matches!(v, V::Undef),
        "str" => matches!(v, V::Str(_) | V::Safe(_)),
        "int" => v.i128().is_some() && v.is_int(),
        "num" => v.is_number() && (matches!(v, V::F64(_)) || v.i128().is_some()),
        "numstr" => false,
        "sized" => matches!(v, V::Str(_) | V::Safe(_) | V::Arr(_)),
        "arr" => matches!(v, V::Arr(a) if !a.is_empty()),
        "map" => matches!(v, V::Map(_)),
        "container" => matches!(v, V::Arr(_) | V::Map(_)),
        _ => false,
    }
}

fn right_values(ty: Ty) -> Vec<V> {
    match ty {
        Ty::Str => vec![V::Str("".into()), V::Str("a".into()), V::Str("é日😀".into()), V::Safe("<b>".into()), V::Str("ceil".into()), V::Str("floor".into()), V::Str("a.a".into()), V::Str("…".into()), V::Str("x".repeat(300))],
        Ty::Bool => vec![V::Bool(true), V::Bool(false)],
        Ty::USize => vec![V::I64(0), V::I64(1), V::U64(3), V::I64(21), V::U64(1000), V::U64(u64::MAX), V::I128(5), V::F64(2.0), V::I64(1_000_000)],
        Ty::U32 => vec![V::I64(2), V::I64(10), V::I64(16), V::I64(36), V::I64(37), V::I64(0), V::I64(1), V::U64(u32::MAX as u64), V::F64(8.0)],
        Ty::I32 => vec![V::I64(0), V::I64(1), V::I64(-1), V::I64(2), V::I64(15), V::I64(-15), V::I64(400), V::I64(-400), V::I64(i32::MAX as i64), V::I64(i32::MIN as i64), V::I64(308), V::I64(-324)],
        Ty::I128 => vec![V::I64(0), V::I64(1), V::I64(-1), V::I64(2), V::I64(-3), V::I64(7), V::I128(i128::MAX), V::I128(i128::MIN), V::I64(i64::MAX), V::U64(u64::MAX), V::I64(100_001), V::F64(3.0)],
        Ty::Any => kind_pool().into_iter().step_by(3).collect(),
    }
}

fn wrong_values(ty: Ty) -> Vec<V> {
    let arr = V::Arr(vec![V::I64(1)]);
    let map = V::Map(vec![(K::Str("a".into()), V::I64(1))]);
    match ty {
        Ty::Str => vec![V::I64(1), V::Bool(true), V::None, arr, map, V::F64(1.5), V::Bytes(b"a".to_vec())],
        Ty::Bool => vec![V::I64(1), V::I64(0), V::Str("true".into()), V::None, arr, map],
        Ty::USize => vec![V::Str("1".into()), V::Bool(true), V::None, arr, map, V::F64(1.5), V::I64(-1), V::U128(u128::MAX), V::F64(f64::NAN)],
        Ty::U32 => vec![V::Str("10".into()), V::Bool(true), V::None, arr, map, V::F64(2.5), V::I64(-2), V::I64(1 << 40)],
        Ty::I32 => vec![V::Str("1".into()), V::Bool(false), V::None, arr, map, V::F64(0.5), V::I64(1 << 40), V::I128(i128::MIN)],
        Ty::I128 => vec![V::Str("1".into()), V::Bool(true), V::None, arr, map, V::F64(0.5), V::U128(u128::MAX), V::F64(f64::INFINITY)],
        Ty::Any => vec![],
    }
}

fn call_src(s: &Spec, args: &[(&str, &str)]) -> String {
    let a = args.iter().map(|(n, var)| format!("{n}={var}")).collect::<Vec<_>>().join(", ");
    match s.kind {
        Kind::Filter => {
            if args.is_empty() {
                format!("{{{{ v | {} }}}}", s.name)
            } else {
                format!("{{{{ v | {}({a}) }}}}", s.name)
            }
        }
        Kind::Test => {
            if args.is_empty() {
                format!("{{{{ v is {} }}}}", s.name)
            } else {
                format!("{{{{ v is {}({a}) }}}}", s.name)
            }
        }
        Kind::Function => {
            // `range` can produce 100k elements: print its length only
            if s.name == "range" {
                format!("{{{{ {}({a}) | length }}}}", s.name)
            } else {
                format!("{{{{ {}({a}) }}}}", s.name)
            }
        }
    }
}

struct Outcome {
    ok: Option<String>,
    err: Option<String>,
}

fn render(cx: &mut Cx, tera: &Tera, src: &str, ctx: &Context, what: &dyn Fn() -> serde_json::Value) -> Option<Outcome> {
    cx.eval();
    let r = guard(|| {
        let mut out = Vec::new();
        let r = tera.render_str_to(src, ctx, false, &mut out);
        (r, out)
    });
    match r {
        Ok((Ok(()), out)) => match String::from_utf8(out) {
            Ok(s) => Some(Outcome { ok: Some(s), err: None }),
            Err(_) => {
                cx.violation("C17/invalid-utf8-output", format!("{src} wrote invalid UTF-8"), what());
                None
            }
        },
        Ok((Err(e), _)) => {
            let msg = guard(|| e.to_string());
            match msg {
                Ok(m) => Some(Outcome { ok: None, err: Some(m) }),
                Err(p) => {
                    cx.violation(&format!("C17/panic-in-error-display/{}", panic_site(&p)), format!("Display of the error of {src} panicked: {p}"), what());
                    None
                }
            }
        }
        Err(p) => {
            cx.violation(&format!("C17/panic/{}", panic_site(&p)), format!("{src} panicked: {p}"), what());
            None
        }
    }
}

fn ctx_with(pairs: &[(&str, &V)]) -> Context {
    let mut c = Context::new();
    for (n, v) in pairs {
        if !matches!(v, V::Undef) {
            c.insert_value(n.to_string(), v.to_tera());
        }
    }
    c
}

/// values that are neighbours of one another: equal up to representation, sub- and supersets, shared prefixes
fn neighbour_pool() -> Vec<V> {
    let m = |ks: &[&str]| V::Map(ks.iter().enumerate().map(|(i, k)| (K::Str(k.to_string()), V::I64(i as i64 + 1))).collect());
    vec![
        m(&["a", "b"]), m(&["a", "b", "c"]), m(&["a"]), m(&["b", "a"]), m(&["a", "b", "c", "d"]), m(&["c", "d"]), V::Map(vec![(K::I64(1), V::I64(1)), (K::Str("a".into()), V::I64(2))]),
        V::Map(vec![(K::Str("a".into()), V::F64(1.0)), (K::Str("b".into()), V::I64(2))]),
        V::Arr(vec![V::I64(1), V::I64(2)]), V::Arr(vec![V::I64(1), V::I64(2), V::I64(3)]), V::Arr(vec![V::F64(1.0), V::I64(2)]), V::Arr(vec![V::I64(2), V::I64(1)]), V::Arr(vec![V::U64(1), V::I128(2)]),
        V::Arr(vec![V::Str("a".into()), V::Str("b".into())]), V::Arr(vec![V::Str("a".into()), V::Str("b".into()), V::Str("a".into())]),
        V::Str("ab".into()), V::Str("ab\0".into()), V::Str("abc".into()), V::Str("AB".into()), V::Safe("ab".into()), V::Str("ab ".into()), V::Str("1".into()), V::Str("1.0".into()),
        V::Str("a much longer string than the inline form holds".into()), V::Str("a much longer string than the inline form holdz".into()),
        V::I64(1), V::F64(1.0), V::U64(1), V::I128(1), V::Bool(true), V::I64(2), V::F64(2.0), V::F64(1.5), V::I64(-1), V::F64(-1.0), V::None,
    ]
}

/// A built-in is a function of its receiver and arguments: the same call gives the same result whatever was evaluated before
/// it on this thread. Each call is evaluated over a pool of neighbouring values in one order, then in the opposite order,
/// then each value twice in a row; every result must equal the first one obtained for that value.
fn order_independence(cx: &mut Cx, tera: &Tera, s: &Spec) {
    let pool = neighbour_pool();
    let mut srcs = vec![(call_src(s, &[]), None)];
    for (ai, (aname, _, ty)) in s.args.iter().enumerate() {
        // the argument takes the neighbouring values too when it is the only required one or optional
        if s.args.iter().enumerate().all(|(j, a)| j == ai || !a.1) {
            let _ = ty;
            srcs.push((call_src(s, &[(*aname, "x")]), Some(*aname)));
        }
    }
    for (src, arg) in &srcs {
        let fixed = V::Arr(vec![V::I64(1), V::I64(2), V::I64(3)]);
        let eval = |cx: &mut Cx, v: &V| -> Option<String> {
            let c = match arg {
                None => ctx_with(&[("v", v)]),
                Some(_) => ctx_with(&[("v", if s.kind == Kind::Function { v } else { &fixed }), ("x", v)]),
            };
            let o = render(cx, tera, src, &c, &|| json!({"src": src, "v": v.tagged()}))?;
            // errors are compared by their first line
            Some(match (o.ok, o.err) {
                (Some(t), _) => format!("OK {t}"),
                (_, Some(e)) => format!("ERR {}", e.lines().next().unwrap_or("")),
                _ => String::new(),
            })
        };
        let first: Vec<Option<String>> = pool.iter().map(|v| eval(cx, v)).collect();
        let mut check = |cx: &mut Cx, i: usize, how: &str| {
            let again = eval(cx, &pool[i]);
            cx.count("order_independence_comparisons", 1);
            if again != first[i] {
                cx.violation(
                    &format!("C17/result-depends-on-earlier-calls/{}", s.name),
                    format!("{src} with {:?} gave {:?} at first and {:?} when evaluated {how}", pool[i], first[i], again),
                    json!({"src": src, "v": pool[i].tagged(), "order": how}),
                );
            }
        };
        for i in (0..pool.len()).rev() {
            check(cx, i, "after its neighbours in the opposite order");
        }
        for i in 0..pool.len() {
            check(cx, i, "again after the whole pool");
            check(cx, i, "twice in a row");
        }
        cx.cell(format!("{}|order-independence|{}", s.name, arg.unwrap_or("receiver")));
    }
}

fn matrix_case(cx: &mut Cx, tera: &Tera, s: &Spec, pool: &[V]) {
    let receivers: Vec<&V> = if s.kind == Kind::Function { vec![&pool[0]] } else { pool.iter().collect() };
    // --- no argument at all
    let src0 = call_src(s, &[]);
    let required: Vec<&str> = s.args.iter().filter(|a| a.1).map(|a| a.0).collect();
    for v in &receivers {
        let c = ctx_with(&[("v", v)]);
        let Some(o) = render(cx, tera, &src0, &c, &|| json!({"src": src0, "v": v.tagged()})) else { continue };
        cx.cell(format!("{}|{}|noargs|{}", s.name, v.kind(), if o.ok.is_some() { "ok" } else { "err" }));
        if !required.is_empty() {
            match (&o.ok, &o.err) {
                (Some(out), _) => cx.violation(&format!("C17/missing-argument-not-reported/{}", s.name), format!("{src0} with v={v:?} rendered {out:?} although the required argument(s) {required:?} are missing"), json!({"src": src0, "v": v.tagged()})),
                (_, Some(msg)) => {
                    if recv_ok(s.recv, v) && !required.iter().any(|a| msg.contains(a)) {
                        cx.violation(&format!("C17/missing-argument-not-named/{}", s.name), format!("{src0} with a valid receiver {v:?} failed without naming the missing argument {required:?}: {msg}"), json!({"src": src0, "v": v.tagged()}));
                    }
                }
                _ => {}
            }
        }
    }
    // --- each declared argument: right kind at boundary values, each wrong kind (the other required ones supplied)
    for (ai, (aname, _req, ty)) in s.args.iter().enumerate() {
        let others: Vec<(&str, V)> = s.args.iter().enumerate().filter(|(j, a)| *j != ai && a.1).map(|(_, a)| (a.0, right_values(a.2)[1.min(right_values(a.2).len() - 1)].clone())).collect();
        let mut argspec: Vec<(&str, String)> = vec![(*aname, "x".to_string())];
        for (j, (n, _)) in others.iter().enumerate() {
            argspec.push((n, format!("o{j}")));
        }
        let argrefs: Vec<(&str, &str)> = argspec.iter().map(|(a, b)| (*a, b.as_str())).collect();
        let src = call_src(s, &argrefs);
        for (state, vals) in [("right", right_values(*ty)), ("wrong", wrong_values(*ty))] {
            for x in &vals {
                for v in &receivers {
                    let mut c = ctx_with(&[("v", v), ("x", x)]);
                    for (j, (_, ov)) in others.iter().enumerate() {
                        c.insert_value(format!("o{j}"), ov.to_tera());
                    }
                    let Some(o) = render(cx, tera, &src, &c, &|| json!({"src": src, "v": v.tagged(), "x": x.tagged()})) else { continue };
                    cx.cell(format!("{}|{}|{aname}:{state}:{}|{}", s.name, v.kind(), x.kind(), if o.ok.is_some() { "ok" } else { "err" }));
                    if state == "wrong" {
                        if let Some(out) = &o.ok {
                            cx.violation(&format!("C17/mistyped-argument-not-reported/{}/{aname}", s.name), format!("{src} with v={v:?}, {aname}={x:?} (wrong kind for {ty:?}) rendered {out:?} instead of reporting the argument"), json!({"src": src, "v": v.tagged(), "x": x.tagged()}));
                        }
                    }
                }
            }
        }
    }
    // --- pairs of arguments for multi-argument built-ins, boundary x boundary
    if s.args.len() >= 2 {
        for i in 0..s.args.len() {
            for j in (i + 1)..s.args.len() {
                let src = call_src(s, &[(s.args[i].0, "x"), (s.args[j].0, "y")]);
                for x in right_values(s.args[i].2).iter().chain(wrong_values(s.args[i].2).iter().take(2)) {
                    for y in right_values(s.args[j].2).iter().chain(wrong_values(s.args[j].2).iter().take(2)) {
                        for v in receivers.iter().step_by(2) {
                            let c = ctx_with(&[("v", v), ("x", x), ("y", y)]);
                            if let Some(o) = render(cx, tera, &src, &c, &|| json!({"src": src, "v": v.tagged(), "x": x.tagged(), "y": y.tagged()})) {
                                cx.cell(format!("{}|pair:{}:{}|{}", s.name, s.args[i].0, s.args[j].0, if o.ok.is_some() { "ok" } else { "err" }));
                            }
                        }
                    }
                }
            }
        }
    }
    // --- undeclared argument names with values of every kind: totality only
    for an in ARGNAMES.iter().filter(|an| !s.args.iter().any(|a| a.0 == **an)) {
        let src = call_src(s, &[(an, "x")]);
        for x in pool.iter().step_by(5) {
            for v in receivers.iter().step_by(3) {
                let c = ctx_with(&[("v", v), ("x", x)]);
                let _ = render(cx, tera, &src, &c, &|| json!({"src": src, "v": v.tagged(), "x": x.tagged()}));
            }
        }
    }
    order_independence(cx, tera, s);
    cx.count("matrix_builtins_completed", 1);
}

// -------------------------------------------------------------------------------------------- laws

static RANGE_MAX_PRODUCED: std::sync::atomic::AtomicU64 = std::sync::atomic::AtomicU64::new(0);
static RANGE_MIN_REFUSED: std::sync::atomic::AtomicU64 = std::sync::atomic::AtomicU64::new(u64::MAX);
use std::sync::atomic::Ordering;

fn law_string(rng: &mut Rng) -> String {
    let p = ["a", "b", "Z", " ", "  ", "\n", "\r\n", "\t", "é", "É", "日", "ж", "Ж", "ω", "-", "'", "\"", "<", ">", "&", "x y", ".", "1", "_", "\u{a0}", "😀", "ab", "ba", "\r", "ß", "ǆ", "İ", "\u{2003}", "&amp;", "0"];
    let mut o = String::new();
    // mostly short; one in four long enough to cross the 21-byte inline limit of the string type well and truly
    let n = if rng.chance(1, 4) { rng.below(30) } else { rng.below(10) };
    for _ in 0..n {
        o += p[rng.below(p.len())];
    }
    o
}

fn unescape(x: &str) -> String {
    x.replace("&lt;", "<").replace("&gt;", ">").replace("&quot;", "\"").replace("&#39;", "'").replace("&#x27;", "'").replace("&apos;", "'").replace("&#x2F;", "/").replace("&amp;", "&")
}

const STR_FILTERS: [&str; 17] = ["upper", "lower", "capitalize", "title", "trim", "trim_start", "trim_end", "newlines_to_br", "escape_html", "escape_xml", "wordcount", "length", "reverse", "str", "indent", "indent(width=2, first=true)", "indent(blank=true)"];

fn laws_engine() -> Tera {
    let mut t = Tera::default();
    let mut tp: Vec<(String, String)> = STR_FILTERS.iter().enumerate().map(|(i, f)| (format!("f{i}"), format!("{{{{ v | {f} }}}}"))).collect();
    for (n, s) in [
        ("trunc", "{{ v | truncate(length=n) }}"),
        ("trunc_e", "{{ v | truncate(length=n, end=e) }}"),
        ("repl", "{{ v | replace(from=a, to=b) }}"),
        ("trimp", "{{ v | trim(pat=a) }}\u{1}{{ v | trim_start(pat=a) }}\u{1}{{ v | trim_end(pat=a) }}"),
        ("indw", "{{ v | indent(width=w, first=fi, blank=bl) }}"),
        ("int", "{{ v | int }}"),
        ("float", "{{ v | float }}"),
        ("abs", "{{ v | abs }}"),
        ("str", "{{ v | str }}"),
        ("round", "{{ v | round }}|{{ v | round(method=\"ceil\") }}|{{ v | round(method=\"floor\") }}"),
        ("roundp", "{{ v | round(precision=n) }}"),
        ("roundpm", "{{ v | round(precision=n, method=m) }}"),
        ("default", "{{ v | default(value=\"D\") }}"),
        ("defaultb", "{{ v | default(value=\"D\", boolean=true) }}"),
        ("defaultf", "{{ m.nope | default(value=\"D\") }}|{{ m.nope | default(value=\"D\", boolean=false) }}"),
        ("range", "{{ range(end=e, start=s, step_by=t) }}"),
        ("range_e", "{{ range(end=e) }}"),
        ("types", "{{ v is string }}|{{ v is number }}|{{ v is integer }}|{{ v is float }}|{{ v is map }}|{{ v is array }}|{{ v is bool }}|{{ v is none }}|{{ v is iterable }}|{{ v is defined }}|{{ v is undefined }}"),
        ("oddeven", "{{ v is odd }}|{{ v is even }}|{{ v is divisible_by(divisor=2) }}"),
        ("startend", "{{ v is starting_with(pat=a) }}|{{ v is ending_with(pat=a) }}|{{ v is containing(pat=a) }}"),
        ("plural", "{{ v | pluralize }}|{{ v | pluralize(singular=\"y\", plural=\"ies\") }}"),
        ("divby", "{{ v is divisible_by(divisor=d) }}"),
        ("revb", "{{ b | reverse == rb }}|{{ b | reverse | reverse == b }}|{{ b | reverse | length == b | length }}|{{ b | reverse }}"),
    ] {
        tp.push((n.to_string(), s.to_string()));
    }
    t.add_raw_templates(tp).expect("C17 law templates");
    t
}

fn law_case(cx: &mut Cx, t: &Tera, rng: &mut Rng) {
    macro_rules! fail {
        ($law:expr, $replay:expr, $($a:tt)*) => {{
            cx.violation(&format!("C17/law/{}", $law), format!($($a)*), $replay);
        }};
    }
    macro_rules! rend {
        ($name:expr, $ctx:expr) => {{
            cx.eval();
            match guard(|| t.render($name, $ctx)) {
                Ok(r) => r.map_err(|e| e.to_string()),
                Err(p) => {
                    cx.violation(&format!("C17/panic/{}", panic_site(&p)), format!("law template {} panicked: {p}", $name), json!({"template": $name}));
                    return;
                }
            }
        }};
    }
    let v = law_string(rng);
    let a = law_string(rng);
    let b = law_string(rng);
    let nlen = rng.below(9);
    let mut ctx = Context::new();
    ctx.insert_value("v", Value::from(v.as_str()));
    ctx.insert_value("a", Value::from(a.as_str()));
    ctx.insert_value("b", Value::from(b.as_str()));
    ctx.insert_value("n", Value::from(nlen as u64));
    ctx.insert_value("e", Value::from(b.as_str()));
    let rp = json!({"v": v, "a": a, "b": b, "n": nlen});
    let mut out = vec![];
    for i in 0..STR_FILTERS.len() {
        match rend!(&format!("f{i}"), &ctx) {
            Ok(s) => out.push(s),
            Err(e) => {
                fail!(format!("{}-error", STR_FILTERS[i]), rp.clone(), "{v:?} | {} failed: {e}", STR_FILTERS[i]);
                return;
            }
        }
    }
    cx.count("string_law_cases", 1);
    // reverse "reverses the content" of arrays, strings and bytes: reversed bytes are those bytes in the opposite order
    {
        let bytes: Vec<u8> = (0..rng.below(9)).map(|_| if rng.bool() { b'a' + rng.below(26) as u8 } else { rng.below(256) as u8 }).collect();
        let rb: Vec<u8> = bytes.iter().rev().copied().collect();
        let mut cb = Context::new();
        cb.insert_value("b", Value::bytes(bytes.clone()));
        cb.insert_value("rb", Value::bytes(rb.clone()));
        let exp = format!("true|true|true|{}", String::from_utf8_lossy(&rb));
        cx.cell(format!("laws|reverse-bytes|{}", bytes.len().min(3)));
        match rend!("revb", &cb) {
            Ok(o) if o == exp => {}
            Ok(o) => fail!("reverse-bytes", json!({"bytes": bytes}), "bytes {bytes:?}: reverse==reversed|reverse|reverse==id|same length|printed gave {o:?}, expected {exp:?}"),
            Err(e) => fail!("reverse-bytes", json!({"bytes": bytes}), "reverse of bytes {bytes:?} failed: {e}"),
        }
    }
    cx.cell(format!("laws|str|{}|{}", if v.is_ascii() { "ascii" } else { "unicode" }, v.chars().count().min(12)));
    // 1:1 case maps only (ASCII + a few Latin/Cyrillic letters); exotic characters are exercised for totality only
    let simple = |c: char| c.is_ascii() || "éÉжЖ".contains(c);
    if v.chars().all(simple) {
        if out[0] != v.to_uppercase() || out[0].chars().count() != v.chars().count() {
            fail!("upper", rp.clone(), "{v:?} | upper -> {:?}", out[0]);
        }
        if out[1] != v.to_lowercase() {
            fail!("lower", rp.clone(), "{v:?} | lower -> {:?}", out[1]);
        }
        for k in [0, 1, 2, 3] {
            if out[k].to_lowercase() != v.to_lowercase() {
                fail!(format!("{}-changes-more-than-case", STR_FILTERS[k]), rp.clone(), "{v:?} | {} -> {:?}", STR_FILTERS[k], out[k]);
            }
        }
        if let Some(fc) = v.chars().next() {
            let exp: String = fc.to_uppercase().chain(v[fc.len_utf8()..].to_lowercase().chars()).collect();
            if out[2] != exp {
                fail!("capitalize", rp.clone(), "{v:?} | capitalize -> {:?}, expected {exp:?}", out[2]);
            }
        }
        // title: first letter of every word upper-cased, the rest lower-cased, separators untouched
        let oc: Vec<char> = out[3].chars().collect();
        let vc: Vec<char> = v.chars().collect();
        if oc.len() == vc.len() {
            let mut cap = true;
            for (i, c) in vc.iter().enumerate() {
                if c.is_ascii_punctuation() || c.is_whitespace() {
                    if oc[i] != *c {
                        fail!("title", rp.clone(), "separator changed: {v:?} | title -> {:?}", out[3]);
                    }
                    if *c != '\'' {
                        cap = true;
                    }
                } else {
                    let want: String = if cap { c.to_uppercase().collect() } else { c.to_lowercase().collect() };
                    if oc[i].to_string() != want {
                        fail!("title", rp.clone(), "{v:?} | title -> {:?} (position {i})", out[3]);
                    }
                    cap = false;
                }
            }
        } else {
            fail!("title", rp.clone(), "{v:?} | title changed the length: {:?}", out[3]);
        }
    }
    // trim*: remove only whitespace at the matching ends
    for (k, exp) in [(4, v.trim()), (5, v.trim_start()), (6, v.trim_end())] {
        if out[k] != exp {
            fail!(STR_FILTERS[k], rp.clone(), "{v:?} | {} -> {:?}, expected {exp:?}", STR_FILTERS[k], out[k]);
        }
    }
    if out[7] != v.replace("\r\n", "<br>").replace('\n', "<br>").replace('\r', "<br>") {
        fail!("newlines_to_br", rp.clone(), "{v:?} | newlines_to_br -> {:?}", out[7]);
    }
    for k in [8, 9] {
        if unescape(&out[k]) != v {
            fail!(format!("{}-not-invertible", STR_FILTERS[k]), rp.clone(), "{v:?} | {} -> {:?} does not unescape to the input", STR_FILTERS[k], out[k]);
        }
        if out[k].chars().any(|c| "<>\"'".contains(c)) {
            fail!(format!("{}-raw-special", STR_FILTERS[k]), rp.clone(), "{v:?} | {} -> {:?} keeps a raw special character", STR_FILTERS[k], out[k]);
        }
        // every `&` starts an entity
        let bytes = out[k].as_bytes();
        for (i, c) in bytes.iter().enumerate() {
            if *c == b'&' {
                let rest = &out[k][i..];
                if !["&amp;", "&lt;", "&gt;", "&quot;", "&#39;", "&#x27;", "&apos;", "&#x2F;"].iter().any(|e| rest.starts_with(e)) {
                    fail!(format!("{}-bare-ampersand", STR_FILTERS[k]), rp.clone(), "{v:?} | {} -> {:?}", STR_FILTERS[k], out[k]);
                }
            }
        }
    }
    if out[10] != v.split_whitespace().count().to_string() {
        fail!("wordcount", rp.clone(), "{v:?} | wordcount -> {}", out[10]);
    }
    if out[11] != v.chars().count().to_string() {
        fail!("length", rp.clone(), "{v:?} | length -> {}", out[11]);
    }
    if out[12] != v.chars().rev().collect::<String>() {
        fail!("reverse", rp.clone(), "{v:?} | reverse -> {:?}", out[12]);
    }
    if out[13] != v {
        fail!("str", rp.clone(), "{v:?} | str -> {:?}", out[13]);
    }
    // indent: only injects `width` spaces at line starts; whether whitespace-only lines count as blank and
    // whether an empty trailing line is indented is not documented precisely: both readings are accepted
    // a fourth spelling takes its width from the context: small widths, powers of two and their neighbours, up to 1000
    let iw = match rng.below(4) {
        0 => rng.below(10),
        1 => *rng.pick(&[15usize, 16, 17, 31, 32, 33, 63, 64, 65, 127, 128, 129, 191, 192, 255, 256, 257, 512, 640, 960, 999, 1000]),
        2 => 64 * (1 + rng.below(15)),
        _ => rng.below(1001),
    };
    let (ifirst, iblank) = (rng.bool(), rng.bool());
    let mut cw = ctx.clone();
    cw.insert_value("w", Value::from(iw as u64));
    cw.insert_value("fi", Value::from(ifirst));
    cw.insert_value("bl", Value::from(iblank));
    let outw = match rend!("indw", &cw) {
        Ok(s) => s,
        Err(e) => {
            fail!("indent-error", json!({"v": v, "width": iw, "first": ifirst, "blank": iblank}), "{v:?} | indent(width={iw}, first={ifirst}, blank={iblank}) failed: {e}");
            return;
        }
    };
    cx.cell(format!("laws|indent-width|{}|{}|{}", if iw == 0 { "0" } else if iw % 64 == 0 { "x64" } else if iw < 64 { "<64" } else { ">64" }, ifirst, iblank));
    for (k, width, first, blank) in [(14usize, 4usize, false, false), (15, 2, true, false), (16, 4, false, true), (usize::MAX, iw, ifirst, iblank)] {
        let ind = " ".repeat(width);
        let (got, spelled) = if k == usize::MAX { (&outw, format!("indent(width={iw}, first={ifirst}, blank={iblank})")) } else { (&out[k], STR_FILTERS[k].to_string()) };
        let mut accepted = Vec::new();
        for ws_is_blank in [false, true] {
            for indent_trailing_empty in [false, true] {
              for first_even_if_blank in [false, true] {
                let mut exp = String::new();
                let nlines = v.split('\n').count();
                for (i, line) in v.split('\n').enumerate() {
                    if i > 0 {
                        exp.push('\n');
                    }
                    let content = line.strip_suffix('\r').unwrap_or(line);
                    let is_blank = if ws_is_blank { content.trim().is_empty() } else { content.is_empty() };
                    let trailing_empty = i > 0 && i == nlines - 1 && line.is_empty();
                    if (i > 0 || first) && (!is_blank || blank || (i == 0 && first_even_if_blank)) && (!trailing_empty || indent_trailing_empty) {
                        exp += &ind;
                    }
                    exp += line;
                }
                accepted.push(exp);
              }
            }
        }
        // an empty input with first=true may or may not get the prefix
        if v.is_empty() {
            accepted.push(String::new());
        }
        if !accepted.contains(got) {
            if accepted.iter().any(|e| e.replace("\r\n", "\n") == *got) {
                fail!("indent-rewrites-crlf", rp.clone(), "{v:?} | {} -> {:?}: the line terminators were changed", spelled, got);
            } else {
                fail!("indent", rp.clone(), "{v:?} | {} -> {:?}, expected {:?}", spelled, got, accepted[0]);
            }
        }
    }
    let vc: Vec<char> = v.chars().collect();
    match rend!("trunc", &ctx) {
        Ok(tr) => {
            let exp = if vc.len() > nlen { vc[..nlen].iter().collect::<String>() + "…" } else { v.clone() };
            if tr != exp {
                fail!("truncate", rp.clone(), "{v:?} | truncate(length={nlen}) -> {tr:?}, expected {exp:?}");
            }
        }
        Err(e) => fail!("truncate-error", rp.clone(), "{v:?} | truncate(length={nlen}) failed: {e}"),
    }
    match rend!("trunc_e", &ctx) {
        Ok(tr) => {
            let exp = if vc.len() > nlen { vc[..nlen].iter().collect::<String>() + &b } else { v.clone() };
            if tr != exp {
                fail!("truncate", rp.clone(), "{v:?} | truncate(length={nlen}, end={b:?}) -> {tr:?}, expected {exp:?}");
            }
        }
        Err(e) => fail!("truncate-error", rp.clone(), "truncate with end failed: {e}"),
    }
    if !a.is_empty() {
        // replace: small reference implementation (leftmost, non-overlapping)
        match rend!("repl", &ctx) {
            Ok(r) => {
                let mut exp = String::new();
                let mut rest = v.as_str();
                while let Some(i) = rest.find(&a) {
                    exp += &rest[..i];
                    exp += &b;
                    rest = &rest[i + a.len()..];
                }
                exp += rest;
                if r != exp {
                    fail!("replace", rp.clone(), "{v:?} | replace(from={a:?}, to={b:?}) -> {r:?}, expected {exp:?}");
                }
            }
            Err(e) => fail!("replace-error", rp.clone(), "replace failed: {e}"),
        }
        match rend!("trimp", &ctx) {
            Ok(r) => {
                let mut st = v.as_str();
                while st.starts_with(&a) {
                    st = &st[a.len()..];
                }
                let mut en = v.as_str();
                while en.ends_with(&a) {
                    en = &en[..en.len() - a.len()];
                }
                let mut both = st;
                while both.ends_with(&a) {
                    both = &both[..both.len() - a.len()];
                }
                let exp = format!("{both}\u{1}{st}\u{1}{en}");
                if r != exp {
                    fail!("trim-pat", rp.clone(), "{v:?} trimmed with pat={a:?} -> {r:?}, expected {exp:?}");
                }
            }
            Err(e) => fail!("trim-pat-error", rp.clone(), "trim(pat) failed: {e}"),
        }
    }
    match rend!("startend", &ctx) {
        Ok(r) => {
            let exp = format!("{}|{}|{}", v.starts_with(&a), v.ends_with(&a), v.contains(&a));
            if r != exp {
                fail!("starting-ending-containing", rp.clone(), "{v:?} with pat={a:?} -> {r}, expected {exp}");
            }
        }
        Err(e) => fail!("starting-ending-containing-error", rp.clone(), "{e}"),
    }

    // ---- conversions on numbers
    let num: V = match rng.below(9) {
        0 => V::I64(rng.range(-500, 500)),
        1 => V::F64((rng.next() as i64 as f64) / 1024.0),
        2 => V::F64(rng.below(100) as f64 / 8.0 - 6.0),
        3 => V::I128(i128::MIN + rng.below(3) as i128),
        4 => V::U64(u64::MAX - rng.below(3) as u64),
        5 => V::F64((rng.below(2000) as f64 - 1000.0) * 0.5),
        6 => gen_int(rng),
        7 => gen_float(rng, false),
        _ => V::F64(*rng.pick(&[2.1, 1e300, -1e300, 1.7e308, 5e-324, 0.5, 1.5, 2.5, -0.5, 1e15 + 0.5, 123456.789, 170141183460469231731687303715884105728.0, -170141183460469231731687303715884105728.0, 170141183460469212842221372237303250944.0, 18446744073709551616.0, 9223372036854775808.0, -9223372036854775808.0, 340282366920938463463374607431768211456.0])),
    };
    let p = *rng.pick(&[-2i64, -1, 0, 1, 2, 3, 5, 10, 15, 17, 300, 308, 309, 400, -300, -400, 2147483647, -2147483648]);
    let mut c2 = Context::new();
    c2.insert_value("v", num.to_tera());
    c2.insert_value("n", Value::from(p));
    c2.insert_value("m", Value::from(*rng.pick(&["ceil", "floor"])));
    let nrp = json!({"v": num.tagged(), "precision": p});
    cx.cell(format!("laws|num|{}|p{}", num.kind(), p.clamp(-401, 401)));
    cx.count("number_law_cases", 1);
    if let V::F64(fv) = num {
        match rend!("round", &c2) {
            Ok(o) => {
                let parts: Vec<f64> = o.split('|').map(|x| x.parse().unwrap_or(f64::NAN)).collect();
                if parts.len() != 3 || parts[1] != fv.ceil() || parts[2] != fv.floor() || !(parts[0] == fv.floor() || parts[0] == fv.ceil()) || (parts[0] - fv).abs() > 0.5 {
                    fail!("round", nrp.clone(), "{fv:?} | round / ceil / floor -> {o}");
                }
            }
            Err(e) => fail!("round-error", nrp.clone(), "{fv:?} | round failed: {e}"),
        }
        for tpl in ["roundp", "roundpm"] {
            match rend!(tpl, &c2) {
                Ok(o) => {
                    let r: f64 = o.parse().unwrap_or(f64::NAN);
                    if !r.is_finite() {
                        fail!("round-nonfinite-from-finite", nrp.clone(), "{fv:?} | round(precision={p}) -> {o}: a finite number became non-finite");
                    } else if (-300..=300).contains(&p) {
                        let unit = 10f64.powi(-(p as i32));
                        let tol = if tpl == "roundp" { 0.5000001 } else { 1.0000001 };
                        if (r - fv).abs() > unit * tol + fv.abs() * 4e-16 {
                            fail!("round-precision", nrp.clone(), "{fv:?} | round(precision={p}) -> {r:?}: further than one unit of the requested place");
                        }
                    }
                }
                Err(_) => {} // refusing an extreme precision is fine
            }
        }
        match rend!("int", &c2) {
            Ok(o) => {
                // exact or refused: only integral floats inside [-2^127, 2^127) have an i128 value (the cast below would
                // saturate outside, so the range is checked first)
                let in_range = fv >= -170141183460469231731687303715884105728.0 && fv < 170141183460469231731687303715884105728.0;
                if fv.fract() != 0.0 || !in_range || o != format!("{}", fv as i128) {
                    fail!("int-of-float", nrp.clone(), "{fv:?} | int -> {o}");
                }
            }
            Err(_) => {
                if fv.fract() == 0.0 && fv.abs() < 1e38 {
                    fail!("int-of-float", nrp.clone(), "{fv:?} | int refused an integral float in range");
                }
            }
        }
        match rend!("abs", &c2) {
            Ok(o) => {
                if o != format!("{:?}", fv.abs()) {
                    fail!("abs", nrp.clone(), "{fv:?} | abs -> {o}");
                }
            }
            Err(e) => fail!("abs-error", nrp.clone(), "{fv:?} | abs failed: {e}"),
        }
        match rend!("float", &c2) {
            Ok(o) if o == format!("{fv:?}") => {}
            other => fail!("float-of-float", nrp.clone(), "{fv:?} | float -> {other:?}"),
        }
    } else if let Some(int) = num.int() {
        let (neg, mag) = int;
        match rend!("abs", &c2) {
            Ok(o) => {
                if o != mag.to_string() {
                    fail!("abs", nrp.clone(), "{num:?} | abs -> {o}");
                }
            }
            Err(_) => {
                // only a magnitude that does not fit the engine's integers may fail
                if mag <= i128::MAX as u128 {
                    fail!("abs", nrp.clone(), "{num:?} | abs refused although the result fits");
                }
            }
        }
        match rend!("int", &c2) {
            Ok(o) if o == model::print(&num) => {}
            other => fail!("int-of-int", nrp.clone(), "{num:?} | int -> {other:?}"),
        }
        match rend!("str", &c2) {
            Ok(o) if o == model::print(&num) => {}
            other => fail!("str-of-int", nrp.clone(), "{num:?} | str -> {other:?}"),
        }
        if let Some(i) = num.i128() {
            match rend!("float", &c2) {
                Ok(o) if o == format!("{:?}", i as f64) => {}
                other => fail!("float-of-int", nrp.clone(), "{num:?} | float -> {other:?}"),
            }
            match rend!("oddeven", &c2) {
                Ok(o) if o == format!("{}|{}|{}", i % 2 != 0, i % 2 == 0, i % 2 == 0) => {}
                other => fail!("odd-even", nrp.clone(), "{num:?} is odd|even|divisible_by(2) -> {other:?}"),
            }
            // divisibility agrees with exact arithmetic for every non-zero divisor, the extremes included
            let d: i128 = match rng.below(8) {
                0 => -1,
                1 => i128::MIN,
                2 => i128::MAX,
                3 => i,
                4 => 0,
                5 => if i != 0 && i != i128::MIN { -i } else { 3 },
                _ => *rng.pick(&[1i128, 2, 3, -3, 7, 10, -10, 1 << 64, -(1 << 64)]),
            };
            c2.insert_value("d", Value::from(d));
            match rend!("divby", &c2) {
                Ok(o) => {
                    if d != 0 {
                        let exp = i.checked_rem(d).map(|r| r == 0).unwrap_or(true);
                        if o != exp.to_string() {
                            fail!("divisible_by", nrp.clone(), "{i} is divisible_by(divisor={d}) -> {o}, exact arithmetic says {exp}");
                        }
                    } else if !(o == "false" || (o == "true" && i == 0)) {
                        // no multiple of zero is anything but zero (whether zero itself counts is left open)
                        fail!("divisible_by", nrp.clone(), "{i} is divisible_by(divisor=0) -> {o}");
                    }
                }
                // refusing a zero divisor is fine, anything else must answer
                Err(e) => {
                    if d != 0 {
                        fail!("divisible_by-error", nrp.clone(), "{i} is divisible_by(divisor={d}) failed: {e}");
                    }
                }
            }
            match rend!("plural", &c2) {
                Ok(o) => {
                    let one = i == 1;
                    let exp_s = if one { "|y" } else { "s|ies" };
                    // long-standing behaviour also treats -1 as singular: accepted
                    if o != exp_s && !(i == -1 && o == "|y") {
                        fail!("pluralize", nrp.clone(), "{num:?} | pluralize -> {o}, expected {exp_s}");
                    }
                }
                Err(e) => fail!("pluralize-error", nrp.clone(), "{num:?} | pluralize failed: {e}"),
            }
        }
        let _ = neg;
    }
    // canonical numeric strings convert exactly, clearly non-numeric strings fail
    let (sv, exp_int, exp_float): (String, Option<String>, Option<String>) = match rng.below(7) {
        0 => {
            let i = rng.range(-100000, 100000);
            (i.to_string(), Some(i.to_string()), Some(format!("{:?}", i as f64)))
        }
        1 => {
            let i = (rng.next() as i128) * (rng.next() as i64 as i128);
            (i.to_string(), Some(i.to_string()), Some(format!("{:?}", i as f64)))
        }
        2 => {
            let fl = rng.range(-4000, 4000) as f64 / 8.0;
            (format!("{fl:?}"), None, Some(format!("{fl:?}")))
        }
        3 => ((*rng.pick(&["abc", "", "x1", "--1", "1 2", "é", "0x", "١٢", "1.5.2", "1.x"])).to_string(), Some("ERR".into()), Some("ERR".into())),
        6 => {
            // integral float spellings convert to the integer, fractional ones fail
            let i = rng.range(-500, 500);
            if rng.bool() {
                (format!("{i}.0"), Some(i.to_string()), Some(format!("{:?}", i as f64)))
            } else {
                (format!("{i}.5"), Some("ERR".into()), Some(format!("{:?}", if i < 0 { i as f64 - 0.5 } else { i as f64 + 0.5 })))
            }
        }
        4 => ("170141183460469231731687303715884105727".into(), Some("170141183460469231731687303715884105727".into()), Some(format!("{:?}", i128::MAX as f64))),
        _ => ("-170141183460469231731687303715884105728".into(), Some("-170141183460469231731687303715884105728".into()), Some(format!("{:?}", i128::MIN as f64))),
    };
    let mut c3 = Context::new();
    c3.insert_value("v", Value::from(sv.as_str()));
    for (tpl, exp) in [("int", &exp_int), ("float", &exp_float)] {
        if let Some(exp) = exp {
            let r = rend!(tpl, &c3);
            let got = r.clone().unwrap_or_else(|_| "ERR".into());
            if &got != exp {
                fail!(format!("{tpl}-of-string"), json!({"v": sv}), "{sv:?} | {tpl} -> {r:?}, expected {exp}");
            }
        }
    }
    // ---- default: replaces only undefined (or falsy when asked)
    let dv = if rng.chance(1, 5) { V::Undef } else { gen_value(rng, &GenOpts { undef: false, ..ALL_KINDS }, 1) };
    let c4 = ctx_with(&[("v", &dv), ("m", &V::Map(vec![(K::Str("a".into()), V::I64(1))]))]);
    let drp = json!({"v": dv.tagged()});
    cx.cell(format!("laws|default|{}", dv.kind()));
    match rend!("default", &c4) {
        Ok(o) => {
            let exp = if matches!(dv, V::Undef) { "D".to_string() } else { model::print(&dv) };
            if o != exp {
                fail!("default", drp.clone(), "{dv:?} | default(value=\"D\") -> {o:?}, expected {exp:?}");
            }
        }
        Err(e) => fail!("default-error", drp.clone(), "{dv:?} | default failed: {e}"),
    }
    match rend!("defaultb", &c4) {
        Ok(o) => {
            let exp = if !model::truthy(&dv) { "D".to_string() } else { model::print(&dv) };
            if o != exp {
                fail!("default-boolean", drp.clone(), "{dv:?} | default(value=\"D\", boolean=true) -> {o:?}, expected {exp:?}");
            }
        }
        Err(e) => fail!("default-error", drp.clone(), "{dv:?} | default(boolean=true) failed: {e}"),
    }
    match rend!("defaultf", &c4) {
        Ok(o) if o == "D|D" => {}
        other => fail!("default-missing-field", drp.clone(), "m.nope | default -> {other:?}"),
    }
    // ---- type tests partition the kinds
    match rend!("types", &c4) {
        Ok(o) => {
            let b: Vec<bool> = o.split('|').map(|x| x == "true").collect();
            let (string, number, integer, float, map, array, boolean, none, iterable, defined, undefined) = (b[0], b[1], b[2], b[3], b[4], b[5], b[6], b[7], b[8], b[9], b[10]);
            let cls = model::class(&dv);
            let exp_cls = [("str", string), ("num", number), ("map", map), ("arr", array), ("bool", boolean), ("none", none)];
            let mut bad = (integer ^ float) != number || defined == undefined || (cls == "undef") != undefined;
            for (c, got) in exp_cls {
                if (cls == c) != got {
                    bad = true;
                }
            }
            if number && (matches!(dv, V::F64(_)) != float) {
                bad = true;
            }
            if matches!(cls, "arr" | "map" | "str") != iterable && cls != "bytes" {
                bad = true;
            }
            if bad {
                fail!("type-tests-partition", drp.clone(), "{dv:?}: string|number|integer|float|map|array|bool|none|iterable|defined|undefined = {o}");
            }
        }
        Err(e) => fail!("type-tests-error", drp.clone(), "type tests failed on {dv:?}: {e}"),
    }
    // ---- range: exactly the progression asked for, or an error
    let (s, e, st): (i128, i128, i128) = match if rng.chance(1, 400) { 6 } else { rng.below(6) } {
        // exactly at the size cap: the largest range that must still be produced
        6 => *rng.pick(&[(0i128, 100_000i128, 1i128), (0, 99_999, 1), (5, 200_005, 2), (0, -100_000, -1), (100_000, 0, -1)]),
        0 => (rng.range(-20, 20) as i128, rng.range(-20, 40) as i128, rng.range(-5, 5) as i128),
        1 => (0, rng.range(0, 300) as i128, 1),
        2 => (i128::MAX - rng.below(10) as i128, i128::MAX, rng.range(1, 3) as i128),
        3 => (i128::MIN + rng.below(5) as i128, i128::MIN + 10, rng.range(1, 4) as i128),
        4 => (0, *rng.pick(&[100_001i128, 1_000_000, i128::MAX, 1 << 62]), 1),
        _ => (rng.range(-10, 10) as i128, rng.range(-300, 10) as i128, -(rng.range(1, 7) as i128)),
    };
    // integer arguments may arrive as floats that hold an integer exactly (2^63 as a float, 3.0): the value must not change
    let as_arg = |rng: &mut Rng, x: i128| -> Value {
        if rng.chance(1, 5) && ((x as f64) as i128) == x && (x as f64).abs() < 1.7e38 {
            Value::from(x as f64)
        } else {
            Value::from(x)
        }
    };
    let (s, e, st) = if rng.chance(1, 30) {
        // around 2^63, where a float is exact and a 64-bit shortcut would saturate
        let b = 1i128 << 63;
        *rng.pick(&[(b - 3, b, 1i128), (b, b + 3, 1), (-b - 2, -b + 1, 1), (b, b - 4, -2), ((1i128 << 64) - 2, 1i128 << 64, 1)])
    } else {
        (s, e, st)
    };
    let mut c5 = Context::new();
    c5.insert_value("s", as_arg(rng, s));
    c5.insert_value("e", as_arg(rng, e));
    c5.insert_value("t", as_arg(rng, st));
    let rrp = json!({"start": s.to_string(), "end": e.to_string(), "step_by": st.to_string()});
    let r = rend!("range", &c5);
    // exact expected length in wide arithmetic
    let exp_len: Option<u128> = if st == 0 {
        None
    } else if st > 0 {
        Some(if e > s { (e.abs_diff(s) + (st as u128 - 1)) / st as u128 } else { 0 })
    } else {
        Some(if s > e { (s.abs_diff(e) + (st.unsigned_abs() - 1)) / st.unsigned_abs() } else { 0 })
    };
    cx.cell(format!("laws|range|{}|{}", st.signum(), match exp_len { None => "zero-step", Some(0) => "empty", Some(n) if n <= 1000 => "small", Some(n) if n <= 100_000 => "mid", _ => "over-cap" }));
    match (r, exp_len) {
        (Ok(o), None) => fail!("range-zero-step", rrp.clone(), "range(step_by=0) rendered {}", clip(&o, 80)),
        (Err(_), None) => {}
        (Ok(o), Some(n)) => {
            if n > 1_000_000 {
                fail!("range-cap", rrp.clone(), "range producing {n} elements was not refused");
            } else if n <= 1000 {
                let items: Vec<String> = (0..n).map(|i| (s + (i as i128) * st).to_string()).collect();
                let exp = format!("[{}]", items.join(", "));
                if o != exp {
                    fail!("range-progression", rrp.clone(), "range(start={s}, end={e}, step_by={st}) rendered {}, expected {}", clip(&o, 120), clip(&exp, 120));
                }
            } else if n <= 100_000 {
                // long ranges: length, first and last element
                let got_n = o.matches(", ").count() as u128 + 1;
                let last = (s + ((n - 1) as i128) * st).to_string();
                if got_n != n || !o.starts_with(&format!("[{s},")) || !o.ends_with(&format!(" {last}]")) {
                    fail!("range-progression", rrp.clone(), "range(start={s}, end={e}, step_by={st}) has {got_n} elements ({} … {}), expected {n} from {s} to {last}", clip(&o, 30), &o[o.len().saturating_sub(30)..]);
                }
                cx.count("ranges_at_the_size_cap", 1);
                RANGE_MAX_PRODUCED.fetch_max(n as u64, Ordering::Relaxed);
            }
        }
        (Err(msg), Some(n)) => {
            // an error is documented for the size cap, whose value no property fixes (100 000 today): ranges of up to
            // 1000 elements must be produced, and above that the cap only has to be *a* cap — whatever is refused for
            // its size must be larger than everything that was produced (checked at the end of the run). Long-standing
            // behaviour also refuses start > end with a positive step.
            let wrong_way = st > 0 && s > e;
            if n <= 1000 && !wrong_way {
                fail!("range-refused", rrp.clone(), "range(start={s}, end={e}, step_by={st}) ({n} elements) failed: {msg}");
            } else if !wrong_way && n <= u64::MAX as u128 {
                RANGE_MIN_REFUSED.fetch_min(n as u64, Ordering::Relaxed);
            }
        }
    }
    let v2 = v.clone();
    cx.sample(|| json!({"string": v2, "pat": a, "number": num.tagged(), "range": rrp}));
}

pub fn run(cx: &mut Cx) {
    let tera = Tera::default();
    let laws = laws_engine();
    let mut pool = kind_pool();
    pool.insert(0, V::Undef);
    let nspecs = SPECS.len() as u64;
    cx.counters.insert("const:builtins".into(), nspecs);
    cx.counters.insert("const:receiver_pool".into(), pool.len() as u64);
    let total = nspecs + cx.total(4000, 600_000);
    for case in cx.my_cases(total) {
        if case < nspecs {
            let s = &SPECS[case as usize];
            cx.begin_case(case, s.name);
            matrix_case(cx, &tera, s, &pool);
        } else {
            cx.begin_case(case, "laws");
            let mut rng = cx.rng(case);
            for _ in 0..10 {
                law_case(cx, &laws, &mut rng);
            }
        }
    }
    // the size cap of range is a cap: nothing refused for its size is smaller than something that was produced
    let (maxp, minr) = (RANGE_MAX_PRODUCED.load(Ordering::Relaxed), RANGE_MIN_REFUSED.load(Ordering::Relaxed));
    if minr <= maxp {
        cx.violation("C17/law/range-cap-not-monotone", format!("a range of {minr} elements was refused although one of {maxp} elements was produced"), json!({"min_refused": minr, "max_produced": maxp}));
    }
    if maxp > 0 {
        cx.max("max:range_elements_produced", maxp);
    }
}
