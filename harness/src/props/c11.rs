//! C11 — cyclic or dangling template graphs are rejected; accepted graphs render finitely.
//! An independent graph oracle (exact-then-prefix name resolution, plain DFS) gives accept/reject and the set of
//! admissible error kinds; every accepted set is rendered in this supervised child process.
use crate::core::*;
use serde_json::json;
use std::collections::BTreeSet;
use tera::{Context, ErrorKind, Tera};

fn dfs(u: usize, g: &[Vec<Option<usize>>], st: &mut [u8]) -> bool {
    st[u] = 1;
    for v in g[u].iter().flatten() {
        if st[*v] == 1 {
            return true;
        }
        if st[*v] == 0 && dfs(*v, g, st) {
            return true;
        }
    }
    st[u] = 2;
    false
}

struct Graph {
    names: Vec<String>,
    use_prefix: bool,
    /// a second, lower-priority prefix `q/` is configured too
    two_prefixes: bool,
    ext: Vec<Option<String>>,
    /// (target, placement)
    inc: Vec<Vec<(String, u8)>>,
    supers: Vec<bool>,
    shape: String,
}

const PLACES: [&str; 8] = ["top-level", "dead-branch", "capture", "component-body", "loop", "block", "filter-section", "else-branch"];

fn sources(g: &Graph) -> Vec<(String, String)> {
    let mut srcs = vec![];
    for i in 0..g.names.len() {
        let mut s = String::new();
        if let Some(p) = &g.ext[i] {
            s.push_str(&format!("{{% extends \"{p}\" %}}"));
        }
        let mut comp = String::new();
        let mut top = String::new();
        s.push_str("{% block main %}");
        if g.supers[i] && g.ext[i].is_some() {
            s.push_str("{{ super() }}");
        }
        s.push_str(&format!("<{i}>"));
        for (t, place) in &g.inc[i] {
            let tag = format!("{{% include \"{t}\" %}}");
            match place {
                0 => top.push_str(&tag),
                1 => s.push_str(&format!("{{% if false %}}{tag}{{% endif %}}")),
                2 => s.push_str(&format!("{{% set zz %}}{tag}{{% endset %}}{{{{ zz }}}}")),
                3 => comp.push_str(&tag),
                4 => s.push_str(&format!("{{% for q in [1, 2] %}}{tag}{{% endfor %}}")),
                5 => s.push_str(&tag),
                6 => s.push_str(&format!("{{% filter upper %}}{tag}{{% endfilter %}}")),
                _ => s.push_str(&format!("{{% if true %}}a{{% else %}}{tag}{{% endif %}}")),
            }
        }
        s.push_str("{% endblock %}");
        // top-level includes are only rendered in templates that do not extend
        if g.ext[i].is_none() {
            s.push_str(&top);
        } else {
            // keep the edge in the graph: inside the block instead
            s = s.replacen("{% endblock %}", &format!("{top}{{% endblock %}}"), 1);
        }
        if !comp.is_empty() {
            s.push_str(&format!("{{% component c{i}() %}}{comp}{{% endcomponent %}}"));
            if g.ext[i].is_none() {
                s.push_str(&format!("{{{{ <c{i} /> }}}}"));
            }
        }
        srcs.push((g.names[i].clone(), s));
    }
    srcs
}

fn random_graph(rng: &mut Rng) -> Graph {
    let family = rng.below(10);
    let k = match family {
        0 => 1,
        // one cycle in four is long: around the sizes where a bounded walk or a pre-sized stack would stop looking
        1 if rng.chance(1, 4) => *rng.pick(&[31usize, 32, 33, 48, 63, 64, 65, 66, 70, 100, 127, 128, 129, 130, 200, 255, 256, 257, 300]),
        1 | 2 => 2 + rng.below(9),
        _ => 1 + rng.below(6),
    };
    let use_prefix = rng.chance(1, 3);
    let two_prefixes = use_prefix && rng.bool();
    let mut names: Vec<String> = (0..k).map(|i| if use_prefix && rng.chance(1, 3) { format!("{}n{i}", if two_prefixes && rng.bool() { "q/" } else { "p/" }) } else { format!("n{i}") }).collect();
    // with two prefixes, some templates are twins: the same short name under both prefixes (the first prefix wins)
    if two_prefixes && k >= 2 {
        for _ in 0..rng.below(3) {
            let (i, j) = (rng.below(k), rng.below(k));
            if i != j {
                let short = names[i].trim_start_matches("p/").trim_start_matches("q/").to_string();
                names[i] = format!("p/{short}");
                names[j] = format!("q/{short}");
            }
        }
        // twins of twins may collide: keep names unique
        let mut seen = std::collections::BTreeSet::new();
        for (i, n) in names.iter_mut().enumerate() {
            if !seen.insert(n.clone()) {
                *n = format!("n{i}x");
                seen.insert(n.clone());
            }
        }
    }
    let mut shape = String::from("random");
    let refname = |rng: &mut Rng, j: usize| -> String {
        if j >= names.len() {
            return "missing".to_string();
        }
        let nm = &names[j];
        if use_prefix && (nm.starts_with("p/") || nm.starts_with("q/")) && rng.bool() {
            nm[2..].to_string()
        } else {
            nm.clone()
        }
    };
    let mut ext: Vec<Option<String>> = vec![None; k];
    let mut inc: Vec<Vec<(String, u8)>> = vec![vec![]; k];
    match family {
        1 => {
            // one long cycle (extends or include), possibly entered from a tail
            let tail = rng.below(k.min(3));
            let is_ext = rng.bool();
            shape = format!("{}-cycle-len{}-tail{}", if is_ext { "extends" } else { "include" }, k - tail, tail);
            for i in 0..k {
                let next = if i + 1 < k { i + 1 } else { tail };
                if is_ext {
                    ext[i] = Some(refname(rng, next));
                } else {
                    let tgt = refname(rng, next);
                    inc[i].push((tgt, rng.below(8) as u8));
                }
            }
        }
        2 => {
            // acyclic chain
            let is_ext = rng.bool();
            shape = format!("{}-chain-len{}", if is_ext { "extends" } else { "include" }, k);
            for i in 0..k - 1 {
                if is_ext {
                    ext[i] = Some(refname(rng, i + 1));
                } else {
                    let tgt = refname(rng, i + 1);
                    inc[i].push((tgt, rng.below(8) as u8));
                }
            }
        }
        3 => {
            // the mixed family: include edges inside blocks of templates that are also in an extends relation
            shape = "mixed-extends-include".into();
            for i in 0..k {
                if i > 0 && rng.chance(2, 3) {
                    let j = rng.below(i);
                    ext[i] = Some(refname(rng, j));
                }
                if rng.bool() {
                    let j = rng.below(k);
                    inc[i].push((refname(rng, j), 5));
                }
            }
        }
        _ => {
            for i in 0..k {
                if rng.chance(1, 3) {
                    let j = rng.below(k + 1);
                    ext[i] = Some(refname(rng, j));
                }
                for _ in 0..rng.below(3) {
                    let j = rng.below(k + 1);
                    let tgt = refname(rng, j);
                    inc[i].push((tgt, rng.below(8) as u8));
                }
            }
        }
    }
    let supers = (0..k).map(|_| rng.bool()).collect();
    Graph { names, use_prefix, two_prefixes, ext, inc, supers, shape }
}

pub fn run(cx: &mut Cx) {
    let depths: Vec<usize> = vec![1, 2, 4, 8, 16, 24, 32];
    let n_chain = (depths.len() * 2) as u64;
    let total = n_chain + cx.total(80_000, 3_000_000);
    let dump = cx.dump;
    for case in cx.my_cases(total) {
        let mut rng = cx.rng(case);
        let g = if case < n_chain {
            // acyclic include and extends chains of depth 1..32 (deterministic sweep)
            let d = depths[(case / 2) as usize];
            let is_ext = case % 2 == 0;
            let names: Vec<String> = (0..=d).map(|i| format!("n{i}")).collect();
            let mut ext = vec![None; d + 1];
            let mut inc = vec![vec![]; d + 1];
            for i in 0..d {
                if is_ext {
                    ext[i] = Some(format!("n{}", i + 1));
                } else {
                    inc[i].push((format!("n{}", i + 1), 0u8));
                }
            }
            Graph { names, use_prefix: false, two_prefixes: false, ext, inc, supers: vec![true; d + 1], shape: format!("{}-chain-depth{d}", if is_ext { "extends" } else { "include" }) }
        } else {
            random_graph(&mut rng)
        };
        let fam = g.shape.split("-len").next().unwrap_or("g").split("-depth").next().unwrap_or("g").to_string();
        cx.begin_case(case, &fam);
        let srcs = sources(&g);
        if dump {
            cx.samples.push(json!({"shape": g.shape, "templates": srcs}));
            continue;
        }
        let k = g.names.len();
        // ---- oracle: resolve the exact name first, then through the prefix; plain graph algorithms
        let resolve = |nm: &str| -> Option<usize> {
            if let Some(i) = g.names.iter().position(|x| x == nm) {
                return Some(i);
            }
            if g.use_prefix {
                let p = format!("p/{nm}");
                if let Some(i) = g.names.iter().position(|x| *x == p) {
                    return Some(i);
                }
            }
            if g.two_prefixes {
                let p = format!("q/{nm}");
                if let Some(i) = g.names.iter().position(|x| *x == p) {
                    return Some(i);
                }
            }
            None
        };
        let mut admissible: BTreeSet<&str> = BTreeSet::new();
        let extr: Vec<Option<Option<usize>>> = g.ext.iter().map(|e| e.as_ref().map(|p| resolve(p))).collect();
        if extr.iter().any(|e| matches!(e, Some(None))) {
            admissible.insert("MissingParent");
        }
        for s in 0..k {
            let mut cur = s;
            let mut seen = BTreeSet::new();
            while let Some(Some(p)) = extr[cur] {
                if p == s || !seen.insert(p) {
                    admissible.insert("CircularExtend");
                    break;
                }
                cur = p;
            }
        }
        let incr: Vec<Vec<Option<usize>>> = g.inc.iter().map(|v| v.iter().map(|(t, _)| resolve(t)).collect()).collect();
        if incr.iter().flatten().any(|x| x.is_none()) {
            admissible.insert("UnknownTemplate");
        }
        let mut stt = vec![0u8; k];
        for u in 0..k {
            if stt[u] == 0 && dfs(u, &incr, &mut stt) {
                admissible.insert("CircularInclude");
                break;
            }
        }
        // ---- engine
        // registration: one batch (either order), or in two steps: first the set with every edge of one template cut,
        // then that template registered again with its real source, so that the final set is reached through an
        // accepted intermediate one (the verdict must be about the resulting set, not about how it was reached)
        let cut = if case % 4 >= 2 && k > 1 { Some(rng.below(k)) } else { None };
        let cut_srcs = cut.map(|i| {
            let mut ext = g.ext.clone();
            let mut inc = g.inc.clone();
            ext[i] = None;
            inc[i] = vec![];
            sources(&Graph { names: g.names.clone(), use_prefix: g.use_prefix, two_prefixes: g.two_prefixes, ext, inc, supers: g.supers.clone(), shape: String::new() })
        });
        // or with one template held back and added alone afterwards (preferably one under the first prefix: what a short
        // name resolves to then changes although the templates using that name are not registered again)
        let held = if case % 4 == 1 && k > 1 {
            let firsts: Vec<usize> = (0..k).filter(|i| g.names[*i].starts_with("p/")).collect();
            Some(if !firsts.is_empty() && rng.chance(3, 4) { *rng.pick(&firsts) } else { rng.below(k) })
        } else {
            None
        };
        let replay = json!({"shape": g.shape, "templates": srcs, "fallback_prefixes": if g.two_prefixes { 2 } else if g.use_prefix { 1 } else { 0 },
            "registration": match (cut, held) { (Some(i), _) => format!("first every template with the edges of {} cut, then {} again with its real source", g.names[i], g.names[i]), (_, Some(h)) => format!("first every template but {}, then {} alone (one batch if the first step is refused)", g.names[h], g.names[h]), _ => "one batch".to_string() }});
        cx.eval();
        let built = guard(|| {
            let fresh = || {
                let mut t = Tera::default();
                if g.use_prefix {
                    t.set_fallback_prefixes(if g.two_prefixes { vec!["p/", "q/"] } else { vec!["p/"] }).unwrap();
                }
                t
            };
            if let (Some(i), Some(cs)) = (cut, &cut_srcs) {
                let mut t = fresh();
                if t.add_raw_templates(cs.clone()).is_ok() {
                    let r = t.add_raw_template(&srcs[i].0, &srcs[i].1);
                    return (t, r, true);
                }
            }
            if let Some(h) = held {
                let mut t = fresh();
                let rest: Vec<(String, String)> = srcs.iter().enumerate().filter(|(i, _)| *i != h).map(|(_, s)| s.clone()).collect();
                if t.add_raw_templates(rest).is_ok() {
                    let r = t.add_raw_template(&srcs[h].0, &srcs[h].1);
                    return (t, r, true);
                }
            }
            let mut t = fresh();
            let mut s2 = srcs.clone();
            if case % 2 == 1 {
                s2.reverse();
            }
            let r = t.add_raw_templates(s2);
            (t, r, false)
        });
        let built = built.map(|(t, r, stepwise)| {
            if stepwise {
                cx.count("graphs_completed_in_a_second_step", 1);
            }
            (t, r)
        });
        let (t, res) = match built {
            Ok(x) => x,
            Err(p) => {
                cx.violation(&format!("C11/panic/{}", panic_site(&p)), format!("registration of a {} graph panicked: {p}", g.shape), replay);
                continue;
            }
        };
        let got: Option<String> = match &res {
            Ok(()) => None,
            Err(e) => Some(match e.kind() {
                ErrorKind::MissingParent { .. } => "MissingParent".into(),
                ErrorKind::CircularExtend { .. } => "CircularExtend".into(),
                ErrorKind::CircularInclude { .. } => "CircularInclude".into(),
                // an include of a template that does not exist has no error kind of its own: a plain message, whatever its
                // wording, stands for it (and is only admissible when the oracle sees such an include)
                ErrorKind::Msg(_) => "UnknownTemplate".into(),
                other => format!("OTHER {}", clip(&format!("{other:?}"), 120)),
            }),
        };
        let placements: BTreeSet<&str> = g.inc.iter().flatten().map(|(_, p)| PLACES[*p as usize]).collect();
        cx.cell(format!("{}|{}|{}|prefix{}", g.shape, got.clone().unwrap_or("accepted".into()), placements.into_iter().collect::<Vec<_>>().join("+"), g.use_prefix));
        let ok = match &got {
            None => admissible.is_empty(),
            Some(gk) => admissible.contains(gk.as_str()),
        };
        if !ok {
            let sig = match &got {
                None => format!("C11/cyclic-or-dangling-graph-accepted/{}", admissible.iter().cloned().collect::<Vec<_>>().join("+")),
                Some(gk) if admissible.is_empty() => format!("C11/sound-graph-rejected/{}", gk.split(' ').next().unwrap_or("?")),
                Some(gk) => format!("C11/error-kind-does-not-correspond/{}", gk.split(' ').next().unwrap_or("?")),
            };
            cx.violation(&sig, format!("{} graph: the oracle admits {admissible:?}, the engine answered {got:?}", g.shape), replay.clone());
        }
        if res.is_ok() {
            cx.count("graphs_accepted", 1);
            // every accepted set must render finitely: text or an error (this process is supervised: an overflow or a
            // CPU-budget overrun is attributed to this case by the driver)
            for nm in &g.names {
                let r = guard(|| t.render(nm, &Context::new()).map_err(|e| e.to_string()));
                cx.eval();
                cx.count("renders_supervised", 1);
                match r {
                    Ok(Ok(_)) => cx.count("renders_ok", 1),
                    Ok(Err(e)) => {
                        cx.count("renders_err", 1);
                        cx.cell(format!("render-error|{}", clip(e.lines().next().unwrap_or(""), 60)));
                        // without any extends edge nothing can recurse once the include relation is acyclic under the
                        // documented resolution (exact name, then the prefixes in order): every template must render
                        if g.ext.iter().all(|e| e.is_none()) {
                            cx.violation("C11/accepted-include-graph-does-not-render", format!("{}: rendering {nm} failed although the include relation is acyclic under the documented name resolution: {}", g.shape, clip(&e, 200)), replay.clone());
                        }
                        // an acyclic chain within the realistic depth must render
                        if g.shape.contains("-chain") && k <= 33 {
                            cx.violation("C11/acyclic-chain-does-not-render", format!("{}: rendering {nm} failed: {}", g.shape, clip(&e, 200)), replay.clone());
                        }
                    }
                    Err(p) => cx.violation(&format!("C11/panic/{}", panic_site(&p)), format!("rendering {nm} of an accepted {} graph panicked: {p}", g.shape), replay.clone()),
                }
            }
            cx.max("max:templates_in_accepted_graph", k as u64);
        } else {
            cx.count("graphs_rejected", 1);
        }
        let s2 = srcs.clone();
        let sh = g.shape.clone();
        cx.sample(|| json!({"shape": sh, "templates": s2, "verdict": got}));
    }
}
