//! C04 — inheritance: blocks resolve to the most-derived override and super() walks up.
//! Model resolver vs engine on generated chains. Block bodies are unique sentinel tokens so that the output *is*
//! the resolution trace; `render_block(t, b)` is compared with the text the model attributes to `b`.
use crate::core::*;
use serde_json::json;
use std::collections::{BTreeMap, BTreeSet};
use tera::{Context, Tera};

#[derive(Clone, Debug)]
enum N {
    T(String),
    Super,
    Block(usize, Vec<N>),
    Filt(Vec<N>),
    SetCap(Vec<N>),
}
const BN: [&str; 6] = ["ba", "bb", "bc", "bd", "be", "bf"];

fn gen_nodes(r: &mut Rng, d: u32, lvl: usize, used: &mut BTreeSet<usize>, cur_block: Option<usize>, counter: &mut usize) -> Vec<N> {
    let n = 1 + r.below(3);
    let mut v = vec![];
    for _ in 0..n {
        match r.below(7) {
            0 | 1 => {
                *counter += 1;
                v.push(N::T(format!("<{lvl}:{counter}>")));
            }
            2 if cur_block.is_some() => v.push(N::Super),
            3 | 4 if d > 0 => {
                let cands: Vec<usize> = (0..BN.len()).filter(|b| !used.contains(b)).collect();
                if !cands.is_empty() {
                    let b = cands[r.below(cands.len())];
                    used.insert(b);
                    let body = gen_nodes(r, d - 1, lvl, used, Some(b), counter);
                    v.push(N::Block(b, body));
                }
            }
            5 if d > 0 => v.push(N::Filt(gen_nodes(r, d - 1, lvl, used, cur_block, counter))),
            6 if d > 0 => v.push(N::SetCap(gen_nodes(r, d - 1, lvl, used, cur_block, counter))),
            _ => {
                *counter += 1;
                v.push(N::T(format!("<{lvl}.{counter}>")));
            }
        }
    }
    v
}

fn pr(ns: &[N], out: &mut String, capn: &mut usize) {
    for n in ns {
        match n {
            N::T(t) => out.push_str(t),
            N::Super => out.push_str("{{ super() }}"),
            N::Block(b, body) => {
                out.push_str(&format!("{{% block {} %}}", BN[*b]));
                pr(body, out, capn);
                out.push_str("{% endblock %}");
            }
            N::Filt(body) => {
                out.push_str("{% filter upper %}");
                pr(body, out, capn);
                out.push_str("{% endfilter %}");
            }
            N::SetCap(body) => {
                *capn += 1;
                let v = format!("cap{capn}");
                out.push_str(&format!("{{% set {v} %}}"));
                pr(body, out, capn);
                out.push_str(&format!("{{% endset %}}[{{{{ {v} }}}}]"));
            }
        }
    }
}

fn collect<'a>(ns: &'a [N], m: &mut BTreeMap<usize, &'a Vec<N>>) {
    for n in ns {
        match n {
            N::Block(b, body) => {
                m.insert(*b, body);
                collect(body, m);
            }
            N::Filt(b) | N::SetCap(b) => collect(b, m),
            _ => {}
        }
    }
}

/// top-level blocks of a child (not nested in another block) must exist in some ancestor; others are dropped here
fn keep_known(ns: Vec<N>, known: &BTreeSet<usize>, dropped: &mut usize) -> Vec<N> {
    ns.into_iter()
        .filter_map(|n| match n {
            N::Block(b, body) => {
                if !known.contains(&b) {
                    *dropped += 1;
                    None
                } else {
                    Some(N::Block(b, body))
                }
            }
            N::Filt(b) => Some(N::Filt(keep_known(b, known, dropped))),
            N::SetCap(b) => Some(N::SetCap(keep_known(b, known, dropped))),
            x => Some(x),
        })
        .collect()
}

fn max_nesting(ns: &[N], inside: usize) -> usize {
    ns.iter()
        .map(|n| match n {
            N::Block(_, b) => max_nesting(b, inside + 1),
            N::Filt(b) | N::SetCap(b) => max_nesting(b, inside),
            _ => inside,
        })
        .max()
        .unwrap_or(inside)
}

fn has_block_in_capture(ns: &[N], in_cap: bool) -> bool {
    ns.iter().any(|n| match n {
        N::Block(_, b) => in_cap || has_block_in_capture(b, in_cap),
        N::Filt(b) | N::SetCap(b) => has_block_in_capture(b, true),
        _ => false,
    })
}

struct Model<'a> {
    defs: Vec<BTreeMap<usize, &'a Vec<N>>>,
    depth: usize,
    block_text: BTreeMap<usize, String>,
}
impl<'a> Model<'a> {
    /// root body; each block -> most-derived definition; super() -> nearest ancestor (below the current level) defining it
    fn render(&mut self, ns: &[N], cur: Option<(usize, usize)>, out: &mut String) -> Result<(), String> {
        self.depth += 1;
        if self.depth > 120 {
            return Err("unbounded".into());
        }
        for n in ns {
            match n {
                N::T(t) => out.push_str(t),
                N::Super => {
                    let (b, lvl) = cur.unwrap();
                    match (0..lvl).rev().find(|j| self.defs[*j].contains_key(&b)) {
                        None => return Err("super-without-ancestor-definition".into()),
                        Some(j) => {
                            let body = self.defs[j][&b];
                            let mut s = String::new();
                            self.render(body, Some((b, j)), &mut s)?;
                            out.push_str(&s);
                        }
                    }
                }
                N::Block(b, _) => {
                    let lvl = (0..self.defs.len()).rev().find(|j| self.defs[*j].contains_key(b)).unwrap();
                    let body = self.defs[lvl][b];
                    let mut s = String::new();
                    self.render(body, Some((*b, lvl)), &mut s)?;
                    self.block_text.insert(*b, s.clone());
                    out.push_str(&s);
                }
                N::Filt(body) => {
                    let mut s = String::new();
                    self.render(body, cur, &mut s)?;
                    out.push_str(&s.to_uppercase());
                }
                N::SetCap(body) => {
                    let mut s = String::new();
                    self.render(body, cur, &mut s)?;
                    out.push('[');
                    out.push_str(&s);
                    out.push(']');
                }
            }
        }
        self.depth -= 1;
        Ok(())
    }
}

/// render_block against the full render on general programs (variables, loops, captures, includes, components inside
/// blocks; children overriding with super()): every block body carries start/end marks, the text between the first start
/// mark and the last end mark of a block in the full render is what `render_block` must return.
fn marked_program_case(cx: &mut Cx, case: u64) {
    cx.begin_case(case, "marked-program");
    let mut rng = cx.rng(case);
    let program = {
        let mut g = crate::progs::PGen::new(&mut rng);
        g.block_markers = true;
        g.program()
    };
    let tera = match guard(|| crate::props::c18::build_engine(&program)) {
        Ok(Ok(t)) => t,
        _ => {
            cx.count("marked_programs_rejected", 1);
            return;
        }
    };
    let mut ctx = crate::props::c18::context_of(&crate::progs::base_context());
    ctx.insert("a", "A<arg>");
    ctx.insert("n", &3);
    for e in &program.entries {
        cx.eval();
        let Ok(Ok(full)) = guard(|| tera.render(e, &ctx)) else { continue };
        for (tn, bn) in program.blocks.iter().filter(|(tn, _)| tn == e) {
            let (st, en) = (format!("\u{1}{bn}\u{2}"), format!("\u{3}{bn}\u{4}"));
            let (Some(a), Some(b)) = (full.find(&st), full.rfind(&en)) else { continue };
            if b < a {
                continue;
            }
            let want = &full[a..b + en.len()];
            cx.eval();
            cx.count("marked_blocks_compared", 1);
            match guard(|| tera.render_block(tn, bn, &ctx).map_err(|x| x.to_string())) {
                Ok(Ok(g)) if g == want => {}
                Ok(g) => cx.violation("C04/render_block-differs-from-full-render/general-program", format!("render_block({tn}, {bn}) gave {:?}, in the full render the block writes {:?}", g.map(|x| clip(&x, 300)), clip(want, 300)), json!({"templates": program.templates, "template": tn, "block": bn})),
                Err(p) => cx.violation(&format!("C04/panic/{}", panic_site(&p)), format!("render_block panicked: {p}"), json!({"templates": program.templates})),
            }
        }
    }
}

pub fn run(cx: &mut Cx) {
    let total = cx.total(200_000, 3_000_000);
    let dump = cx.dump;
    for case in cx.my_cases(total) {
        if case % 32 == 31 && !dump {
            marked_program_case(cx, case);
            continue;
        }
        let mut r = cx.rng(case);
        cx.begin_case(case, "chain");
        let long = r.chance(1, 4);
        let len = 1 + r.below(if long { 8 } else { 4 });
        let mut chain: Vec<Vec<N>> = vec![];
        let mut counter = 0;
        // a tree: every template but the root extends an earlier one (mostly the previous one: chains; sometimes any
        // earlier one: several leaves per ancestor)
        let parents: Vec<usize> = (0..len).map(|i| if i == 0 { 0 } else if r.chance(2, 3) { i - 1 } else { r.below(i) }).collect();
        let mut known_of: Vec<BTreeSet<usize>> = Vec::new();
        let keep_orphan = r.chance(1, 12);
        let mut orphans = 0;
        for lvl in 0..len {
            let mut used = BTreeSet::new();
            let mut nodes = gen_nodes(&mut r, 3, lvl, &mut used, None, &mut counter);
            let mut known: BTreeSet<usize> = if lvl > 0 { known_of[parents[lvl]].clone() } else { BTreeSet::new() };
            if lvl > 0 {
                let mut dropped = 0;
                if keep_orphan {
                    // count orphan top-level blocks instead of dropping them: the set must then be rejected
                    let _ = keep_known(nodes.clone(), &known, &mut dropped);
                    orphans += dropped;
                } else {
                    nodes = keep_known(nodes, &known, &mut dropped);
                }
            }
            let mut m = BTreeMap::new();
            collect(&nodes, &mut m);
            for k in m.keys() {
                known.insert(*k);
            }
            known_of.push(known);
            chain.push(nodes);
        }
        let mut srcs = vec![];
        let mut capn = 0;
        for (i, ns) in chain.iter().enumerate() {
            let mut s = String::new();
            if i > 0 {
                s.push_str(&format!("{{% extends \"t{}\" %}}", parents[i]));
            }
            pr(ns, &mut s, &mut capn);
            srcs.push((format!("t{i}"), s));
        }
        if dump {
            cx.samples.push(json!({"templates": srcs}));
            continue;
        }
        // registration in every order the API accepts: one shuffled batch / batches in topological order / re-adding a
        // middle template afterwards
        // / a middle template first hung under a decoy root and then re-registered under its real parent / the real root
        // registered last, shadowing a decoy found through a fallback prefix
        let mode = r.below(6);
        let regmode = [
            "one shuffled batch",
            "one call per template, ancestors first",
            "shuffled batch, then a middle template re-added",
            "shuffled batch in which one template extends a decoy root, then that template re-registered under its real parent",
            "fallback prefix: decoy root under the prefix plus the descendants, then the real root registered last",
            "two fallback prefixes: decoy root under the second one plus the descendants, then the real root registered last under the first",
        ][mode];
        // the decoy defines every block name, so that whatever hangs below it is accepted
        let decoy: String = format!("DECOY{}", BN.iter().map(|b| format!("{{% block {b} %}}decoy-{b}{{% endblock %}}")).collect::<String>());
        let replay = json!({"templates": srcs, "registration": regmode});
        cx.eval();
        let built = guard(|| {
            let mut t = Tera::default();
            t.autoescape_on(Vec::<&'static str>::new());
            let res = match mode {
                0 | 2 => {
                    let mut order: Vec<usize> = (0..len).collect();
                    r.shuffle(&mut order);
                    let mut res = t.add_raw_templates(order.iter().map(|i| srcs[*i].clone()));
                    if res.is_ok() && mode == 2 && len > 1 {
                        let mid = r.below(len);
                        res = t.add_raw_template(&srcs[mid].0, &srcs[mid].1);
                    }
                    res
                }
                3 if len > 1 => {
                    let mid = 1 + r.below(len - 1);
                    let mut first = srcs.clone();
                    first[mid].1 = first[mid].1.replacen(&format!("{{% extends \"t{}\" %}}", parents[mid]), "{% extends \"decoy\" %}", 1);
                    first.push(("decoy".to_string(), decoy.clone()));
                    r.shuffle(&mut first);
                    let mut res = t.add_raw_templates(first);
                    if res.is_ok() {
                        res = t.add_raw_template(&srcs[mid].0, &srcs[mid].1);
                    }
                    res
                }
                4 if len > 1 => {
                    let mut res = t.set_fallback_prefixes(vec!["th/".to_string()]);
                    if res.is_ok() {
                        let mut first: Vec<(String, String)> = srcs[1..].to_vec();
                        first.push(("th/t0".to_string(), decoy.clone()));
                        r.shuffle(&mut first);
                        res = t.add_raw_templates(first);
                    }
                    if res.is_ok() {
                        res = t.add_raw_template(&srcs[0].0, &srcs[0].1);
                    }
                    res
                }
                5 if len > 1 => {
                    let mut res = t.set_fallback_prefixes(vec!["hi/".to_string(), "th/".to_string()]);
                    if res.is_ok() {
                        let mut first: Vec<(String, String)> = srcs[1..].to_vec();
                        first.push(("th/t0".to_string(), decoy.clone()));
                        r.shuffle(&mut first);
                        res = t.add_raw_templates(first);
                    }
                    if res.is_ok() {
                        res = t.add_raw_template("hi/t0", &srcs[0].1);
                    }
                    res
                }
                _ => {
                    let mut res = Ok(());
                    for s in &srcs {
                        res = t.add_raw_template(&s.0, &s.1);
                        if res.is_err() {
                            break;
                        }
                    }
                    res
                }
            };
            (t, res.map_err(|e| e.to_string()))
        });
        let (t, res) = match built {
            Ok(x) => x,
            Err(p) => {
                cx.violation(&format!("C04/panic/{}", panic_site(&p)), format!("registration panicked: {p}"), replay);
                continue;
            }
        };
        if orphans > 0 {
            cx.count("orphan_block_sets", 1);
            if res.is_ok() {
                cx.violation("C04/orphan-top-level-block-accepted", "a child defines a top-level block that no ancestor knows and the set was accepted".to_string(), replay);
            }
            continue;
        }
        if let Err(e) = res {
            cx.violation("C04/valid-chain-rejected", format!("a well-formed chain was rejected: {}", clip(&e, 300)), replay);
            continue;
        }
        cx.count("chains", 1);
        // an includer per template, added afterwards to a copy of the engine (the chains themselves are rendered on the engine
        // as the registration steps left it: a later call would rebuild whatever they derived): including a template
        // renders it, inheritance included
        let mut ti = t.clone();
        let incs: Vec<(String, String)> = (0..len).map(|i| (format!("inc{i}"), format!("<{{% include \"t{i}\" %}}>"))).collect();
        let includers_ok = matches!(guard(|| ti.add_raw_templates(incs.clone()).is_ok()), Ok(true));
        if mode >= 3 && len > 1 {
            cx.count("chains_reparented_after_registration", 1);
        }
        let defs: Vec<BTreeMap<usize, &Vec<N>>> = chain
            .iter()
            .map(|ns| {
                let mut m = BTreeMap::new();
                collect(ns, &mut m);
                m
            })
            .collect();
        let nest = chain.iter().map(|c| max_nesting(c, 0)).max().unwrap_or(0);
        let in_capture = chain.iter().any(|c| has_block_in_capture(c, false));
        for leaf in 0..len {
            // the ancestors of this leaf, root first
            let mut path = vec![leaf];
            while *path.last().unwrap() != 0 {
                let p = parents[*path.last().unwrap()];
                path.push(p);
            }
            path.reverse();
            let mut model = Model { defs: path.iter().map(|i| defs[*i].clone()).collect(), depth: 0, block_text: BTreeMap::new() };
            let mut exp = String::new();
            let mr = model.render(&chain[0], None, &mut exp);
            let name = if mode == 5 && len > 1 && leaf == 0 { "hi/t0".to_string() } else { format!("t{leaf}") };
            cx.eval();
            let got = match guard(|| t.render(&name, &Context::new()).map_err(|e| e.to_string())) {
                Ok(g) => g,
                Err(p) => {
                    cx.violation(&format!("C04/panic/{}", panic_site(&p)), format!("render of {name} panicked: {p}"), replay.clone());
                    continue;
                }
            };
            let nsuper = path.iter().map(|i| srcs[*i].1.matches("super()").count()).sum::<usize>();
            let branching = (0..len).any(|i| i > 0 && parents[i] != i - 1);
            cx.cell(format!("len{}{}|leaf{leaf}|nesting{nest}|supers{}|{}|{}", path.len(), if branching { "-tree" } else { "" }, nsuper.min(4), if in_capture { "blocks-in-captures" } else { "plain" }, match &mr { Ok(()) => "ok", Err(e) => e.as_str() }));
            cx.count("leaf_renders_compared", 1);
            match (&mr, &got) {
                (Ok(()), Ok(g)) if *g == exp => {}
                (Err(_), Err(_)) => cx.count("both_refuse", 1),
                (Ok(()), Ok(g)) => cx.violation("C04/wrong-block-resolution", format!("{name} rendered {:?}, most-derived/super() resolution gives {:?}", clip(g, 400), clip(&exp, 400)), replay.clone()),
                (Ok(()), Err(e)) => cx.violation("C04/valid-chain-fails-to-render", format!("{name}: {}; expected {:?}", clip(e, 200), clip(&exp, 200)), replay.clone()),
                (Err(why), Ok(g)) => cx.violation(&format!("C04/rendered-although-{why}"), format!("{name} rendered {:?} although the model says: {why}", clip(g, 300)), replay.clone()),
            }
            if includers_ok {
                cx.eval();
                let gi = guard(|| ti.render(&format!("inc{leaf}"), &Context::new()).map_err(|e| e.to_string()));
                cx.count("included_leaves_compared", 1);
                match (&mr, gi) {
                    (Ok(()), Ok(Ok(g))) if g == format!("<{exp}>") => {}
                    (Err(_), Ok(Err(_))) => {}
                    (Ok(()), Ok(g)) => cx.violation("C04/included-template-not-rendered-through-its-ancestors", format!("`{{% include \"{name}\" %}}` rendered {:?}, rendering {name} gives {:?}", g.map(|x| clip(&x, 300)), clip(&exp, 300)), replay.clone()),
                    (Err(why), Ok(Ok(g))) => cx.violation(&format!("C04/rendered-although-{why}"), format!("`{{% include \"{name}\" %}}` rendered {:?} although the model says: {why}", clip(&g, 300)), replay.clone()),
                    (_, Err(p)) => cx.violation(&format!("C04/panic/{}", panic_site(&p)), format!("include of {name} panicked: {p}"), replay.clone()),
                }
            }
            if mr.is_ok() {
                for (b, txt) in &model.block_text {
                    cx.eval();
                    cx.count("block_renders_compared", 1);
                    let g = guard(|| t.render_block(&name, BN[*b], &Context::new()).map_err(|e| e.to_string()));
                    match g {
                        Ok(Ok(g)) if g == *txt => {}
                        Ok(g) => {
                            let sig = if in_capture { "C04/render_block-differs-from-full-render/block-inside-capture" } else { "C04/render_block-differs-from-full-render" };
                            cx.violation(sig, format!("render_block({name}, {}) gave {:?}, during the full render the block writes {:?}", BN[*b], g.map(|x| clip(&x, 200)), clip(txt, 200)), replay.clone());
                        }
                        Err(p) => cx.violation(&format!("C04/panic/{}", panic_site(&p)), format!("render_block panicked: {p}"), replay.clone()),
                    }
                }
            }
        }
        let s2 = srcs.clone();
        cx.sample(|| json!({"templates": s2}));
    }
}
