//! C14 — indexing and slicing follow Python semantics and respect character boundaries.
//! Event log decided offline by oracles/o_slices.py (Python's own list/str semantics):
//!   I \t kind \t len \t form \t spelling \t repr:i \t out        (out hex-encoded; UNDEF via `| default`)
//!   S \t kind \t len \t form \t spelling \t a \t b \t c \t out   (N = absent, ERR = render error)
//!   T \t op \t hex(string) \t arg \t hex(out)                    (length / reverse / truncate / chars / first / last)
use crate::core::*;
use serde_json::json;
use tera::{Context, Tera, Value};

pub const CHARS: [&str; 12] = ["a", "é", "日", "😀", "z", "ß", "語", "🎉", "b", "ÿ", "水", "🚀"];

#[derive(Clone, Debug)]
enum P {
    Absent,
    I64(i64),
    I128(i128),
    U64(u64),
    U128(u128),
}
impl P {
    fn value(&self) -> Option<Value> {
        match self {
            P::Absent => None,
            P::I64(v) => Some(Value::from(*v)),
            P::I128(v) => Some(Value::from(*v)),
            P::U64(v) => Some(Value::from(*v)),
            P::U128(v) => Some(Value::from(*v)),
        }
    }
    fn log(&self) -> String {
        match self {
            P::Absent => "N".into(),
            P::I64(v) => format!("i64:{v}"),
            P::I128(v) => format!("i128:{v}"),
            P::U64(v) => format!("u64:{v}"),
            P::U128(v) => format!("u128:{v}"),
        }
    }
    fn literal(&self) -> Option<String> {
        match self {
            P::Absent => Some(String::new()),
            P::I64(v) if *v > i64::MIN => Some(format!("{v}")),
            _ => None,
        }
    }
    fn class(&self, len: usize) -> &'static str {
        let v: i128 = match self {
            P::Absent => return "absent",
            P::I64(v) => *v as i128,
            P::I128(v) => *v,
            P::U64(v) => *v as i128,
            P::U128(v) => {
                if *v > i128::MAX as u128 {
                    return "above-i128";
                } else {
                    *v as i128
                }
            }
        };
        let l = len as i128;
        if v == 0 {
            "zero"
        } else if v > 0 && v < l {
            "in+"
        } else if v == l {
            "len"
        } else if v > l && v <= l + 2 {
            "just-over"
        } else if v > l + 2 && v < 1000 {
            "over"
        } else if v >= 1000 {
            "far+"
        } else if v == i128::MIN {
            "far-"
        } else if v < 0 && -v <= l {
            "in-"
        } else if -v <= l + 2 {
            "just-under"
        } else if v > -1000 {
            "under"
        } else {
            "far-"
        }
    }
}

fn params_for(len: usize) -> Vec<P> {
    let mut v = vec![P::Absent, P::I64(0), P::U64(0)];
    for k in 1..=(len as i64 + 2) {
        v.push(P::I64(k));
        v.push(P::I64(-k));
    }
    v.push(P::U64(1));
    v.push(P::I128(-1));
    v.push(P::U128(2));
    // beyond 64 bits: values whose low 64 bits are 0, 1 or small (truncation to a machine word must not show)
    v.extend([P::I128(1 << 64), P::I128((1 << 64) + 1), P::I128(-((1i128 << 64) + 1)), P::U128((1u128 << 65) + 2), P::I128(-(1i128 << 64))]);
    v.extend([P::I64(100), P::I64(-100), P::I64(i64::MAX), P::I64(i64::MIN), P::I128(i128::MAX), P::I128(i128::MIN), P::U64(u64::MAX), P::U128(u128::MAX), P::U128(i128::MAX as u128)]);
    v
}

fn hex(s: &str) -> String {
    s.bytes().map(|b| format!("{b:02x}")).collect()
}

fn container(kind: &str, len: usize) -> Value {
    if kind == "arr" {
        Value::from((0..len).map(|i| Value::from(10 + i as i64)).collect::<Vec<_>>())
    } else {
        Value::from((0..len).map(|i| CHARS[i % CHARS.len()]).collect::<String>())
    }
}

const SLICE_FORMS: [&str; 9] = ["a:b:c", "a:b", "a:", ":b", "::c", "a::c", ":b:c", ":", "::"];

fn hostile_string(rng: &mut Rng) -> String {
    let n = match rng.below(6) {
        0 => 0,
        1 => rng.below(4),
        2 => rng.below(12),
        3 => 20 + rng.below(4), // around the 21-byte inline/heap boundary
        4 => *rng.pick(&[31, 32, 33, 63, 64, 65, 127, 128, 129, 255, 256, 257, 300]), // around power-of-two sizes
        _ => rng.below(40),
    };
    let mut s = String::new();
    for _ in 0..n {
        match rng.below(10) {
            0..=2 => s.push((b'a' + rng.below(26) as u8) as char),
            3 => s.push_str(CHARS[rng.below(CHARS.len())]),
            4 => s.push(*rng.pick(&['\u{301}', '\u{200d}', '\u{fe0f}', '\u{1f1eb}', '\u{1f1f7}', '\u{0}', '\u{a0}', '\u{2003}'])),
            5 => s.push(*rng.pick(&[' ', '\n', '\t', '\r', '.', ',', '<', '&'])),
            6 => s.push(char::from_u32(0x4e00 + rng.below(2000) as u32).unwrap()),
            7 => s.push(char::from_u32(0x1f600 + rng.below(60) as u32).unwrap()),
            8 => s.push(char::from_u32(0x80 + rng.below(0x700) as u32).unwrap_or('x')),
            _ => s.push(char::from_u32(rng.below(0x10ffff) as u32).unwrap_or('y')),
        }
    }
    s
}

fn render(cx: &mut Cx, tera: &Tera, src: &str, ctx: &Context, what: &str) -> Option<String> {
    cx.eval();
    match guard(|| tera.render_str(src, ctx, false)) {
        Ok(Ok(s)) => Some(s),
        Ok(Err(_)) => Some("ERR".into()),
        Err(p) => {
            cx.violation(&format!("C14/panic/{}", panic_site(&p)), format!("panic rendering {src} ({what}): {p}"), json!({"src": src, "what": what}));
            None
        }
    }
}

pub fn run(cx: &mut Cx) {
    let tera = Tera::default();
    // grid cases: (kind, len) for len 0..=8 and 12; each runs every index and every slice triple
    let lens: Vec<usize> = (0..=8).chain([12]).collect();
    let mut grid: Vec<(&str, usize)> = Vec::new();
    for l in &lens {
        grid.push(("arr", *l));
        grid.push(("str", *l));
    }
    // split every grid cell in 4 sub-cases to spread the work over the shards
    let ngrid = (grid.len() * 4) as u64;
    let total = ngrid + cx.total(300, 30000);
    for case in cx.my_cases(total) {
        if case < ngrid {
            let (kind, len) = grid[(case / 4) as usize];
            let part = (case % 4) as usize;
            cx.begin_case(case, "grid");
            let x = container(kind, len);
            let ps = params_for(len);
            // ---- indexing
            if part == 0 {
                for p in ps.iter().filter(|p| !matches!(p, P::Absent)) {
                    for (form, tpl) in [("x[i]", "{{ x[i] | default(value=\"UNDEF\") }}"), ("x?[i]", "{{ x?[i] | default(value=\"UNDEF\") }}")] {
                        let mut ctx = Context::new();
                        ctx.insert_value("x", x.clone());
                        ctx.insert_value("i", p.value().unwrap());
                        if let Some(out) = render(cx, &tera, tpl, &ctx, &p.log()) {
                            cx.cell(format!("I|{kind}|{len}|{form}|ctx|{}", p.class(len)));
                            cx.log_line(&format!("I\t{kind}\t{len}\t{form}\tctx\t{}\t{}", p.log(), hex(&out)));
                        }
                    }
                    if let Some(lit) = p.literal() {
                        let forms = vec![("x[i]", format!("{{{{ x[{lit}] | default(value=\"UNDEF\") }}}}")), ("x?[i]", format!("{{{{ x?[{lit}] | default(value=\"UNDEF\") }}}}"))];
                        for (form, tpl) in forms {
                            let mut ctx = Context::new();
                            ctx.insert_value("x", x.clone());
                            if let Some(out) = render(cx, &tera, &tpl, &ctx, &p.log()) {
                                cx.cell(format!("I|{kind}|{len}|{form}|lit|{}", p.class(len)));
                                cx.log_line(&format!("I\t{kind}\t{len}\t{form}\tlit\t{}\t{}", p.log(), hex(&out)));
                            }
                        }
                    }
                }
            }
            // ---- slicing: every triple of the parameter set, through the syntactic form that carries it
            for (ia, a) in ps.iter().enumerate() {
                if ia % 4 != part {
                    continue;
                }
                for b in &ps {
                    for c in &ps {
                        let form = match (matches!(a, P::Absent), matches!(b, P::Absent), matches!(c, P::Absent)) {
                            (false, false, false) => "a:b:c",
                            (false, false, true) => "a:b",
                            (false, true, true) => "a:",
                            (true, false, true) => ":b",
                            (true, true, false) => "::c",
                            (false, true, false) => "a::c",
                            (true, false, false) => ":b:c",
                            (true, true, true) => ":",
                        };
                        let mut ctx = Context::new();
                        ctx.insert_value("x", x.clone());
                        for (n, p) in [("a", a), ("b", b), ("c", c)] {
                            if let Some(v) = p.value() {
                                ctx.insert_value(n, v);
                            }
                        }
                        let tpl = format!("{{{{ x[{form}] }}}}");
                        if let Some(out) = render(cx, &tera, &tpl, &ctx, "slice") {
                            cx.cell(format!("S|{kind}|{len}|{form}|ctx|{}|{}|{}", a.class(len), b.class(len), c.class(len)));
                            cx.log_line(&format!("S\t{kind}\t{len}\t{form}\tctx\t{}\t{}\t{}\t{}", a.log(), b.log(), c.log(), if out == "ERR" { out.clone() } else { hex(&out) }));
                        }
                    }
                }
            }
            cx.count("grid_cells_completed", 1);
            continue;
        }
        // ---- random: literal spellings, optional slices, none as absent, and character-wise string operations
        cx.begin_case(case, "random");
        let mut rng = cx.rng(case);
        for _ in 0..40 {
            let kind = if rng.bool() { "arr" } else { "str" };
            // one in eight around the power-of-two sizes where chunked loops and inline capacities end
            let len = if rng.below(8) == 0 { *rng.pick(&[15usize, 16, 17, 23, 24, 25, 31, 32, 33, 63, 64, 65, 127, 128, 129, 255, 256, 257, 300]) } else { rng.below(13) };
            let x = container(kind, len);
            let ps = params_for(len);
            let (a, b, c) = (rng.pick(&ps).clone(), rng.pick(&ps).clone(), rng.pick(&ps).clone());
            let mut ctx = Context::new();
            ctx.insert_value("x", x.clone());
            match rng.below(3) {
                0 => {
                    if let (Some(la), Some(lb), Some(lc)) = (a.literal(), b.literal(), c.literal()) {
                        let opt = if rng.bool() { "?" } else { "" };
                        // an absent step can be spelled `a:b` or `a:b:`
                        let body = if lc.is_empty() { format!("{la}:{lb}") } else { format!("{la}:{lb}:{lc}") };
                        let tpl = format!("{{{{ x{opt}[{body}] }}}}");
                        if let Some(out) = render(cx, &tera, &tpl, &ctx, "slice-literal") {
                            cx.cell(format!("S|{kind}|lit{opt}|{}|{}|{}", a.class(len), b.class(len), c.class(len)));
                            cx.log_line(&format!("S\t{kind}\t{len}\t{body}\tlit\t{}\t{}\t{}\t{}", a.log(), b.log(), c.log(), if out == "ERR" { out.clone() } else { hex(&out) }));
                        }
                    }
                }
                1 => {
                    // `none` supplied as a context value counts as absent
                    for (n, p) in [("a", &a), ("b", &b), ("c", &c)] {
                        ctx.insert_value(n, p.value().unwrap_or_else(Value::none));
                    }
                    if let Some(out) = render(cx, &tera, "{{ x[a:b:c] }}", &ctx, "slice-none") {
                        cx.cell(format!("S|{kind}|none|{}|{}|{}", a.class(len), b.class(len), c.class(len)));
                        cx.log_line(&format!("S\t{kind}\t{len}\ta:b:c\tnone\t{}\t{}\t{}\t{}", a.log(), b.log(), c.log(), if out == "ERR" { out.clone() } else { hex(&out) }));
                    }
                }
                _ => {
                    // slice of a slice, against the composed Python result
                    for (n, p) in [("a", &a), ("b", &b)] {
                        if let Some(v) = p.value() {
                            ctx.insert_value(n, v);
                        }
                    }
                    let fa = if matches!(a, P::Absent) { "" } else { "a" };
                    let fb = if matches!(b, P::Absent) { "" } else { "b" };
                    let tpl = format!("{{{{ x[{fa}:][:{fb}][::-1] }}}}");
                    if let Some(out) = render(cx, &tera, &tpl, &ctx, "slice-chain") {
                        cx.cell(format!("C|{kind}|{}|{}", a.class(len), b.class(len)));
                        cx.log_line(&format!("C\t{kind}\t{len}\t{}\t{}\t{}", a.log(), b.log(), if out == "ERR" { out.clone() } else { hex(&out) }));
                    }
                }
            }
        }
        // optional indexing/slicing of none and of a missing variable gives undefined, the plain forms are errors
        {
            let mut ctx = Context::new();
            ctx.insert_value("nn", Value::none());
            for (tpl, exp) in [
                ("{{ nn?[1:] | default(value=\"UNDEF\") }}", "UNDEF"),
                ("{{ nn?[0] | default(value=\"UNDEF\") }}", "UNDEF"),
                ("{{ missing?[1:2] | default(value=\"UNDEF\") }}", "UNDEF"),
                ("{{ missing?[::-1] is defined }}", "false"),
                ("{{ missing[1:] | default(value=\"UNDEF\") }}", "ERR"),
                ("{{ nn[1:] | default(value=\"UNDEF\") }}", "ERR"),
            ] {
                if let Some(out) = render(cx, &tera, tpl, &ctx, "optional-slice") {
                    cx.cell(format!("O|{tpl}"));
                    if out != exp {
                        cx.violation("C14/optional-slice-of-none-or-undefined", format!("{tpl} rendered {out:?}, expected {exp:?}"), json!({"template": tpl}));
                    }
                }
            }
        }
        for _ in 0..20 {
            let s = hostile_string(&mut rng);
            let n = rng.below(s.chars().count() + 3);
            let mut ctx = Context::new();
            ctx.insert_value("s", Value::from(s.as_str()));
            ctx.insert_value("n", Value::from(n as u64));
            ctx.insert_value("m", Value::from(-(n as i64)));
            let nchars = s.chars().count();
            let cls = if s.is_empty() { "empty" } else if s.is_ascii() { "ascii" } else if s.len() <= 21 { "mb-inline" } else { "mb-heap" };
            for (op, tpl, arg) in [
                ("length", "{{ s | length }}", 0),
                ("reverse", "{{ s | reverse }}", 0),
                ("truncate", "{{ s | truncate(length=n, end=\"\") }}", n),
                ("truncate_end", "{{ s | truncate(length=n) }}", n),
                ("chars", "{% for ch in s %}{{ ch }}\u{1}{% endfor %}", 0),
                ("index", "{{ s[n] | default(value=\"UNDEF\") }}", n),
                ("negindex", "{{ s[m] | default(value=\"UNDEF\") }}", n),
                ("slice", "{{ s[n:] }}\u{1}{{ s[:n] }}\u{1}{{ s[::-1] }}\u{1}{{ s[m:] }}", n),
                ("loopmeta", "{% for ch in s %}{% if loop.first %}{{ loop.length }}{% endif %}{% if loop.last %}:{{ loop.index }}{% endif %}{% endfor %}", 0),
            ] {
                if let Some(out) = render(cx, &tera, tpl, &ctx, op) {
                    if out != "ERR" && std::str::from_utf8(out.as_bytes()).is_err() {
                        cx.violation("C14/invalid-utf8", format!("{op} produced invalid UTF-8"), json!({"s": s, "op": op}));
                    }
                    cx.cell(format!("T|{op}|{cls}|{}", if arg == 0 { "0" } else if arg < nchars { "in" } else if arg == nchars { "len" } else { "over" }));
                    cx.log_line(&format!("T\t{op}\t{}\t{arg}\t{}", hex(&s), if out == "ERR" { out.clone() } else { hex(&out) }));
                }
            }
            let s2 = s.clone();
            cx.sample(|| json!({"string_ops_on": s2, "n": n}));
        }
    }
}
