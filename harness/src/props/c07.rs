//! C07 — rendering accepted templates never panics; all references checked at add time; state balanced.
//! Monitors: panic recorder, supervised children (overflow/abort), UTF-8 validator on the raw render_to bytes,
//! hook H3 (stack sizes at the end of every successful interpreter run), registry monitor (unknown names must be
//! rejected at registration and never discovered while rendering).
use crate::core::*;
use crate::progs::{base_context, PGen};
use crate::props::c18::{build_engine, context_of};
use crate::values::*;
use serde_json::json;
use tera::{Context, ErrorKind, Tera};

const REFS: [(&str, &str); 7] = [
    ("filter", "v | nofilter"),
    ("filter-args", "v | nofilter(a=1)"),
    ("test", "v is notest"),
    ("test-neg", "v is not notest(a=1)"),
    ("function", "nofn()"),
    ("function-args", "nofn(a=v)"),
    ("component", "<NoComp a={1} />"),
];

const POSITIONS: [(&str, &str); 46] = [
    ("print", "{{ R }}"),
    ("set", "{% set x = R %}"),
    ("set_global", "{% set_global x = R %}"),
    ("if-cond", "{% if R %}a{% endif %}"),
    ("elif-cond", "{% if false %}{% elif R %}a{% endif %}"),
    ("if-dead-branch", "{% if false %}{{ R }}{% endif %}"),
    ("else-branch", "{% if true %}{% else %}{{ R }}{% endif %}"),
    ("for-target", "{% for i in [R] %}{% endfor %}"),
    ("for-body", "{% for i in [] %}{{ R }}{% endfor %}"),
    ("for-else", "{% for i in [1] %}{% else %}{{ R }}{% endfor %}"),
    ("ternary-untaken", "{{ 1 if true else R }}"),
    ("ternary-cond", "{{ 1 if R else 2 }}"),
    ("and-rhs", "{{ false and R }}"),
    ("or-rhs", "{{ true or R }}"),
    ("array-literal", "{{ [1, R] }}"),
    ("array-spread", "{{ [...[R]] }}"),
    ("map-value", "{{ {\"a\": R } }}"),
    ("subscript", "{{ [1][R] }}"),
    ("slice", "{{ [1][R:] }}"),
    ("comprehension-item", "{{ [R for i in []] }}"),
    ("comprehension-target", "{{ [i for i in [R]] }}"),
    ("comprehension-cond", "{{ [i for i in [] if R] }}"),
    ("filter-kwarg", "{{ 1 | default(value=R) }}"),
    ("test-kwarg", "{{ 1 is divisible_by(divisor=R) }}"),
    ("function-kwarg", "{{ range(end=R) }}"),
    ("component-arg", "{{ <Known a={R} /> }}"),
    ("component-spread", "{{ <Known {...{\"a\": R } } /> }}"),
    ("component-call-body", "{% <Known> %}{{ R }}{% </Known> %}"),
    ("set-block-body", "{% set x %}{{ R }}{% endset %}"),
    ("filter-section-body", "{% filter upper %}{{ R }}{% endfilter %}"),
    ("filter-section-kwarg", "{% filter default(value=R) %}{% endfilter %}"),
    ("block-body", "{% block b %}{{ R }}{% endblock %}"),
    ("nested-block", "{% block b %}{% block c %}{{ R }}{% endblock %}{% endblock %}"),
    ("component-def-body", "{% component Def() %}{{ R }}{% endcomponent %}"),
    ("component-def-nested", "{% component Def() %}{% if false %}{% for i in [] %}{{ R }}{% endfor %}{% endif %}{% endcomponent %}"),
    ("unary", "{{ not R }}"),
    ("neg", "{{ -(R) }}"),
    ("binop", "{{ 1 + (R) }}"),
    ("concat", "{{ \"a\" ~ (R) }}"),
    ("in-rhs", "{{ 1 in [R] }}"),
    ("filter-chain-mid", "{{ (R) | str | upper }}"),
    ("optional-chain-index", "{{ v?[R] }}"),
    ("break-guard", "{% for i in [1] %}{% if R %}{% break %}{% endif %}{% endfor %}"),
    ("set-in-loop-in-capture", "{% set z %}{% for i in [] %}{% set y = R %}{% endfor %}{% endset %}"),
    ("component-default-call", "{% component D3(a = 1) %}{{ <Known a={R} /> }}{% endcomponent %}"),
    ("raw-neighbour", "{% raw %}{{ x | nofilter }}{% endraw %}{{ R }}"),
];

const SPECIAL: [(&str, &str); 14] = [
    ("set-block-filter-chain", "{% set x | upper | nofilter %}a{% endset %}"),
    ("set-block-filter-chain-first", "{% set x | nofilter | upper %}a{% endset %}"),
    ("set-block-filter-kwarg", "{% set x | default(value=nofn()) %}a{% endset %}"),
    ("filter-section-name", "{% filter nofilter %}a{% endfilter %}"),
    ("include", "{% include \"nope.html\" %}"),
    ("include-in-block", "{% block b %}{% include \"nope.html\" %}{% endblock %}"),
    ("include-in-component", "{% component D2() %}{% include \"nope.html\" %}{% endcomponent %}"),
    ("include-dead", "{% if false %}{% include \"nope.html\" %}{% endif %}"),
    ("include-in-capture", "{% set x %}{% include \"nope.html\" %}{% endset %}"),
    ("include-in-loop-else", "{% for i in [1] %}{% else %}{% include \"nope.html\" %}{% endfor %}"),
    ("include-in-component-call-body", "{% <Known> %}{% include \"nope.html\" %}{% </Known> %}"),
    ("extends", "{% extends \"nope.html\" %}"),
    ("body-component-name", "{% <NoComp> %}x{% </NoComp> %}"),
    ("filter-section-in-component", "{% component D4() %}{% filter nofilter %}a{% endfilter %}{% endcomponent %}"),
];

const KNOWN: (&str, &str) = ("known.html", "{% component Known(a = 1, ...rest) %}k{{ body | default(value=\"\") }}{% endcomponent %}");

/// expression and statement shapes for the operand-position matrix (v, x, y are rebound to hostile values)
const EXPRS: [&str; 44] = [
    "v + x", "v - x", "v * x", "v / x", "v // x", "v % x", "v ** x", "v == x", "v != x", "v < x", "v <= x", "v > x", "v >= x", "v and x", "v or x", "v ~ x", "v in x", "v not in x", "v[x]", "v?[x]", "v[x:]", "v[:x]",
    "v[::x]", "v[x:y]", "v[x:y:y]", "-v", "not v", "v.a", "v.a.a", "v?.a?.a", "v if x else y", "[v, x]", "[...v, x]", "{\"k\": v, ...x}", "[q for q in v]", "[q for q in v if x]", "[k for k, w in v]", "v | default(value=x)",
    "v is containing(pat=x)", "v | get(key=x, default=y)", "v | join(sep=x)", "v | sort(attribute=x)", "v | group_by(attribute=x)", "range(end=v, start=x, step_by=y) | length",
];
const STMTS: [&str; 8] = [
    "{% for q in v %}{{ q }}{{ loop.index }}{% endfor %}",
    "{% for k, w in v %}{{ k }}{{ w }}{% endfor %}",
    "{% for q in v %}{% if x %}{% break %}{% endif %}{{ q }}{% else %}E{% endfor %}",
    "{% set z %}{{ v }}{% endset %}{{ z | length }}",
    "{% filter upper %}{{ v }}{{ x }}{% endfilter %}",
    "{{ __tera_context }}",
    "{% for q in v %}{% for r in x %}{% if y %}{% continue %}{% endif %}{{ q }}{{ r }}{% endfor %}{% endfor %}",
    "{% set_global g = v %}{% for q in x %}{% set_global g = [g, q] %}{% endfor %}{{ g }}",
];

fn render_checked(cx: &mut Cx, tera: &Tera, what: &str, job: &dyn Fn(&mut Vec<u8>) -> tera::TeraResult<()>, replay: &dyn Fn() -> serde_json::Value) -> Option<bool> {
    cx.eval();
    let r = guard(|| {
        let mut out = Vec::new();
        let r = job(&mut out);
        (r, out)
    });
    let _ = tera;
    match r {
        Ok((Ok(()), out)) => {
            if std::str::from_utf8(&out).is_err() {
                cx.violation("C07/invalid-utf8-output", format!("{what} wrote invalid UTF-8: {:?}", clip(&String::from_utf8_lossy(&out), 200)), replay());
            }
            cx.count("renders_ok", 1);
            Some(true)
        }
        Ok((Err(e), _)) => {
            cx.count("renders_err", 1);
            // registry monitor: nothing may be discovered missing while rendering an accepted set
            let missing = match e.kind() {
                ErrorKind::TemplateNotFound(n) => Some(format!("template {n}")),
                ErrorKind::ComponentNotFound(n) => Some(format!("component {n}")),
                ErrorKind::MissingParent { parent, .. } => Some(format!("parent {parent}")),
                _ => None,
            };
            let msg = guard(|| e.to_string()).unwrap_or_else(|p| {
                cx.violation(&format!("C07/panic-in-error-display/{}", panic_site(&p)), format!("Display of the error of {what} panicked: {p}"), replay());
                String::new()
            });
            let by_text = ["has no block lineage", "is not registered", "Unknown filter", "Unknown test", "Unknown function", "Unknown component", "Unknown template"].iter().find(|n| msg.contains(**n));
            if missing.is_some() || by_text.is_some() {
                cx.violation("C07/reference-discovered-missing-at-render-time", format!("{what}: {}", clip(&msg, 300)), replay());
            }
            Some(false)
        }
        Err(p) => {
            cx.violation(&format!("C07/panic/{}", panic_site(&p)), format!("{what} panicked: {p}"), replay());
            None
        }
    }
}

fn hostile_pool() -> Vec<V> {
    let mut p = kind_pool();
    p.insert(0, V::Undef);
    // Sizes are kept small on purpose: generated programs nest loops over the same name three or four deep, and a
    // 5000-character string (or a 300-element array) there is 10^9..10^11 iterations of legitimate work that a CPU watchdog cannot tell from a hang
    // (it once raised `C07/hang/hostile-context` on the unchanged tree: a false alarm of the workload, see DESIGN §12)
    p.push(V::Str("x".repeat(24)));
    p.push(V::Arr((0..16).map(|i| V::Str(format!("e{i}"))).collect()));
    p.push(V::Map((0..16).map(|i| (K::Str(format!("k{i}")), V::I64(i))).collect()));
    for v in p.iter_mut() {
        match v {
            V::Str(s) | V::Safe(s) if s.chars().count() > 24 => *s = s.chars().take(24).collect(),
            V::Arr(a) if a.len() > 16 => a.truncate(16),
            V::Map(m) if m.len() > 16 => m.truncate(16),
            V::Bytes(b) if b.len() > 24 => b.truncate(24),
            _ => {}
        }
    }
    p.push(V::Map(vec![(K::Str("a".into()), V::Map(vec![(K::Str("a".into()), V::Undef), (K::Str("b".into()), V::Bytes(vec![0xff, 0xfe]))]))]));
    p
}

pub fn run(cx: &mut Cx) {
    let pool = hostile_pool();
    let vars = base_context();
    let (ends0, _) = tera::verif::render_end_report();
    // ---------------- deterministic families first
    let n_ref = (POSITIONS.len() * REFS.len() + SPECIAL.len()) as u64;
    let depth_kinds = ["nested-if", "nested-for", "nested-blocks", "nested-filter", "nested-set-block", "include-chain", "extends-chain", "extends-chain-super", "component-nesting", "include-in-block-chain"];
    let depths: Vec<usize> = if cx.tier == Tier::Quick { vec![1, 8, 16, 24, 32, 39] } else { (1..=39).collect() };
    let n_depth = (depth_kinds.len() * depths.len()) as u64;
    let crash_families = ["block-inversion-super", "include-descendant-super", "deep-template-built-value", "deep-template-built-map", "self-component-recursion", "mutual-component-recursion", "component-recursion-through-body",
        // recursion that alternates between kinds of nesting: every hop hands the render over to another VM, and each kind
        // has its own counter
        "component-recursion-through-include", "component-recursion-through-include-in-call-body", "component-recursion-through-include-and-block", "component-recursion-through-two-includes"];
    let n_crash = crash_families.len() as u64;
    let n_matrix = (EXPRS.len() + STMTS.len()) as u64;
    // (F) references that exist when first registered and vanish when their provider is replaced
    let n_repl = (POSITIONS.len() + 3) as u64;
    // (G) break/continue under every nesting of loops, captures and branches
    let n_brk = 96u64;
    let total = n_ref + n_depth + n_crash + n_matrix + n_repl + n_brk + cx.total(2000, 40_000);
    let dump = cx.dump;
    for case in cx.my_cases(total) {
        let mut rng = cx.rng(case);
        // ---- (C) unknown references at every syntactic position must be rejected at registration
        if case < n_ref {
            let (pname, src, rname) = if (case as usize) < POSITIONS.len() * REFS.len() {
                let (pn, pos) = POSITIONS[case as usize / REFS.len()];
                let (rn, rf) = REFS[case as usize % REFS.len()];
                (pn, pos.replace('R', rf), rn)
            } else {
                let (pn, s) = SPECIAL[case as usize - POSITIONS.len() * REFS.len()];
                (pn, s.to_string(), "special")
            };
            cx.begin_case(case, &format!("unknown-reference:{pname}"));
            for mode in ["registered", "in-child", "in-included", "in-parent", "after-valid-batch", "render_str"] {
                let built: Option<Vec<(String, String)>> = match mode {
                    "registered" => Some(vec![("t.html".into(), src.clone())]),
                    "in-child" => {
                        if src.contains("{% component") || src.contains("{% extends") {
                            None
                        } else {
                            let body = if src.contains("{% block b %}") { src.clone() } else { format!("{{% block b %}}{src}{{% endblock %}}") };
                            Some(vec![("base.html".into(), "{% block b %}{% block c %}{% endblock %}{% endblock %}".to_string()), ("t.html".into(), format!("{{% extends \"base.html\" %}}{body}"))])
                        }
                    }
                    "in-included" => {
                        if src.contains("{% extends") || src.contains("{% block") {
                            None
                        } else {
                            Some(vec![("t.html".into(), "{% include \"inc.html\" %}".to_string()), ("inc.html".into(), src.clone())])
                        }
                    }
                    "in-parent" => {
                        if src.contains("{% extends") {
                            None
                        } else {
                            Some(vec![("base.html".into(), format!("{src}{{% block zz %}}{{% endblock %}}")), ("t.html".into(), "{% extends \"base.html\" %}{% block zz %}x{% endblock %}".to_string())])
                        }
                    }
                    "after-valid-batch" => Some(vec![("t.html".into(), src.clone())]),
                    _ => {
                        if src.contains("{% block") || src.contains("{% extends") {
                            None
                        } else {
                            Some(vec![])
                        }
                    }
                };
                let Some(tpls) = built else { continue };
                cx.eval();
                cx.cell(format!("unknown-ref|{pname}|{rname}|{mode}"));
                let replay = json!({"position": pname, "reference": rname, "mode": mode, "source": src, "templates": tpls});
                let r = guard(|| {
                    let mut t = Tera::default();
                    t.add_raw_template(KNOWN.0, KNOWN.1).unwrap();
                    if mode == "after-valid-batch" {
                        t.add_raw_template("other.html", "fine {{ 1 }}").unwrap();
                    }
                    if mode == "render_str" {
                        return t.render_str(&src, &Context::new(), true).map(|_| ()).map_err(|e| e.to_string());
                    }
                    t.add_raw_templates(tpls.clone()).map_err(|e| e.to_string())
                });
                cx.count("unknown_reference_injections", 1);
                match r {
                    Ok(Err(_)) => cx.count("unknown_references_rejected", 1),
                    Ok(Ok(())) => cx.violation(&format!("C07/unknown-reference-accepted/{pname}/{mode}"), format!("a source referencing an unregistered name ({rname}) at position `{pname}` was accepted ({mode}): {src}"), replay),
                    Err(p) => cx.violation(&format!("C07/panic/{}", panic_site(&p)), format!("unknown reference at `{pname}` ({mode}) panicked: {p}; source {src}"), replay),
                }
            }
            continue;
        }
        // ---- (D) depth sweeps within the engine's limits: must render (or fail) without dying
        if case < n_ref + n_depth {
            let k = (case - n_ref) as usize;
            let kind = depth_kinds[k / depths.len()];
            let d = depths[k % depths.len()];
            let fam = format!("depth:{kind}:{d}");
            cx.begin_case(case, &fam);
            let rep = |s: &str| s.repeat(d);
            let mut tpls: Vec<(String, String)> = Vec::new();
            let mut expect_text: Option<String> = None;
            match kind {
                "nested-if" => tpls.push(("t".into(), format!("{}x{}", rep("{% if true %}"), rep("{% endif %}")))),
                "nested-for" => tpls.push(("t".into(), format!("{}x{}", rep("{% for i in [1] %}"), rep("{% endfor %}")))),
                "nested-filter" => tpls.push(("t".into(), format!("{}x{}", rep("{% filter upper %}"), rep("{% endfilter %}")))),
                "nested-set-block" => tpls.push(("t".into(), format!("{}x{}{{{{ a }}}}", rep("{% set a %}"), rep("{% endset %}{{ a }}").trim_end_matches("{{ a }}")))),
                "nested-blocks" => tpls.push(("t".into(), (0..d).map(|i| format!("{{% block b{i} %}}")).collect::<String>() + "x" + &rep("{% endblock %}"))),
                "include-chain" => {
                    for i in 0..d {
                        tpls.push((format!("i{i}"), if i + 1 < d { format!("[{{% include \"i{}\" %}}]", i + 1) } else { "x".to_string() }));
                    }
                    tpls.push(("t".into(), "{% include \"i0\" %}".into()));
                    expect_text = Some(format!("{}x{}", "[".repeat(d - 1), "]".repeat(d - 1)));
                }
                "extends-chain" | "extends-chain-super" => {
                    tpls.push(("e0".into(), "{% block b %}root{% endblock %}".into()));
                    for i in 1..=d {
                        let body = if kind == "extends-chain-super" { "{{ super() }}+" } else { "" };
                        tpls.push((format!("e{i}"), format!("{{% extends \"e{}\" %}}{{% block b %}}{body}{i}{{% endblock %}}", i - 1)));
                    }
                    tpls.push(("t".into(), format!("{{% extends \"e{d}\" %}}")));
                }
                "component-nesting" => {
                    // d <= 39 nested body calls of the same component (not recursion: nesting at the call site)
                    let d2 = d.min(18);
                    tpls.push(("c".into(), "{% component w() %}({{ body }}){% endcomponent %}".into()));
                    tpls.push(("t".into(), format!("{}x{}", "{% <w> %}".repeat(d2), "{% </w> %}".repeat(d2))));
                }
                _ => {
                    // include chains where every include sits inside a block of a template that extends a base
                    tpls.push(("base".into(), "{% block b %}{% endblock %}".into()));
                    for i in 0..d {
                        tpls.push((format!("p{i}"), if i + 1 < d { format!("{{% extends \"base\" %}}{{% block b %}}<{{% include \"q{}\" %}}>{{% endblock %}}", i + 1) } else { "{% extends \"base\" %}{% block b %}x{% endblock %}".to_string() }));
                        tpls.push((format!("q{i}"), format!("{{% if true %}}{{% include \"w{i}\" %}}{{% endif %}}")));
                        tpls.push((format!("w{i}"), "w".to_string()));
                    }
                    tpls.push(("t".into(), "{% extends \"base\" %}{% block b %}{% include \"q0\" %}{% endblock %}".into()));
                }
            }
            if dump {
                cx.samples.push(json!({"family": fam, "templates": tpls.iter().map(|(n, s)| (n.clone(), clip(s, 400))).collect::<Vec<_>>()}));
                continue;
            }
            let replay = json!({"family": fam, "templates": tpls.iter().map(|(n, s)| (n.clone(), clip(s, 400))).collect::<Vec<_>>()});
            let r = guard(|| {
                let mut t = Tera::default();
                t.add_raw_templates(tpls.clone()).map(|_| t).map_err(|e| e.to_string())
            });
            cx.cell(format!("depth|{kind}|{}", if d <= 16 { "shallow" } else if d <= 32 { "mid" } else { "near-limit" }));
            match r {
                Ok(Ok(t)) => {
                    cx.count("depth_sweep_sets_accepted", 1);
                    let ctx = Context::new();
                    let mut text = None;
                    let ok = render_checked(cx, &t, &fam, &|w| {
                        let mut buf = Vec::new();
                        let r = t.render_to("t", &ctx, &mut buf);
                        w.extend_from_slice(&buf);
                        r
                    }, &|| replay.clone());
                    if ok == Some(true) {
                        text = t.render("t", &ctx).ok();
                    }
                    if let (Some(e), Some(g)) = (&expect_text, &text) {
                        if e != g {
                            cx.violation("C07/depth-sweep-wrong-output", format!("{fam}: rendered {:?}, expected {:?}", clip(g, 100), clip(e, 100)), replay.clone());
                        }
                    }
                    if ok == Some(false) && d <= 32 && kind != "nested-blocks" {
                        // chains within the engine's limits and the realistic depth of 32 must render
                        cx.violation("C07/depth-within-limits-fails", format!("{fam}: an accepted chain of depth {d} failed to render"), replay.clone());
                    }
                    cx.max("max:depth_rendered", d as u64);
                }
                Ok(Err(_)) => cx.count("depth_sweep_sets_rejected", 1),
                Err(p) => cx.violation(&format!("C07/panic/{}", panic_site(&p)), format!("{fam}: registration panicked: {p}"), replay),
            }
            continue;
        }
        // ---- (E) shapes that recurse: the render must end with text or an error, never kill the process
        if case < n_ref + n_depth + n_crash {
            let fam = crash_families[(case - n_ref - n_depth) as usize];
            cx.begin_case(case, fam);
            let tpls: Vec<(&str, String)> = match fam {
                "block-inversion-super" => vec![
                    ("p", "{% block a %}A{% block b %}B{% endblock %}{% endblock %}".into()),
                    ("t", "{% extends \"p\" %}{% block b %}X{% block a %}Y{{ super() }}{% endblock %}{% endblock %}".into()),
                ],
                "include-descendant-super" => vec![("t", "{% block b %}[{% include \"d\" %}]{% endblock %}".into()), ("d", "{% extends \"t\" %}{% block b %}{{ super() }}{% endblock %}".into())],
                "deep-template-built-value" => vec![("t", "{% set a = 1 %}{% for i in range(end=100000) %}{% set_global a = [a] %}{% endfor %}{{ a | str | length }}".into())],
                "deep-template-built-map" => vec![("t", "{% set a = 1 %}{% for i in range(end=100000) %}{% set_global a = {\"k\": a} %}{% endfor %}{{ a | length }}".into())],
                "self-component-recursion" => vec![("t", "{% component r(n) %}{{ <r n={n + 1} /> }}{% endcomponent %}{{ <r n={0} /> }}".into())],
                "mutual-component-recursion" => vec![("t", "{% component a() %}{{ <b /> }}{% endcomponent %}{% component b() %}{% <a> %}x{% </a> %}{% endcomponent %}{{ <a /> }}".into())],
                "component-recursion-through-include" => vec![("t", "{% component r(n=0) %}[{{ n }}{% include \"i\" %}]{% endcomponent %}{{ <r /> }}".into()), ("i", "{{ <r n={1} /> }}".into())],
                "component-recursion-through-include-in-call-body" => vec![("t", "{% component w() %}{{ body }}{% endcomponent %}{% component r() %}{% <w> %}{% include \"i\" %}{% </w> %}{% endcomponent %}{{ <r /> }}".into()), ("i", "{{ <r /> }}".into())],
                "component-recursion-through-include-and-block" => vec![("t", "{% component r() %}{% include \"c\" %}{% endcomponent %}{{ <r /> }}".into()), ("p", "P{% block a %}{% endblock %}".into()), ("c", "{% extends \"p\" %}{% block a %}{{ <r /> }}{% endblock %}".into())],
                "component-recursion-through-two-includes" => vec![("t", "{% component r() %}{% include \"i\" %}{% endcomponent %}{{ <r /> }}".into()), ("i", "{% for q in [1] %}{% include \"j\" %}{% endfor %}".into()), ("j", "{% set c %}{{ <r /> }}{% endset %}{{ c }}".into())],
                _ => vec![("t", "{% component w() %}{{ body }}{% endcomponent %}{% component r() %}{% <w> %}{{ <r /> }}{% </w> %}{% endcomponent %}{{ <r /> }}".into())],
            };
            if dump {
                cx.samples.push(json!({"family": fam, "templates": tpls}));
                continue;
            }
            let replay = json!({"family": fam, "templates": tpls});
            let r = guard(|| {
                let mut t = Tera::default();
                t.add_raw_templates(tpls.clone()).map(|_| t).map_err(|e| e.to_string())
            });
            cx.cell(format!("recursive-shape|{fam}"));
            if let Ok(Ok(t)) = r {
                let ctx = Context::new();
                let ok = render_checked(cx, &t, fam, &|w| {
                    let mut buf = Vec::new();
                    let r = t.render_to("t", &ctx, &mut buf);
                    w.extend_from_slice(&buf);
                    r
                }, &|| replay.clone());
                cx.count("recursive_shapes_survived", 1);
                if ok == Some(true) && fam.contains("recursion") {
                    cx.violation("C07/unbounded-recursion-rendered", format!("{fam} rendered successfully although it has no base case"), replay.clone());
                }
            } else {
                cx.count("recursive_shapes_rejected", 1);
            }
            continue;
        }
        // ---- (B) operand-position matrix: every shape x hostile operand pairs
        if case < n_ref + n_depth + n_crash + n_matrix {
            let k = (case - n_ref - n_depth - n_crash) as usize;
            let (src, shape) = if k < EXPRS.len() { (format!("{{{{ {} }}}}|{{% if {} %}}y{{% endif %}}|{{% set q = {} %}}", EXPRS[k], EXPRS[k], EXPRS[k]), EXPRS[k]) } else { (STMTS[k - EXPRS.len()].to_string(), STMTS[k - EXPRS.len()]) };
            cx.begin_case(case, &format!("matrix:{}", clip(shape, 30)));
            let built = guard(|| {
                let mut t = Tera::default();
                t.add_raw_template("m.html", &src).map(|_| t).map_err(|e| e.to_string())
            });
            let Ok(Ok(t)) = built else {
                cx.violation("C07/matrix-template-rejected", format!("{src}: {built:?}", built = built.map(|r| r.map(|_| ()))), json!({"source": src}));
                continue;
            };
            let three = src.contains('y') && !src.starts_with("{{ __tera");
            let stride = if cx.tier == Tier::Quick { 2 } else { 1 };
            for (vi, v) in pool.iter().enumerate() {
                for (xi, x) in pool.iter().enumerate().step_by(stride) {
                    let ys: Vec<usize> = if three { (0..pool.len()).step_by(9).collect() } else { vec![0] };
                    for yi in ys {
                        let mut ctx = Context::new();
                        for (n, val) in [("v", v), ("x", x), ("y", &pool[yi])] {
                            if !matches!(val, V::Undef) {
                                ctx.insert_value(n, val.to_tera());
                            }
                        }
                        let ok = render_checked(cx, &t, shape, &|w| {
                            let mut buf = Vec::new();
                            let r = t.render_to("m.html", &ctx, &mut buf);
                            w.extend_from_slice(&buf);
                            r
                        }, &|| json!({"source": src, "v": v.tagged(), "x": x.tagged(), "y": pool[yi].tagged()}));
                        if (vi + xi) % 7 == 0 {
                            cx.cell(format!("matrix|{}|{}|{}|{}", clip(shape, 24), v.kind(), x.kind(), match ok { Some(true) => "ok", Some(false) => "err", None => "panic" }));
                        }
                    }
                }
            }
            cx.count("matrix_shapes_completed", 1);
            continue;
        }
        // ---- (F) a valid set, then the provider of a reference is replaced by a version that no longer provides it:
        //      the replacement must be rejected; whatever the answer, rendering afterwards must not panic
        if case < n_ref + n_depth + n_crash + n_matrix + n_repl {
            let k = (case - n_ref - n_depth - n_crash - n_matrix) as usize;
            let (pname, first, replacement): (String, Vec<(String, String)>, (String, String)) = if k < POSITIONS.len() {
                let (pn, pos) = POSITIONS[k];
                let user = pos.replace('R', "<Prov a={1} />");
                (
                    format!("component-provider-replaced:{pn}"),
                    vec![("prov.html".into(), "{% component Prov(a = 1) %}prov{{ a }}{% endcomponent %}".into()), ("known.html".into(), KNOWN.1.into()), ("t.html".into(), user)],
                    ("prov.html".into(), "nothing provided any more".into()),
                )
            } else {
                match k - POSITIONS.len() {
                    0 => (
                        "parent-replaced-without-the-overridden-block".into(),
                        vec![("base.html".into(), "{% block b %}base{% endblock %}".into()), ("t.html".into(), "{% extends \"base.html\" %}{% block b %}child {{ super() }}{% endblock %}".into())],
                        ("base.html".into(), "no block here".into()),
                    ),
                    1 => (
                        "component-provider-replaced:called-from-another-component".into(),
                        vec![("prov.html".into(), "{% component Prov() %}prov{% endcomponent %}".into()), ("mid.html".into(), "{% component Mid() %}[{{ <Prov /> }}]{% endcomponent %}".into()), ("t.html".into(), "{{ <Mid /> }}".into())],
                        ("prov.html".into(), "gone".into()),
                    ),
                    _ => (
                        "component-provider-replaced:called-from-included".into(),
                        vec![("prov.html".into(), "{% component Prov() %}prov{% endcomponent %}".into()), ("inc.html".into(), "<{{ <Prov /> }}>".into()), ("t.html".into(), "{% include \"inc.html\" %}".into())],
                        ("prov.html".into(), "gone".into()),
                    ),
                }
            };
            cx.begin_case(case, &format!("replacement:{}", clip(&pname, 50)));
            let replay = json!({"scenario": pname, "first_batch": first, "replacement": replacement});
            cx.eval();
            let r = guard(|| {
                let mut t = Tera::default();
                let first_ok = t.add_raw_templates(first.clone()).is_ok();
                let second_ok = first_ok && t.add_raw_template(&replacement.0, &replacement.1).is_ok();
                (t, first_ok, second_ok)
            });
            cx.cell(format!("replacement|{pname}"));
            cx.count("provider_replacements", 1);
            match r {
                Err(p) => cx.violation(&format!("C07/panic/{}", panic_site(&p)), format!("{pname}: registration panicked: {p}"), replay),
                Ok((_, false, _)) => cx.violation("C07/replacement-scenario-first-batch-rejected", format!("{pname}: the valid first batch was rejected"), replay),
                Ok((t, true, second_ok)) => {
                    if second_ok {
                        cx.violation(&format!("C07/dangling-reference-accepted-after-replacement/{}", pname.split(':').next().unwrap_or("x")), format!("{pname}: replacing the provider by a version without the referenced name was accepted"), replay.clone());
                    }
                    // accepted or rolled back, every template must still render to text or an error
                    let ctx = Context::new();
                    let names: Vec<String> = t.get_template_names().map(|s| s.to_string()).collect();
                    for n in names {
                        let what = format!("{pname}: render {n}");
                        render_checked(cx, &t, &what, &|w| {
                            let mut buf = Vec::new();
                            let r = t.render_to(&n, &ctx, &mut buf);
                            w.extend_from_slice(&buf);
                            r
                        }, &|| replay.clone());
                    }
                }
            }
            continue;
        }
        // ---- (G) break/continue below every nesting (2-4 levels) of for / filter section / set-block / component body / if.
        //      Whether a shape is accepted is the parser's business; every accepted one must render with balanced stacks
        //      (hook H3, attributed per shape here) and, where the jump crosses no capture, to the text a small model gives.
        if case < n_ref + n_depth + n_crash + n_matrix + n_repl + n_brk {
            let k = case - (n_ref + n_depth + n_crash + n_matrix + n_repl);
            cx.begin_case(case, "break-continue-nesting");
            let mut shapes: Vec<Vec<u8>> = vec![];
            for len in 2..=4usize {
                for code in 0..6usize.pow(len as u32) {
                    let mut c = code;
                    let sh: Vec<u8> = (0..len).map(|_| { let d = (c % 6) as u8; c /= 6; d }).collect();
                    if sh.contains(&0) {
                        shapes.push(sh);
                    }
                }
            }
            for (si, sh) in shapes.iter().enumerate() {
                if si as u64 % n_brk != k {
                    continue;
                }
                for jump in ["break", "continue"] {
                    // source and model text; sig: None / Some(jump) travelling outwards
                    fn build(sh: &[u8], jump: &str, lvl: usize) -> String {
                        if sh.is_empty() {
                            return format!("{{% if i{} == 2 %}}{{% {jump} %}}{{% endif %}}x", lvl);
                        }
                        let inner = build(&sh[1..], jump, lvl + (sh[0] == 0) as usize);
                        match sh[0] {
                            0 => format!("{{% for i{} in [1, 2, 3] %}}a{{{{ i{} }}}}{inner}b{{% endfor %}}", lvl + 1, lvl + 1),
                            1 => format!("{{% filter upper %}}c{inner}d{{% endfilter %}}"),
                            2 => format!("{{% set s{} %}}e{inner}f{{% endset %}}{{{{ s{} }}}}", sh.len(), sh.len()),
                            3 => format!("{{% <w> %}}g{inner}h{{% </w> %}}"),
                            // the else branch of a loop that has nothing to iterate: a jump in there belongs to the enclosing loop
                            5 => format!("{{% for e{} in [] %}}never{{% else %}}m{inner}n{{% endfor %}}", sh.len()),
                            _ => format!("{{% if true %}}j{inner}k{{% endif %}}"),
                        }
                    }
                    // model: Err(()) when a jump would have to cross a capture
                    fn model(sh: &[u8], jump: &str, cur: Option<i64>, out: &mut String) -> Result<Option<bool>, ()> {
                        // returns Some(true) = break travelling, Some(false) = continue travelling
                        if sh.is_empty() {
                            if cur == Some(2) {
                                return Ok(Some(jump == "break"));
                            }
                            out.push('x');
                            return Ok(None);
                        }
                        match sh[0] {
                            0 => {
                                for i in 1..=3 {
                                    out.push('a');
                                    out.push_str(&i.to_string());
                                    match model(&sh[1..], jump, Some(i), out)? {
                                        Some(true) => return Ok(None),
                                        Some(false) => continue,
                                        None => {}
                                    }
                                    out.push('b');
                                }
                                Ok(None)
                            }
                            4 | 5 => {
                                let (l, rr) = if sh[0] == 4 { ('j', 'k') } else { ('m', 'n') };
                                out.push(l);
                                let r = model(&sh[1..], jump, cur, out)?;
                                if r.is_none() {
                                    out.push(rr);
                                }
                                Ok(r)
                            }
                            c => {
                                let mut inner = String::new();
                                let (l, r) = match c { 1 => ("c", "d"), 2 => ("e", "f"), _ => ("g", "h") };
                                inner.push_str(l);
                                if model(&sh[1..], jump, cur, &mut inner)?.is_some() {
                                    return Err(());
                                }
                                inner.push_str(r);
                                match c {
                                    1 => out.push_str(&inner.to_uppercase()),
                                    2 => out.push_str(&inner),
                                    _ => { out.push('['); out.push_str(&inner); out.push(']'); }
                                }
                                Ok(None)
                            }
                        }
                    }
                    // the innermost loop variable must exist where the jump sits: shapes whose jump is above every loop are
                    // "jump outside a loop" (refused by the parser); keep them, they must simply not panic
                    let depth_of_loops = sh.iter().filter(|c| **c == 0).count();
                    let src = format!("head|{}|tail", build(sh, jump, 0)).replace("i0 == 2", "true");
                    let tpls = vec![("w.html".to_string(), "{% component w() %}[{{ body }}]{% endcomponent %}".to_string()), ("t.html".to_string(), src.clone())];
                    let replay = json!({"templates": tpls, "shape": sh.iter().map(|c| ["for", "filter", "set-block", "component-body", "if", "for-else-branch"][*c as usize]).collect::<Vec<_>>(), "jump": jump});
                    cx.eval();
                    let built = guard(|| {
                        let mut t = Tera::default();
                        t.autoescape_on(Vec::<&'static str>::new());
                        t.add_raw_templates(tpls.clone()).map(|_| t).map_err(|e| e.to_string())
                    });
                    let t = match built {
                        Err(p) => {
                            cx.violation(&format!("C07/panic/{}", panic_site(&p)), format!("registration panicked: {p}"), replay);
                            continue;
                        }
                        Ok(Err(_)) => {
                            cx.count("jump_shapes_refused", 1);
                            continue;
                        }
                        Ok(Ok(t)) => t,
                    };
                    cx.count("jump_shapes_accepted", 1);
                    let (_, unb0) = tera::verif::render_end_report();
                    let r = guard(|| t.render("t.html", &Context::new()).map_err(|e| e.to_string()));
                    cx.eval();
                    let (_, unb1) = tera::verif::render_end_report();
                    if unb1.len() > unb0.len() {
                        let u = &unb1[unb0.len()];
                        cx.violation(&format!("C07/stacks-not-empty-after-render/{}", u.site), format!("`{jump}` under {:?}: interpreter run `{}` had (value, loop, capture) stacks {:?} before and {:?} after; rendered {:?}", replay["shape"], u.site, u.before, u.after, r), replay.clone());
                    }
                    let mut exp = String::from("head|");
                    let m = model(sh, jump, None, &mut exp);
                    exp.push_str("|tail");
                    let _ = depth_of_loops;
                    match (r, m) {
                        (Err(p), _) => cx.violation(&format!("C07/panic/{}", panic_site(&p)), format!("render panicked: {p}"), replay),
                        (Ok(Ok(o)), Ok(_)) => {
                            cx.count("jump_shapes_compared_with_model", 1);
                            if o != exp {
                                cx.violation("C07/jump-loses-or-misplaces-output", format!("`{jump}` under {:?} rendered {o:?}, the loop semantics give {exp:?}", replay["shape"]), replay);
                            }
                        }
                        // accepted although the jump crosses a capture: only the stack monitor above decides
                        (Ok(Ok(_)), Err(())) => cx.count("jump_across_capture_accepted", 1),
                        // the loop semantics give a text: an accepted shape that then fails is output lost all the same
                        (Ok(Err(e)), Ok(_)) => cx.violation("C07/jump-shape-accepted-but-fails-to-render", format!("`{jump}` under {:?} was accepted and then failed: {}; the loop semantics give {exp:?}", replay["shape"], clip(&e, 200)), replay),
                        (Ok(Err(_)), Err(())) => cx.count("renders_err", 1),
                    }
                }
            }
            continue;
        }
        // ---- (A) generated programs against hostile contexts
        cx.begin_case(case, "hostile-context");
        let program = {
            let mut g = PGen::new(&mut rng);
            g.program()
        };
        let tera = match guard(|| build_engine(&program)) {
            Ok(Ok(t)) => t,
            Ok(Err(_)) => {
                cx.count("programs_rejected", 1);
                continue;
            }
            Err(p) => {
                cx.violation(&format!("C07/panic/{}", panic_site(&p)), format!("registration panicked: {p}"), json!({"templates": program.templates}));
                continue;
            }
        };
        cx.count("programs", 1);
        let base = context_of(&vars);
        for round in 0..(if cx.tier == Tier::Quick { 10 } else { 24 }) {
            let mut ctx = base.clone();
            ctx.insert("a", "A<arg>");
            ctx.insert("n", &3);
            let mut rebound = Vec::new();
            if round > 0 {
                for _ in 0..(1 + rng.below(3)) {
                    let name = match rng.below(16) {
                        0 => "a",
                        1 => "n",
                        k => vars[k as usize % vars.len()].0,
                    };
                    let hv = &pool[rng.below(pool.len())];
                    if matches!(hv, V::Undef) {
                        ctx.remove(name);
                    } else {
                        ctx.insert_value(name.to_string(), hv.to_tera());
                    }
                    rebound.push((name, hv.clone()));
                }
            }
            let rp = |what: &str| json!({"templates": program.templates, "job": what, "rebound": rebound.iter().map(|(n, v)| json!([n, v.tagged()])).collect::<Vec<_>>()});
            if std::env::var("TVH_TRACE").is_ok() {
                eprintln!("TRACE round {round}: {}", rp("next"));
            }
            for e in &program.entries {
                let what = format!("render {e}");
                let ok = render_checked(cx, &tera, &what, &|w| {
                    let mut buf = Vec::new();
                    let r = tera.render_to(e, &ctx, &mut buf);
                    w.extend_from_slice(&buf);
                    r
                }, &|| rp(&what));
                for (_, hv) in &rebound {
                    cx.cell(format!("hostile|render|{}|{}", hv.kind(), match ok { Some(true) => "ok", Some(false) => "err", None => "panic" }));
                }
            }
            for (t, b) in program.blocks.iter().take(3) {
                let what = format!("render_block {t}/{b}");
                render_checked(cx, &tera, &what, &|w| {
                    let mut buf = Vec::new();
                    let r = tera.render_block_to(t, b, &ctx, &mut buf);
                    w.extend_from_slice(&buf);
                    r
                }, &|| rp(&what));
            }
            for c in &program.components {
                let what = format!("render_component {c}");
                render_checked(cx, &tera, &what, &|w| {
                    let mut buf = Vec::new();
                    let r = tera.render_component_to(c, &ctx, Some("B&"), true, &mut buf);
                    w.extend_from_slice(&buf);
                    r
                }, &|| rp(&what));
                // "any context" includes one whose entries hold an undefined value themselves: as a declared argument, and
                // as an undeclared one that goes to the rest map (only the API can hand such a context to a component)
                for (k, which) in [("a", "declared"), ("extra_undefined", "undeclared"), ("n", "typed")] {
                    let mut c2 = ctx.clone();
                    c2.insert_value(k, tera::Value::undefined());
                    let what = format!("render_component {c} with an undefined {which} argument");
                    render_checked(cx, &tera, &what, &|w| {
                        let mut buf = Vec::new();
                        let r = tera.render_component_to(c, &c2, None, false, &mut buf);
                        w.extend_from_slice(&buf);
                        r
                    }, &|| rp(&what));
                    cx.count("component_renders_with_undefined_arguments", 1);
                }
            }
        }
        let p2 = program.templates.clone();
        cx.sample(|| json!({"family": "hostile-context", "templates": p2}));
    }
    // ---- hook H3: every successful interpreter run of a fresh state must end with empty stacks; nested runs balanced
    let (ends, unbalanced) = tera::verif::render_end_report();
    cx.count("render_end_events", ends - ends0);
    for u in unbalanced.iter().take(8) {
        cx.violation(&format!("C07/stacks-not-empty-after-render/{}", u.site), format!("interpreter run `{}`: (value stack, loop stack, capture stack) was {:?} before and {:?} after", u.site, u.before, u.after), json!({"event": format!("{u:?}")}));
    }
}
