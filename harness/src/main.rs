#![allow(dead_code)]
//! tvh — the runtime-monitoring harness for Keats/tera. One sub-command per property; see /verif/DESIGN.md.
mod core;
mod miri_suite;
mod model;
mod monitors;
mod progs;
mod props;
mod ser_model;
mod values;

use crate::core::{Cx, Tier};

fn usage() -> ! {
    eprintln!("usage: tvh run <ID> [--tier quick|thorough] [--seed N] [--shard I --nshards N] [--start K] [--only K] [--scale F] [--out FILE] [--status FILE] [--log FILE] [--dump] [--case-budget-ms N] [--mem-mb N] [--stack-mb N]");
    std::process::exit(2)
}

fn main() {
    let args: Vec<String> = std::env::args().collect();
    if args.len() >= 3 && args[1] == "miri" {
        // tvh miri <ID> <seed> <ops>: reduced workloads for the Miri interpreter (no files, clocks, rlimits or watchdog)
        let seed: u64 = args.get(3).and_then(|s| s.parse().ok()).unwrap_or(1);
        let ops: usize = args.get(4).and_then(|s| s.parse().ok()).unwrap_or(50);
        let done = miri_suite::run(&args[2], seed, ops);
        println!("MIRI-SUITE {} seed={seed} operations={done}", args[2]);
        return;
    }
    if args.len() >= 3 && args[1] == "regtime" {
        // tvh regtime <file>: how long does *registering* this libFuzzer input take (decoded like the C06 fuzz target,
        // nothing rendered)? Prints `REGTIME ms=<n>`; used to tell a parser that hangs from a render that is merely long.
        let data = std::fs::read(&args[2]).unwrap_or_default();
        let Ok(s) = std::str::from_utf8(&data) else {
            println!("REGTIME ms=0 not-utf8");
            return;
        };
        let mut t = tera::Tera::default();
        let (src, custom) = match s.as_bytes().first() {
            Some(b'\x01') if s.len() > 13 && s.is_char_boundary(13) => (&s[13..], Some(&s[1..13])),
            _ => (s, None),
        };
        if let Some(d) = custom {
            let parts: Vec<String> = d.as_bytes().chunks(2).map(|c| String::from_utf8_lossy(c).to_string()).collect();
            if parts.len() == 6 {
                let _ = t.set_delimiters(tera::Delimiters { block_start: parts[0].clone().into(), block_end: parts[1].clone().into(), variable_start: parts[2].clone().into(), variable_end: parts[3].clone().into(), comment_start: parts[4].clone().into(), comment_end: parts[5].clone().into() });
            }
        }
        let t0 = std::time::Instant::now();
        let (a, b) = src.split_once('\x0c').unwrap_or((src, ""));
        let _ = t.add_raw_templates(vec![("a.html", a), ("b.html", b)]);
        println!("REGTIME ms={}", t0.elapsed().as_millis());
        return;
    }
    if args.len() < 3 || args[1] != "run" {
        usage();
    }
    let id = args[2].clone();
    let mut cx = Cx::new(&id);
    let mut i = 3;
    let mut budget: Option<u64> = None;
    let mut mem_mb: u64 = 8192;
    let mut stack_mb: usize = 8;
    while i < args.len() {
        let a = args[i].as_str();
        let mut val = || {
            i += 1;
            args.get(i).cloned().unwrap_or_else(|| usage())
        };
        match a {
            "--tier" => cx.tier = if val() == "thorough" { Tier::Thorough } else { Tier::Quick },
            "--seed" => cx.seed = val().parse().unwrap_or_else(|_| usage()),
            "--shard" => cx.shard = val().parse().unwrap_or_else(|_| usage()),
            "--nshards" => cx.nshards = val().parse().unwrap_or_else(|_| usage()),
            "--start" => cx.start = val().parse().unwrap_or_else(|_| usage()),
            "--only" => cx.only = Some(val().parse().unwrap_or_else(|_| usage())),
            "--scale" => cx.scale = val().parse().unwrap_or_else(|_| usage()),
            "--out" => cx.out = Some(val()),
            "--status" => {
                let p = val();
                cx.open_status(&p)
            }
            "--log" => cx.log_path = Some(val()),
            "--dump" => cx.dump = true,
            "--case-budget-ms" => budget = Some(val().parse().unwrap_or_else(|_| usage())),
            "--mem-mb" => mem_mb = val().parse().unwrap_or_else(|_| usage()),
            // sanitizer legs only: instrumented frames are several times larger, so depth verdicts (which belong to the
            // optimised build on 8 MiB) are taken out of the picture by a very large stack
            "--stack-mb" => stack_mb = val().parse().unwrap_or_else(|_| usage()),
            _ => usage(),
        }
        i += 1;
    }
    // address-space cap: an engine loop that keeps writing must not take the machine down; an allocation failure
    // aborts the process and the driver treats it like a CPU-budget overrun (suspect, confirmed alone)
    if mem_mb > 0 {
        unsafe {
            let lim = libc::rlimit { rlim_cur: mem_mb << 20, rlim_max: mem_mb << 20 };
            libc::setrlimit(libc::RLIMIT_AS, &lim);
        }
    }
    cx.open_log();
    core::install_panic_hook();
    core::start_watchdog();
    if let Some(b) = budget {
        cx.set_case_budget_ms(b);
    }
    // The workload runs on a thread with an explicit 8 MiB stack (the Linux main-thread default),
    // so depth-related verdicts do not depend on the caller's ulimit.
    let handle = std::thread::Builder::new()
        .name("workload".into())
        .stack_size(stack_mb << 20)
        .spawn(move || {
            let known = props::run(&id, &mut cx);
            if !known {
                eprintln!("unknown property {id}");
                std::process::exit(2);
            }
            cx.end_cases();
            cx.done = true;
            cx.flush(true);
            if cx.out.is_none() {
                println!("{}", serde_json::to_string_pretty(&cx.to_json(true)).unwrap());
            }
        })
        .unwrap();
    if handle.join().is_err() {
        // a panic in the harness itself (not in guarded engine calls): harness error, not a verdict
        if core::UNGUARDED_ENGINE_PANIC.load(std::sync::atomic::Ordering::Relaxed) {
            std::process::exit(core::EXIT_ENGINE_PANIC);
        }
        eprintln!("HARNESS-PANIC");
        std::process::exit(3);
    }
}
