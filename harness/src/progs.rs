//! Random *valid by construction* multi-template programs (no reference model attached): the shared workload of the
//! monitors that need realistic template sets but decide by differential / structural / totality oracles
//! (C07 hostile contexts, C09 optimiser, C18 channels-faults-threads, C01 mode A).
use crate::core::Rng;
use crate::values::{K, V};

pub struct Program {
    pub templates: Vec<(String, String)>,
    /// templates that can be rendered directly (entries: the inheritance leaves and standalone pages)
    pub entries: Vec<String>,
    /// (template, block) pairs that exist
    pub blocks: Vec<(String, String)>,
    /// component names with their parameter names (all optional / defaulted except `a`)
    pub components: Vec<String>,
    /// for every include template: (name, head, tail) such that head + tail is its source and the cut lies between two
    /// top-level statements (C03: moving the tail into an include of its own must not change anything)
    pub splits: Vec<(String, String, String)>,
}

impl Program {
    pub fn clone_templates(&self) -> Vec<(String, String)> {
        self.templates.clone()
    }
}

pub struct PGen<'a> {
    pub rng: &'a mut Rng,
    /// bias towards variable paths next to jumps (C09)
    pub path_bias: bool,
    /// generate `| safe` and safe-marking constructs
    pub allow_safe: bool,
    /// template text and component wrappers without any markup character (C01 mode A)
    pub markup_free: bool,
    /// every block body is wrapped in \u{1}name\u{2} … \u{3}name\u{4}, so that the text a block writes can be cut out of
    /// the full render (C04: render_block vs full render)
    pub block_markers: bool,
    ninc: usize,
    ncomp: usize,
    loop_depth: usize,
    depth: usize,
    in_component: bool,
    /// offsets of the top-level statements of the body generated last
    last_cuts: Vec<usize>,
}

pub const STR_VARS: [&str; 4] = ["s1", "s2", "m.k1", "mm.a.b"];
pub const NUM_VARS: [&str; 4] = ["n1", "n2", "mm.a.n", "items[0].id"];
pub const ARR_VARS: [&str; 4] = ["xs", "ns", "items", "mm.a.list"];
pub const MAP_VARS: [&str; 3] = ["m", "mm", "mm.a"];

/// the context every generated program is written against
pub fn base_context() -> Vec<(&'static str, V)> {
    let s = |x: &str| V::Str(x.to_string());
    let k = |x: &str| K::Str(x.to_string());
    vec![
        ("s1", s("Hello <World> & \"friends\"")),
        ("s2", s("日本語 'é' text")),
        ("n1", V::I64(7)),
        ("n2", V::I64(-3)),
        ("f1", V::F64(2.5)),
        ("b1", V::Bool(true)),
        ("b0", V::Bool(false)),
        ("none1", V::None),
        ("xs", V::Arr(vec![s("b<"), s("a&"), s("c'"), s("a&")])),
        ("ns", V::Arr(vec![V::I64(3), V::I64(1), V::I64(2)])),
        ("empty", V::Arr(vec![])),
        ("m", V::Map(vec![(k("k1"), s("v<1>")), (k("k2"), s("v&2"))])),
        (
            "mm",
            V::Map(vec![(
                k("a"),
                V::Map(vec![(k("b"), s("deep \"b\"")), (k("n"), V::I64(5)), (k("list"), V::Arr(vec![V::I64(1), V::I64(2)])), (k("none"), V::None)]),
            )]),
        ),
        (
            "items",
            V::Arr(vec![
                V::Map(vec![(k("id"), V::I64(2)), (k("name"), s("two <2>")), (k("tags"), V::Arr(vec![s("x"), s("y")]))]),
                V::Map(vec![(k("id"), V::I64(1)), (k("name"), s("one & 1")), (k("tags"), V::Arr(vec![]))]),
                V::Map(vec![(k("id"), V::I64(3)), (k("name"), s("three")), (k("tags"), V::Arr(vec![s("z")]))]),
            ]),
        ),
    ]
}

impl<'a> PGen<'a> {
    pub fn new(rng: &'a mut Rng) -> Self {
        PGen { rng, path_bias: false, allow_safe: true, markup_free: false, block_markers: false, ninc: 0, ncomp: 0, loop_depth: 0, depth: 0, in_component: false, last_cuts: Vec::new() }
    }

    fn pick<'b>(&mut self, xs: &'b [&'b str]) -> &'b str {
        xs[self.rng.below(xs.len())]
    }

    /// inside a component only its parameters (a, b, rest, body) are visible
    fn str_expr(&mut self, d: usize) -> String {
        if self.in_component {
            return match self.rng.below(6) {
                0 => "a".into(),
                1 => "b".into(),
                2 => "a ~ b".into(),
                3 => "a | upper".into(),
                4 => "\"lit<\"".into(),
                _ => "b | default(value=\"d\")".into(),
            };
        }
        let n = if d > 2 { 4 } else { 14 };
        match self.rng.below(n) {
            0 | 1 => self.pick(&STR_VARS).to_string(),
            2 => format!("\"{}\"", self.pick(&["lit", "a<b", "x & y", "", "'q'"])),
            3 => format!("{} | {}", self.pick(&STR_VARS), self.pick(&["upper", "lower", "trim", "capitalize", "title", "reverse", "escape_html", "str"])),
            4 => {
                // nothing that parses to a unary node may follow `~`
                let mut r = self.any_scalar(d + 1);
                if r.starts_with('-') || r.starts_with("not ") {
                    r = self.pick(&NUM_VARS).to_string();
                }
                format!("{} ~ {r}", self.str_expr(d + 1))
            }
            5 => format!("{} | replace(from=\"a\", to={})", self.str_expr(d + 1), self.str_expr(d + 1)),
            6 => format!("{} | truncate(length={})", self.str_expr(d + 1), self.rng.below(9)),
            7 => format!("({} if {} else {})", self.str_expr(d + 1), self.cond(d + 1), self.str_expr(d + 1)),
            8 => format!("{} | join(sep={})", self.pick(&["xs", "ns", "mm.a.list"]), self.str_expr(d + 1)),
            9 => format!("{}[{}]", self.pick(&["xs", "s1", "s2"]), self.rng.range(-2, 2)),
            10 => format!("{}[{}:{}]", self.pick(&["s1", "s2"]), self.rng.below(3), 3 + self.rng.below(4)),
            11 => format!("{} | default(value={})", self.pick(&["u1", "m.nokey", "s2", "s1"]), self.str_expr(d + 1)),
            12 => format!("{} or {}", self.pick(&["u1", "m.nokey", "s1", "\"\""]), self.str_expr(d + 1)),
            _ => format!("items[{}].name", self.rng.below(3)),
        }
    }

    fn num_expr(&mut self, d: usize) -> String {
        if self.in_component {
            return match self.rng.below(3) {
                0 => "n".into(),
                1 => "n + 1".into(),
                _ => format!("n * {}", self.rng.range(1, 4)),
            };
        }
        let n = if d > 2 { 3 } else { 10 };
        match self.rng.below(n) {
            0 | 1 => self.pick(&NUM_VARS).to_string(),
            2 => format!("{}", self.rng.range(0, 9)),
            3 => format!("{} {} {}", self.num_expr(d + 1), self.pick(&["+", "-", "*"]), self.num_expr(d + 1)),
            4 => format!("({} {} {})", self.num_expr(d + 1), self.pick(&["+", "-", "*", "%", "//"]), 1 + self.rng.below(5)),
            5 => format!("{} | length", self.pick(&["xs", "ns", "s1", "m", "items"])),
            6 => format!("{} | abs", self.num_expr(d + 1)),
            7 => format!("-{}", self.pick(&NUM_VARS)),
            8 => format!("({} if {} else {})", self.num_expr(d + 1), self.cond(d + 1), self.num_expr(d + 1)),
            _ => "f1 | round".into(),
        }
    }

    fn any_scalar(&mut self, d: usize) -> String {
        if self.rng.bool() {
            self.str_expr(d)
        } else {
            self.num_expr(d)
        }
    }

    pub fn cond(&mut self, d: usize) -> String {
        if self.in_component {
            return match self.rng.below(4) {
                0 => "n > 1".into(),
                1 => "a".into(),
                2 => "b is defined".into(),
                _ => "rest.k is defined".into(),
            };
        }
        let n = if d > 2 { 5 } else { 14 };
        let path = self.path_bias && self.rng.chance(2, 3);
        if path {
            // bare variable paths as conditions and operands of and/or: next to every kind of jump
            return match self.rng.below(6) {
                0 => self.pick(&["b1", "b0", "s1", "n1", "xs", "empty", "none1"]).to_string(),
                1 => self.pick(&["m.k1", "mm.a.b", "mm.a.none", "m.nokey", "mm.a.n"]).to_string(),
                2 => format!("{} and {}", self.pick(&["b1", "m.k1", "mm.a.b", "u1"]), self.pick(&["b0", "mm.a.n", "m.nokey", "s1"])),
                3 => format!("{} or {}", self.pick(&["b0", "m.nokey", "mm.a.none", "u1"]), self.pick(&["b1", "mm.a.b", "m.k2"])),
                4 => format!("not {}", self.pick(&["b1", "m.k1", "mm.a.none", "u2"])),
                _ => format!("{} and {} or {}", self.pick(&["b1", "mm.a.b"]), self.pick(&["b0", "m.nokey"]), self.pick(&["s1", "mm.a.n"])),
            };
        }
        match self.rng.below(n) {
            0 => self.pick(&["b1", "b0", "true", "false"]).to_string(),
            1 => format!("{} {} {}", self.num_expr(d + 1), self.pick(&["<", "<=", ">", ">=", "==", "!="]), self.num_expr(d + 1)),
            2 => format!("{} == {}", self.str_expr(d + 1), self.str_expr(d + 1)),
            3 => format!("{} is {}", self.pick(&["n1", "n2", "s1", "xs", "m", "u1", "none1", "f1"]), self.pick(&["defined", "undefined", "string", "number", "integer", "array", "map", "none", "iterable", "not defined", "not string"])),
            4 => format!("{} is {}", self.pick(&NUM_VARS), self.pick(&["odd", "even", "divisible_by(divisor=2)", "not odd"])),
            5 => format!("{} and {}", self.cond(d + 1), self.cond(d + 1)),
            6 => format!("{} or {}", self.cond(d + 1), self.cond(d + 1)),
            7 => format!("not {}", self.pick(&["b1", "b0", "u1", "empty", "s1"])),
            8 => format!("not ({})", self.cond(d + 1)),
            9 => format!("{} in {}", self.pick(&["\"a&\"", "3", "\"k1\"", "n1", "\"zz\""]), self.pick(&["xs", "ns", "m", "s1"])),
            10 => format!("{} not in {}", self.pick(&["\"a&\"", "1", "\"k9\""]), self.pick(&["xs", "ns", "m"])),
            11 => format!("{} is starting_with(pat=\"H\")", self.pick(&["s1", "s2"])),
            12 => format!("{} is containing(pat={})", self.pick(&["xs", "s1", "m"]), self.pick(&["\"a&\"", "\"k1\"", "\"e\""])),
            _ => self.pick(&["u1", "empty", "none1", "m.nokey", "xs", "s1", "mm.a.none"]).to_string(),
        }
    }

    fn iterable(&mut self) -> (String, &'static str) {
        match self.rng.below(20) {
            // maps and arrays that only exist while rendering
            12 => (format!("{{\"a\": {}, \"z\": {}, \"m\": n1}}", self.any_scalar(1), self.any_scalar(1)), "map"),
            13 => (format!("items | group_by(attribute=\"{}\")", self.pick(&["name", "id"])), "map"),
            14 => (format!("{} | {}", self.pick(&["m", "mm.a"]), self.pick(&["keys", "values", "pairs"])), "arr"),
            15 => (format!("[{} for q in {} if q]", self.pick(&["q", "q ~ \"!\"", "[q]"]), self.pick(&["xs", "ns", "s2"])), "arr"),
            16 => (format!("[...{}, {}]", self.pick(&["xs", "ns", "empty"]), self.any_scalar(1)), "arr"),
            17 => (format!("{{...m, \"k9\": {}}}", self.any_scalar(1)), "map"),
            18 => (format!("range(start={}, end={}, step_by={})", self.rng.below(3), 2 + self.rng.below(5), 1 + self.rng.below(2)), "arr"),
            19 => ("__tera_context".into(), "map"),
            0 | 1 => (self.pick(&["xs", "ns", "items", "mm.a.list", "empty"]).to_string(), "arr"),
            2 => ("s2".into(), "str"),
            3 => (self.pick(&["m", "mm.a"]).to_string(), "map"),
            4 => (format!("range(end={})", self.rng.below(4)), "arr"),
            5 => (format!("[{}, {}]", self.any_scalar(1), self.any_scalar(1)), "arr"),
            6 => (format!("{} | reverse", self.pick(&["xs", "ns"])), "arr"),
            7 => (format!("{} | sort", self.pick(&["xs", "ns"])), "arr"),
            8 => ("xs | unique".into(), "arr"),
            9 => ("items | sort(attribute=\"id\")".into(), "items"),
            10 => ("items".into(), "items"),
            _ => (format!("ns[{}:]", self.rng.below(3)), "arr"),
        }
    }

    fn print_stmt(&mut self) -> String {
        if self.in_component {
            return match self.rng.below(5) {
                0 => "{{ a }}".into(),
                1 => "{{ b }}".into(),
                2 => "{{ body | default(value=\"\") }}".into(),
                3 => "{{ rest }}".into(),
                _ => format!("{{{{ {} }}}}", self.str_expr(1)),
            };
        }
        let safe = if self.allow_safe && self.rng.chance(1, 8) { " | safe" } else { "" };
        match self.rng.below(13) {
            // every other built-in filter, optional chaining and functions show up in generated programs too
            10 => format!(
                "{{{{ {} }}}}",
                self.pick(&[
                    "m | keys", "mm.a | pairs", "m | values", "items | group_by(attribute=\"id\")", "xs | first", "xs | last", "ns | nth(n=1)", "s1 | split(pat=\" \")", "n1 | float", "\"12\" | int",
                    "f1 | round", "f1 | round(method=\"ceil\", precision=1)", "s1 | wordcount", "s1 | indent", "s2 | newlines_to_br", "n1 | pluralize", "m | get(key=\"k1\")", "m | get(key=\"zz\", default=s1)",
                    "s1 | escape_xml", "s1 | trim_start", "s1 | trim_end(pat=\"s\")", "xs | sort | unique | join(sep=\"/\")", "items | sort(attribute=\"name\") | first", "s2 | length", "empty | first", "ns | reverse | last",
                ])
            ),
            11 => format!("{{{{ {} }}}}", self.pick(&["mm?.a?.zz | default(value=\"d\")", "u1?.x is defined", "mm.a?.list?[0]", "none1?.z is undefined", "m?[\"k1\"]", "u1?[0] | default(value=s1)", "range(end=3)", "[...ns, ...xs] | length", "{...m} | length"])),
            12 => format!("{{{{ [q for q in {} if q != {}] }}}}", self.pick(&["xs", "ns"]), self.any_scalar(1)),
            // both sinks: expressions (WriteTop) and bare variable paths (fused WritePath)
            0 | 1 => format!("{{{{ {} }}}}", self.pick(&["s1", "s2", "n1", "f1", "b1", "xs", "m", "ns"])),
            2 | 3 => format!("{{{{ {} }}}}", self.pick(&["m.k1", "mm.a.b", "mm.a.n", "mm.a.list", "mm.a"])),
            4 | 5 => format!("{{{{ {}{safe} }}}}", self.str_expr(0)),
            6 => format!("{{{{ {} }}}}", self.num_expr(0)),
            7 => format!("{{{{ {} }}}}", self.cond(0)),
            8 => format!("{{{{ [{}, {}] }}}}", self.any_scalar(1), self.any_scalar(1)),
            _ => format!("{{{{ {{\"k\": {}, \"j\": {} }} }}}}", self.any_scalar(1), self.any_scalar(1)),
        }
    }

    pub fn body(&mut self, includes: &[String], comps: &[String]) -> String {
        self.depth += 1;
        let n = 1 + self.rng.below(if self.depth > 2 { 2 } else { 5 });
        let mut out = String::new();
        let mut cuts: Vec<usize> = Vec::new();
        for _ in 0..n {
            cuts.push(out.len());
            let choice = self.rng.below(if self.depth > 3 { 4 } else { 16 });
            match choice {
                0 | 1 => {
                    if self.markup_free {
                        out.push_str(self.pick(&["text ", "(p)", "(/p)\n", " + ", "日本 ", "\n", "x"]))
                    } else {
                        out.push_str(self.pick(&["text ", "<p>", "</p>\n", " & ", "日本 ", "\n", "x"]))
                    }
                }
                2 | 3 => out.push_str(&self.print_stmt()),
                4 | 5 => {
                    let c = self.cond(0);
                    out.push_str(&format!("{{% if {c} %}}"));
                    out.push_str(&self.body(includes, comps));
                    if self.rng.chance(1, 3) {
                        let c2 = self.cond(0);
                        out.push_str(&format!("{{% elif {c2} %}}"));
                        out.push_str(&self.body(includes, comps));
                    }
                    if self.rng.bool() {
                        out.push_str("{% else %}");
                        out.push_str(&self.body(includes, comps));
                    }
                    out.push_str("{% endif %}");
                }
                6 | 7 if !self.in_component => {
                    let (it, kind) = self.iterable();
                    let v = format!("v{}", self.loop_depth);
                    self.loop_depth += 1;
                    if kind == "map" {
                        out.push_str(&format!("{{% for k{0}, {v} in {it} %}}{{{{ k{0} }}}}=", self.loop_depth));
                    } else {
                        out.push_str(&format!("{{% for {v} in {it} %}}"));
                    }
                    match self.rng.below(5) {
                        0 => out.push_str(&format!("{{{{ loop.index }}}}/{{{{ loop.length }}}}:{{{{ {v} }}}}")),
                        1 if kind == "items" => out.push_str(&format!("{{{{ {v}.name }}}}#{{{{ {v}.id }}}}")),
                        2 => out.push_str(&format!("{{% if loop.first %}}[{{% endif %}}{{{{ {v} }}}}{{% if loop.last %}}]{{% endif %}}")),
                        _ => out.push_str(&format!("{{{{ {v} }}}},")),
                    }
                    if self.rng.chance(1, 4) {
                        let c = self.cond(1);
                        out.push_str(&format!("{{% if {c} %}}{{% {} %}}{{% endif %}}", self.pick(&["break", "continue"])));
                    }
                    out.push_str(&self.body(includes, comps));
                    if self.rng.chance(1, 3) {
                        out.push_str("{% else %}none");
                    }
                    out.push_str("{% endfor %}");
                    self.loop_depth -= 1;
                }
                8 if !self.in_component => {
                    let name = self.pick(&["t1", "t2", "t3"]).to_string();
                    let e = self.any_scalar(0);
                    let kw = if self.loop_depth > 0 && self.rng.bool() { "set_global" } else { "set" };
                    out.push_str(&format!("{{% {kw} {name} = {e} %}}{{{{ {name} }}}}"));
                }
                9 => {
                    let filt = self.pick(&["", " | upper", " | trim", " | trim | lower"]).to_string();
                    out.push_str(&format!("{{% set cap{}{filt} %}}", self.depth));
                    out.push_str(&self.body(includes, comps));
                    out.push_str(&format!("{{% endset %}}[{{{{ cap{} }}}}]", self.depth));
                }
                10 => {
                    let filt = self.pick(&["upper", "lower", "trim", "reverse", "replace(from=\"a\", to=\"A\")"]).to_string();
                    out.push_str(&format!("{{% filter {filt} %}}"));
                    out.push_str(&self.body(includes, comps));
                    out.push_str("{% endfilter %}");
                }
                11 if !includes.is_empty() && !self.in_component => {
                    out.push_str(&format!("{{% include \"{}\" %}}", includes[self.rng.below(includes.len())]));
                }
                12 | 13 if !comps.is_empty() => {
                    let c = &comps[self.rng.below(comps.len())];
                    let a = self.str_expr(1);
                    let mut args = format!("a={{{a}}}");
                    if self.rng.bool() {
                        // the parameter is typed `integer`
                        let n = match self.rng.below(4) {
                            0 => self.pick(&NUM_VARS).to_string(),
                            1 => format!("{}", self.rng.below(9)),
                            2 => format!("{} | length", self.pick(&["xs", "ns", "m"])),
                            _ => format!("{} + {}", self.pick(&NUM_VARS), self.rng.below(5)),
                        };
                        let n = if self.in_component { "n".to_string() } else { n };
                        args.push_str(&format!(" n={{{n}}}"));
                    }
                    if self.rng.bool() {
                        args.push_str(" b=\"lit&\"");
                    }
                    if self.rng.chance(1, 3) {
                        args.push_str(" k=\"extra\"");
                    }
                    if self.rng.bool() {
                        out.push_str(&format!("{{{{ <{c} {args} /> }}}}"));
                    } else {
                        out.push_str(&format!("{{% <{c} {args}> %}}"));
                        out.push_str(&self.body(includes, comps));
                        out.push_str(&format!("{{% </{c}> %}}"));
                    }
                }
                14 => out.push_str("{# a comment #}"),
                _ => out.push_str(&self.print_stmt()),
            }
        }
        self.depth -= 1;
        if self.depth == 0 {
            self.last_cuts = cuts;
        }
        out
    }

    pub fn program(&mut self) -> Program {
        let mut templates: Vec<(String, String)> = Vec::new();
        let mut components: Vec<String> = Vec::new();
        // components (bodies only see their parameters)
        self.ncomp = self.rng.below(3);
        let mut comp_src = String::new();
        for i in 0..self.ncomp {
            let name = format!("ui.c{i}");
            self.in_component = true;
            // a component may call a lower-numbered one
            let inner = self.body(&[], &components.clone());
            self.in_component = false;
            let (open, close) = if self.markup_free { (format!("({i})"), format!("(/{i})")) } else { (format!("<{i}>"), format!("</{i}>")) };
            comp_src.push_str(&format!("{{% component {name}(a, b = \"dflt\", n: integer = 1, ...rest) %}}{open}{inner}{close}{{% endcomponent {name} %}}\n"));
            components.push(name);
        }
        if !components.is_empty() {
            templates.push(("comps.html".into(), comp_src));
        }
        // includes: inc_j may include inc_k for k > j (acyclic)
        self.ninc = self.rng.below(3);
        let mut includes: Vec<String> = Vec::new();
        let mut splits: Vec<(String, String, String)> = Vec::new();
        for j in (0..self.ninc).rev() {
            let name = format!("inc{j}.html");
            let body = self.body(&includes.clone(), &components);
            if !self.last_cuts.is_empty() {
                let k = self.last_cuts[self.rng.below(self.last_cuts.len())];
                splits.push((name.clone(), format!("[i{j}:{}", &body[..k]), format!("{}]", &body[k..])));
            }
            templates.push((name.clone(), format!("[i{j}:{body}]")));
            includes.push(name);
        }
        // an inheritance chain of 1..4 levels with blocks b0..b3
        let levels = 1 + self.rng.below(4);
        let mut blocks: Vec<(String, String)> = Vec::new();
        let mut entries = Vec::new();
        let mut defined_in_ancestors: Vec<String> = Vec::new();
        for l in 0..levels {
            let name = format!("t{l}.html");
            let mut src = String::new();
            if l == 0 {
                src.push_str(&self.body(&includes, &components));
                for b in 0..(1 + self.rng.below(3)) {
                    let bn = format!("b{b}");
                    src.push_str(&format!("{{% block {bn} %}}"));
                    if self.block_markers {
                        src.push_str(&format!("\u{1}{bn}\u{2}"));
                    }
                    src.push_str(&self.body(&includes, &components));
                    if b == 0 && self.rng.bool() {
                        if self.block_markers {
                            src.push_str("{% block nested %}\u{1}nested\u{2}N\u{3}nested\u{4}{% endblock nested %}");
                        } else {
                            src.push_str("{% block nested %}N{% endblock nested %}");
                        }
                        defined_in_ancestors.push("nested".into());
                    }
                    if self.block_markers {
                        src.push_str(&format!("\u{3}{bn}\u{4}"));
                    }
                    src.push_str(&format!("{{% endblock {bn} %}}"));
                    src.push_str(&self.body(&includes, &components));
                    defined_in_ancestors.push(bn);
                }
            } else {
                src.push_str(&format!("{{% extends \"t{}.html\" %}}", l - 1));
                let candidates = defined_in_ancestors.clone();
                for bn in candidates {
                    if self.rng.bool() {
                        src.push_str(&format!("{{% block {bn} %}}"));
                        if self.block_markers {
                            src.push_str(&format!("\u{1}{bn}\u{2}"));
                        }
                        if self.rng.bool() {
                            src.push_str("{{ super() }}");
                        }
                        src.push_str(&self.body(&includes, &components));
                        if self.block_markers {
                            src.push_str(&format!("\u{3}{bn}\u{4}"));
                        }
                        src.push_str("{% endblock %}");
                    }
                }
            }
            templates.push((name.clone(), src));
            for bn in &defined_in_ancestors {
                blocks.push((name.clone(), bn.clone()));
            }
            entries.push(name);
        }
        Program { templates, entries, blocks, components, splits }
    }
}
