//! The harness's own value type: generated here, converted to `tera::Value` for the engine and to a tagged
//! JSON form for logs/oracles. The reference model (model.rs) computes on this type, never on tera's.
use crate::core::Rng;
use serde_json::{json, Value as J};
use tera::value::{Key, Map};
use tera::Value;

#[derive(Clone, Debug, PartialEq)]
pub enum K {
    Bool(bool),
    I64(i64),
    U64(u64),
    I128(i128),
    U128(u128),
    Str(String),
}

#[derive(Clone, Debug, PartialEq)]
pub enum V {
    Undef,
    None,
    Bool(bool),
    I64(i64),
    U64(u64),
    I128(i128),
    U128(u128),
    F64(f64),
    Str(String),
    Safe(String),
    Bytes(Vec<u8>),
    Arr(Vec<V>),
    Map(Vec<(K, V)>),
}

pub fn hex(b: &[u8]) -> String {
    let mut s = String::with_capacity(b.len() * 2);
    for x in b {
        s.push_str(&format!("{x:02x}"));
    }
    s
}

/// exact integer as (negative, magnitude)
pub type Int = (bool, u128);

pub fn int_of_i128(v: i128) -> Int {
    (v < 0, v.unsigned_abs())
}

impl K {
    pub fn to_key(&self) -> Key<'static> {
        match self {
            K::Bool(b) => Key::Bool(*b),
            K::I64(v) => Key::I64(*v),
            K::U64(v) => Key::U64(*v),
            K::I128(v) => Key::I128(*v),
            K::U128(v) => Key::U128(*v),
            K::Str(s) => Key::String(std::sync::Arc::from(s.as_str())),
        }
    }
    pub fn to_v(&self) -> V {
        match self {
            K::Bool(b) => V::Bool(*b),
            K::I64(v) => V::I64(*v),
            K::U64(v) => V::U64(*v),
            K::I128(v) => V::I128(*v),
            K::U128(v) => V::U128(*v),
            K::Str(s) => V::Str(s.clone()),
        }
    }
    pub fn int(&self) -> Option<Int> {
        match self {
            K::I64(v) => Some(int_of_i128(*v as i128)),
            K::U64(v) => Some((false, *v as u128)),
            K::I128(v) => Some(int_of_i128(*v)),
            K::U128(v) => Some((false, *v)),
            _ => None,
        }
    }
    /// mathematical equality of keys: strings by content, ints by value, bools by value, never across kinds
    pub fn same(&self, o: &K) -> bool {
        match (self, o) {
            (K::Str(a), K::Str(b)) => a == b,
            (K::Bool(a), K::Bool(b)) => a == b,
            _ => match (self.int(), o.int()) {
                (Some(a), Some(b)) => a == b,
                _ => false,
            },
        }
    }
    pub fn tagged(&self) -> J {
        self.to_v().tagged()
    }
    /// how the key is written when a map is printed
    pub fn print(&self) -> String {
        match self {
            K::Str(s) => format!("{s:?}"),
            K::Bool(b) => b.to_string(),
            k => {
                let (neg, m) = k.int().unwrap();
                format!("{}{m}", if neg { "-" } else { "" })
            }
        }
    }
    pub fn kind(&self) -> &'static str {
        match self {
            K::Bool(_) => "bool",
            K::I64(_) => "i64",
            K::U64(_) => "u64",
            K::I128(_) => "i128",
            K::U128(_) => "u128",
            K::Str(_) => "str",
        }
    }
}

impl V {
    pub fn to_tera(&self) -> Value {
        match self {
            V::Undef => Value::undefined(),
            V::None => Value::none(),
            V::Bool(b) => Value::from(*b),
            V::I64(v) => Value::from(*v),
            V::U64(v) => Value::from(*v),
            V::I128(v) => Value::from(*v),
            V::U128(v) => Value::from(*v),
            V::F64(v) => Value::from(*v),
            V::Str(s) => Value::normal_string(s),
            V::Safe(s) => Value::safe_string(s),
            V::Bytes(b) => Value::bytes(b.clone()),
            V::Arr(a) => Value::from(a.iter().map(|x| x.to_tera()).collect::<Vec<_>>()),
            V::Map(m) => {
                let mut out = Map::new();
                for (k, v) in m {
                    out.insert(k.to_key(), v.to_tera());
                }
                Value::from(out)
            }
        }
    }
    pub fn kind(&self) -> &'static str {
        match self {
            V::Undef => "undef",
            V::None => "none",
            V::Bool(_) => "bool",
            V::I64(_) => "i64",
            V::U64(_) => "u64",
            V::I128(_) => "i128",
            V::U128(_) => "u128",
            V::F64(_) => "f64",
            V::Str(_) => "str",
            V::Safe(_) => "safe",
            V::Bytes(_) => "bytes",
            V::Arr(_) => "arr",
            V::Map(_) => "map",
        }
    }
    pub fn int(&self) -> Option<Int> {
        match self {
            V::I64(v) => Some(int_of_i128(*v as i128)),
            V::U64(v) => Some((false, *v as u128)),
            V::I128(v) => Some(int_of_i128(*v)),
            V::U128(v) => Some((false, *v)),
            _ => None,
        }
    }
    pub fn is_int(&self) -> bool {
        self.int().is_some()
    }
    pub fn is_number(&self) -> bool {
        self.is_int() || matches!(self, V::F64(_))
    }
    pub fn as_str(&self) -> Option<&str> {
        match self {
            V::Str(s) | V::Safe(s) => Some(s),
            _ => None,
        }
    }
    /// integer value when it fits in i128
    pub fn i128(&self) -> Option<i128> {
        match self.int()? {
            (false, m) if m <= i128::MAX as u128 => Some(m as i128),
            (true, m) if m <= (i128::MAX as u128) + 1 => Some((m as i128).wrapping_neg()),
            _ => None,
        }
    }
    /// tagged JSON form for logs and replay files (exact: ints as digit strings, floats as IEEE bits, text as hex)
    pub fn tagged(&self) -> J {
        match self {
            V::Undef => json!({"undef": true}),
            V::None => J::Null,
            V::Bool(b) => json!(b),
            V::F64(f) => json!({"f": format!("{:016x}", f.to_bits()), "approx": format!("{f:?}")}),
            V::Str(s) => json!({"s": hex(s.as_bytes()), "text": s}),
            V::Safe(s) => json!({"s": hex(s.as_bytes()), "text": s, "safe": true}),
            V::Bytes(b) => json!({"b": hex(b)}),
            V::Arr(a) => J::Array(a.iter().map(|x| x.tagged()).collect()),
            V::Map(m) => json!({"m": m.iter().map(|(k, v)| json!([k.tagged(), v.tagged()])).collect::<Vec<_>>()}),
            i => {
                let (neg, m) = i.int().unwrap();
                json!({"i": format!("{}{m}", if neg { "-" } else { "" }), "repr": i.kind()})
            }
        }
    }
    pub fn depth(&self) -> usize {
        match self {
            V::Arr(a) => 1 + a.iter().map(|x| x.depth()).max().unwrap_or(0),
            V::Map(m) => 1 + m.iter().map(|x| x.1.depth()).max().unwrap_or(0),
            _ => 0,
        }
    }
    pub fn contains_kind(&self, pred: &dyn Fn(&V) -> bool) -> bool {
        if pred(self) {
            return true;
        }
        match self {
            V::Arr(a) => a.iter().any(|x| x.contains_kind(pred)),
            V::Map(m) => m.iter().any(|x| x.1.contains_kind(pred)),
            _ => false,
        }
    }
}

// ------------------------------------------------------------------------------------ generators

pub const HOSTILE_STRINGS: [&str; 40] = [
    "", " ", "a", "0", "1", "-1", "1.5", "true", "none", "abc", "ABC", "Hello World", "héllo wörld", "日本語", "😀", "a😀b", "<", ">", "&", "\"", "'",
    "<script>alert('x')</script>", "&amp;", "a\nb", "a\r\nb", "\t x \n", "  padded  ", "{{ x }}", "{% raw %}", "{# c #}", "}}", "%}",
    "\u{0}", "\u{301}e", "\u{feff}bom", "ß", "ǆ", "ΑΒΓ αβγ", "a,b,,c", "/path/to/é?q=1&r=2#f",
];

pub fn gen_string(rng: &mut Rng) -> String {
    match rng.below(10) {
        0..=4 => HOSTILE_STRINGS[rng.below(HOSTILE_STRINGS.len())].to_string(),
        5 => {
            let n = rng.below(30);
            (0..n).map(|_| (b'a' + rng.below(26) as u8) as char).collect()
        }
        6 => {
            // around the 21-byte inline/heap boundary of tera's small string
            let n = 19 + rng.below(5);
            let mut s = String::new();
            while s.len() < n {
                s.push(*rng.pick(&['a', 'é', '日', '😀', ' ', '<']));
            }
            s
        }
        7 => {
            let n = rng.below(12);
            (0..n).map(|_| char::from_u32(rng.below(0x10ffff) as u32).unwrap_or('\u{fffd}')).collect()
        }
        8 => {
            let n = rng.below(8);
            (0..n).map(|_| *rng.pick(&['<', '>', '&', '"', '\'', '/', '`', '=', ' '])).collect()
        }
        _ => {
            let n = rng.below(6);
            (0..n).map(|_| rng.pick(&HOSTILE_STRINGS).to_string()).collect::<Vec<_>>().join(" ")
        }
    }
}

pub fn gen_int(rng: &mut Rng) -> V {
    match rng.below(12) {
        0 => V::I64(0),
        1 => V::I64(rng.range(-3, 3)),
        2 => V::I64(rng.range(-1000, 1000)),
        3 => V::U64(rng.below(1000) as u64),
        4 => V::I64(*rng.pick(&[i64::MIN, i64::MAX, i64::MIN + 1, i64::MAX - 1, i32::MAX as i64, i32::MIN as i64, 1 << 53, (1 << 53) + 1])),
        5 => V::U64(*rng.pick(&[u64::MAX, u64::MAX - 1, i64::MAX as u64, i64::MAX as u64 + 1, u32::MAX as u64])),
        6 => V::I128(*rng.pick(&[i128::MIN, i128::MAX, 0, -1, 1, i64::MAX as i128 + 1, i64::MIN as i128 - 1, u64::MAX as i128 + 1])),
        7 => V::U128(*rng.pick(&[u128::MAX, 0, 1, i128::MAX as u128, i128::MAX as u128 + 1, u64::MAX as u128 + 1])),
        8 => V::I128(rng.range(-100, 100) as i128),
        9 => V::U128(rng.below(100) as u128),
        10 => V::I64(rng.next() as i64),
        _ => V::U64(rng.next()),
    }
}

pub fn gen_float(rng: &mut Rng, allow_nonfinite: bool) -> V {
    let f = match rng.below(10) {
        0 => 0.0,
        1 => -0.0,
        2 => rng.range(-100, 100) as f64 / 4.0,
        3 => rng.range(-5, 5) as f64,
        4 => *rng.pick(&[1e300, -1e300, 5e-324, f64::MAX, f64::MIN, f64::MIN_POSITIVE, 1e-7, 1e16, 9007199254740992.0, 1.7014118346046923e38]),
        5 if allow_nonfinite => *rng.pick(&[f64::NAN, f64::INFINITY, f64::NEG_INFINITY]),
        6 => rng.f01(),
        7 => (rng.f01() - 0.5) * 1e6,
        8 => 0.1 + 0.2,
        _ => rng.range(-1000000, 1000000) as f64 / 1000.0,
    };
    V::F64(f)
}

pub fn gen_key(rng: &mut Rng) -> K {
    match rng.below(10) {
        0..=4 => K::Str(match rng.below(3) {
            0 => (*rng.pick(&["a", "b", "c", "id", "name", "k", "x y", "", "0", "1", "true"])).to_string(),
            _ => gen_string(rng),
        }),
        5 => K::Bool(rng.bool()),
        6 => K::I64(rng.range(-3, 3)),
        7 => K::U64(rng.below(4) as u64),
        8 => match gen_int(rng) {
            V::I64(v) => K::I64(v),
            V::U64(v) => K::U64(v),
            V::I128(v) => K::I128(v),
            V::U128(v) => K::U128(v),
            _ => K::I64(7),
        },
        _ => K::I128(rng.range(-3, 3) as i128),
    }
}

#[derive(Clone, Copy)]
pub struct GenOpts {
    pub undef: bool,
    pub bytes: bool,
    pub nonfinite: bool,
    pub safe: bool,
    pub max_depth: usize,
    pub max_len: usize,
}

pub const ALL_KINDS: GenOpts = GenOpts { undef: true, bytes: true, nonfinite: true, safe: true, max_depth: 3, max_len: 5 };

pub fn gen_value(rng: &mut Rng, o: &GenOpts, depth: usize) -> V {
    let pick = rng.below(if depth >= o.max_depth { 9 } else { 12 });
    match pick {
        0 => V::None,
        1 => V::Bool(rng.bool()),
        2 | 3 => gen_int(rng),
        4 => gen_float(rng, o.nonfinite),
        5 | 6 => V::Str(gen_string(rng)),
        7 => {
            if o.safe && rng.bool() {
                V::Safe(gen_string(rng))
            } else if o.undef && depth > 0 && rng.chance(1, 3) {
                V::Undef
            } else {
                V::Str(gen_string(rng))
            }
        }
        8 => {
            if o.bytes {
                let n = rng.below(6);
                V::Bytes(match rng.below(3) {
                    0 => (0..n).map(|_| rng.below(256) as u8).collect(),
                    1 => vec![0xff, 0xfe, b'a'],
                    _ => gen_string(rng).into_bytes(),
                })
            } else {
                gen_int(rng)
            }
        }
        9 | 10 => {
            let n = rng.below(o.max_len + 1);
            V::Arr((0..n).map(|_| gen_value(rng, o, depth + 1)).collect())
        }
        _ => {
            let n = rng.below(o.max_len + 1);
            let mut m: Vec<(K, V)> = Vec::new();
            for _ in 0..n {
                let k = gen_key(rng);
                if !m.iter().any(|(k2, _)| k2.same(&k)) {
                    m.push((k, gen_value(rng, o, depth + 1)));
                }
            }
            V::Map(m)
        }
    }
}

/// One representative (or a few) of every kind: the receiver pool of the totality matrices
pub fn kind_pool() -> Vec<V> {
    let mut v = vec![
        V::None, V::Bool(true), V::Bool(false),
        V::I64(0), V::I64(1), V::I64(-1), V::I64(2), V::I64(7), V::I64(i64::MAX), V::I64(i64::MIN),
        V::U64(0), V::U64(3), V::U64(u64::MAX),
        V::I128(i128::MAX), V::I128(i128::MIN), V::I128(5), V::U128(u128::MAX), V::U128(9),
        V::F64(0.0), V::F64(-0.0), V::F64(1.5), V::F64(-2.5), V::F64(2.0), V::F64(1e300), V::F64(5e-324), V::F64(f64::NAN), V::F64(f64::INFINITY), V::F64(f64::NEG_INFINITY),
        V::Str("".into()), V::Str("a".into()), V::Str("hello world".into()), V::Str("Héllo Wörld ÉCOLE".into()), V::Str("日本語 text 😀".into()),
        V::Str("<a href=\"x\">'&'</a>".into()), V::Str("12".into()), V::Str("-3.5".into()), V::Str("  x  ".into()), V::Str("a\nb\r\nc\n".into()),
        V::Str("x".repeat(300)), V::Str("é".repeat(11)), V::Safe("<b>safe</b>".into()), V::Safe("".into()),
        V::Bytes(vec![]), V::Bytes(vec![0xff, 0x00, 0x61]), V::Bytes(b"plain".to_vec()),
        V::Arr(vec![]), V::Arr(vec![V::I64(1), V::I64(2), V::I64(3)]), V::Arr(vec![V::Str("b".into()), V::Str("a".into())]),
        V::Arr(vec![V::I64(1), V::Str("a".into()), V::None, V::F64(f64::NAN), V::Arr(vec![]), V::Undef]),
        V::Arr(vec![V::Map(vec![(K::Str("a".into()), V::I64(1))]), V::Map(vec![(K::Str("a".into()), V::I64(2))]), V::Map(vec![])]),
        V::Arr((0..200).map(V::I64).collect()),
        V::Map(vec![]), V::Map(vec![(K::Str("a".into()), V::I64(1)), (K::Str("b".into()), V::Str("x".into()))]),
        V::Map(vec![(K::I64(1), V::Str("one".into())), (K::Bool(true), V::None), (K::U128(u128::MAX), V::Undef), (K::Str("k".into()), V::Arr(vec![V::I64(1)]))]),
        V::Map((0..10).map(|i| (K::Str(format!("k{i}")), V::I64(i))).collect()),
    ];
    // depth-8 nesting
    let mut deep = V::I64(1);
    for i in 0..8 {
        deep = if i % 2 == 0 { V::Arr(vec![deep]) } else { V::Map(vec![(K::Str("d".into()), deep)]) };
    }
    v.push(deep);
    v
}
