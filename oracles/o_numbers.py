"""Offline oracle for C13. Reads the event log written by `tvh run C13`:

    op \t spelling \t repr:a \t repr:b \t output|ERR

(a, b were supplied as context values in the stated representation, or written as literals) and decides
every record with Python integers / fractions, which share nothing with the engine.
Floats are logged as the 16 hex digits of their IEEE bits so that nothing is lost."""
import math
import re
import struct
from fractions import Fraction

I128MIN = -(1 << 127)
I128MAX = (1 << 127) - 1
INT_RE = re.compile(r'^-?\d+$')


def parse_operand(s):
    k, v = s.split(':', 1)
    if k == 'f64':
        return ('f', struct.unpack('>d', bytes.fromhex(v))[0])
    return ('i', int(v))


def show(o):
    return repr(o[1])


def fits(x):
    return I128MIN <= x <= I128MAX


def parse_out(out):
    if out == 'ERR':
        return ('E', None)
    if out in ('true', 'false'):
        return ('b', out == 'true')
    if INT_RE.match(out):
        return ('i', int(out))
    try:
        return ('f', float(out))
    except ValueError:
        return ('?', out)


def feq(x, y):
    if math.isnan(x) or math.isnan(y):
        return math.isnan(x) and math.isnan(y)
    return x == y and math.copysign(1, x) == math.copysign(1, y)


def ulp(x):
    x = abs(x)
    if math.isinf(x) or math.isnan(x):
        return math.inf
    return math.ulp(x)


def close(x, y, ulps):
    if math.isnan(x) or math.isnan(y):
        return math.isnan(x) and math.isnan(y)
    if math.isinf(x) or math.isinf(y):
        return x == y or (math.isinf(x) and abs(y) > 1e307) or (math.isinf(y) and abs(x) > 1e307)
    return abs(x - y) <= ulps * max(ulp(x), ulp(y))


def exact_cmp(a, b):
    (ka, va), (kb, vb) = a, b
    na = ka == 'f' and math.isnan(va)
    nb = kb == 'f' and math.isnan(vb)
    if na and nb:
        return 0
    if na:
        return 1
    if nb:
        return -1
    return (va > vb) - (va < vb)  # Python compares int and float exactly


def tofloat(o):
    # i128/u128 -> f64 is round-to-nearest-even in both Rust (`as f64`) and Python
    return float(o[1])


def safe_pow(x, y):
    try:
        return math.pow(x, y)
    except OverflowError:
        return None
    except (ValueError, ZeroDivisionError):
        return None


def decide(op, a, b, r):
    """returns None when the record agrees, else (class, expected-as-text)"""
    if r[0] == '?':
        return ('unparsable-output', 'a number, a bool or an error')
    if op == 'neg':
        if a[0] == 'i':
            if not fits(a[1]) or not fits(-a[1]):
                return None if r[0] == 'E' else ('neg-out-of-range', 'ERR')
            return None if r == ('i', -a[1]) else ('neg', str(-a[1]))
        e = -a[1]
        return None if (r[0] == 'f' and feq(r[1], e)) else ('neg-float', repr(e))
    if op in ('==', '!=', '<', '<=', '>', '>='):
        c = exact_cmp(a, b)
        e = {'==': c == 0, '!=': c != 0, '<': c < 0, '<=': c <= 0, '>': c > 0, '>=': c >= 0}[op]
        return None if r == ('b', e) else ('cmp', str(e).lower())
    # arithmetic
    big = (a[0] == 'i' and not fits(a[1])) or (b[0] == 'i' and not fits(b[1]))
    anyf = a[0] == 'f' or b[0] == 'f'
    if big:
        if r[0] == 'E':
            return None
        # an operand above i128::MAX: the property asks for an error
        return ('operand-out-of-range', 'ERR')
    if op == '/':
        fa, fb = tofloat(a), tofloat(b)
        if fb == 0:
            return None if r[0] == 'E' else ('div-by-zero', 'ERR')
        if r[0] != 'f':
            return ('div-not-float', 'a float')
        if math.isnan(fa) or math.isnan(fb):
            return None if math.isnan(r[1]) else ('div', 'NaN')
        cands = []
        try:
            cands.append(fa / fb)
        except OverflowError:
            cands.append(math.copysign(math.inf, fa) * math.copysign(1, fb))
        if not anyf and b[1] != 0:
            try:
                cands.append(a[1] / b[1])  # correctly rounded exact quotient
            except OverflowError:
                pass
        return None if any(feq(r[1], c) for c in cands) else ('div', repr(cands[0]))
    if not anyf:
        x, y = a[1], b[1]
        if op == '+':
            e = x + y
        elif op == '-':
            e = x - y
        elif op == '*':
            e = x * y
        elif op in ('//', '%'):
            if y == 0:
                return None if r[0] == 'E' else ('div-by-zero', 'ERR')
            rr = x % abs(y)  # Euclidean remainder: 0 <= rr < |y|
            q = (x - rr) // y
            assert q * y + rr == x and 0 <= rr < abs(y)
            e = q if op == '//' else rr
        elif op == '**':
            if y < 0:
                # documented: a negative integer exponent is carried out in floating point
                if r[0] == 'i':
                    return ('pow-negative-exponent-gave-int', 'a float')
                if r[0] == 'E':
                    return ('pow-negative-exponent-error', 'a float')
                e = safe_pow(float(x), float(y))
                if e is None:
                    return None
                return None if close(r[1], e, 4) else ('pow-negative-exponent', repr(e))
            if abs(x) <= 1:
                e = (1 if y == 0 else 0) if x == 0 else (1 if x == 1 or y % 2 == 0 else -1)
            elif y > 130:
                e = 1 << 200  # certainly out of range
            else:
                e = x ** y
        else:
            return ('unknown-op', op)
        exp = ('E', None) if not fits(e) else ('i', e)
        if r == exp:
            return None
        return ('int' + op, 'ERR' if exp[0] == 'E' else str(e))
    # at least one float operand: carried out in floating point
    fa, fb = tofloat(a), tofloat(b)
    if op in ('//', '%') and fb == 0:
        return None if r[0] == 'E' else ('float-div-by-zero', 'ERR')
    if r[0] == 'i' or r[0] == 'b':
        return ('float-op-gave-int', 'a float')
    if r[0] == 'E':
        return ('float-op-error', 'a float')
    if op in ('+', '-', '*'):
        e = {'+': fa + fb, '-': fa - fb, '*': fa * fb}[op]
        return None if feq(r[1], e) else ('float' + op, repr(e))
    if op == '**':
        e = safe_pow(fa, fb)
        if e is None or math.isnan(fa) or math.isnan(fb):
            return None
        return None if close(r[1], e, 4) else ('float**', repr(e))
    # float // and %: identity based
    if not (math.isfinite(fa) and math.isfinite(fb)):
        return None
    A, B = Fraction(fa), Fraction(fb)
    r_exact = A % abs(B)
    q_exact = (A - r_exact) / B
    if op == '%':
        got = r[1]
        if math.isnan(got) or not (0 <= got <= abs(fb)):
            return ('float%-range', '0 <= r <= |b|')
        d = abs(Fraction(got) - r_exact)
        tol = 2 * Fraction(ulp(fb))
        # a tiny negative remainder wraps to |b| - tiny, which may round to |b| or down to it
        if d <= tol or abs(d - abs(B)) <= tol:
            return None
        return ('float%', repr(float(r_exact)))
    got = r[1]
    if math.isinf(got):
        return None if abs(q_exact) > Fraction(2) ** 1023 else ('float//', repr(float(q_exact)))
    if math.isnan(got) or got != math.floor(got):
        return ('float//-not-integral', 'an integral float')
    d = abs(Fraction(got) - q_exact)
    tol = max(Fraction(1), 4 * Fraction(ulp(float(q_exact))) if abs(q_exact) < Fraction(2) ** 1023 else Fraction(2) ** 975)
    return None if d <= tol else ('float//', repr(float(q_exact)))


def check_file(path, max_witnesses=5):
    n = 0
    samples = []
    by_class = {}
    counters = {'records': 0, 'errors_expected_and_seen': 0, 'int_results': 0, 'float_results': 0, 'bool_results': 0}
    with open(path, encoding='utf-8') as fh:
        for line in fh:
            p = line.rstrip('\n').split('\t')
            if len(p) != 6:
                continue
            case, op, spelling, sa, sb, out = p
            n += 1
            if n % 100003 == 1 and len(samples) < 4:
                samples.append({'template': '{{ a %s b }}' % op if op != 'neg' else '{{ -a }}', 'spelling': spelling, 'a': sa, 'b': sb, 'rendered': out})
            a = parse_operand(sa)
            b = parse_operand(sb) if sb != '-' else None
            r = parse_out(out)
            counters[{'E': 'errors_expected_and_seen', 'i': 'int_results', 'f': 'float_results', 'b': 'bool_results'}.get(r[0], 'records')] += 1
            try:
                verdict = decide(op, a, b, r)
            except Exception as exc:  # oracle trouble is not a verdict about the engine
                by_class.setdefault('ORACLE-ERROR', []).append((line.strip(), repr(exc)))
                continue
            if verdict is not None:
                cls, exp = verdict
                lst = by_class.setdefault(cls, [])
                lst.append({'case': int(case), 'op': op, 'spelling': spelling, 'a': sa, 'b': sb, 'a_value': show(a), 'b_value': show(b) if b else None,
                            'observed': out, 'expected': exp})
    counters['records'] = n
    violations = []
    oracle_errors = by_class.pop('ORACLE-ERROR', [])
    for cls, lst in by_class.items():
        for w in lst[:max_witnesses]:
            violations.append({
                'signature': 'C13/' + cls,
                'case': w['case'],
                'message': '%s %s %s (%s) rendered %r, exact arithmetic says %s' % (w['a_value'], w['op'], w['b_value'], w['spelling'], w['observed'], w['expected']),
                'replay': w,
            })
    return {'records': n, 'violations': violations, 'violation_counts': {k: len(v) for k, v in by_class.items()},
            'counters': counters, 'samples': samples, 'oracle_errors': oracle_errors[:5]}


if __name__ == '__main__':
    import json
    import sys
    res = check_file(sys.argv[1])
    print(json.dumps(res, indent=1, default=str)[:4000])
    sys.exit(1 if res['violations'] else 0)
