"""Offline oracle for C14: Python's own list / str indexing and slicing decide the records written by `tvh run C14`.

  case I kind len form spelling repr:i hex(out)         out = element, or UNDEF through `| default`
  case S kind len form spelling a b c hex(out)|ERR      N = absent
  case C kind len a b hex(out)|ERR                      x[a:][:b][::-1]
  case T op hex(string) arg hex(out)|ERR                character-wise string operations
"""
CHARS = ["a", "é", "日", "😀", "z", "ß", "語", "🎉", "b", "ÿ", "水", "🚀"]
I128MAX = (1 << 127) - 1


def container(kind, ln):
    return [10 + i for i in range(ln)] if kind == 'arr' else [CHARS[i % len(CHARS)] for i in range(ln)]


def show(kind, items):
    return ('[' + ', '.join(map(str, items)) + ']') if kind == 'arr' else ''.join(items)


def par(v):
    if v == 'N':
        return None, False
    r, n = v.split(':', 1)
    n = int(n)
    return n, n > I128MAX


def unhex(h):
    return bytes.fromhex(h).decode('utf-8')


def check_file(path, max_witnesses=5):
    n = 0
    by_class = {}
    samples = []
    oracle_errors = []
    counters = {'index_records': 0, 'slice_records': 0, 'string_records': 0, 'undefined_results': 0, 'errors_seen': 0, 'nonempty_slices': 0}

    def bad(cls, case, rec, expected, observed):
        by_class.setdefault(cls, []).append({'case': case, 'record': rec, 'expected': expected, 'observed': observed})

    with open(path, encoding='utf-8') as fh:
        for line in fh:
            p = line.rstrip('\n').split('\t')
            if len(p) < 5:
                continue
            case = int(p[0])
            n += 1
            try:
                if p[1] == 'I':
                    _, _, kind, ln, form, spelling, pi, outh = p
                    counters['index_records'] += 1
                    out = unhex(outh)
                    x = container(kind, int(ln))
                    i, above = par(pi)
                    try:
                        e = str(x[i])
                    except IndexError:
                        e = 'UNDEF'
                    if out == 'UNDEF':
                        counters['undefined_results'] += 1
                    if n % 50021 == 1 and len(samples) < 3:
                        samples.append({'kind': kind, 'len': int(ln), 'form': form, 'spelling': spelling, 'i': pi, 'rendered': out})
                    if e != out:
                        bad('index', case, p[1:], e, out)
                elif p[1] == 'S':
                    _, _, kind, ln, form, spelling, a, b, c, outh = p
                    counters['slice_records'] += 1
                    x = container(kind, int(ln))
                    (a_, aa), (b_, ba), (c_, ca) = par(a), par(b), par(c)
                    if c_ == 0:
                        e = 'ERR'
                    else:
                        e = show(kind, x[slice(a_, b_, c_)])
                    out = 'ERR' if outh == 'ERR' else unhex(outh)
                    if out == 'ERR':
                        counters['errors_seen'] += 1
                    elif out not in ('', '[]'):
                        counters['nonempty_slices'] += 1
                    if n % 50021 == 2 and len(samples) < 6:
                        samples.append({'kind': kind, 'len': int(ln), 'form': 'x[%s]' % form, 'spelling': spelling, 'a': a, 'b': b, 'c': c, 'rendered': out})
                    if out != e:
                        # an unsigned parameter above i128::MAX cannot be represented by the engine's integers:
                        # an error is tolerated there (documented tolerance), a wrong selection is not
                        if (aa or ba or ca) and out == 'ERR':
                            continue
                        bad('slice' if e != 'ERR' else 'slice-zero-step', case, p[1:], e, out)
                elif p[1] == 'C':
                    _, _, kind, ln, a, b, outh = p
                    counters['slice_records'] += 1
                    x = container(kind, int(ln))
                    (a_, aa), (b_, ba) = par(a), par(b)
                    e = show(kind, x[a_:][:b_][::-1])
                    out = 'ERR' if outh == 'ERR' else unhex(outh)
                    if out != e and not ((aa or ba) and out == 'ERR'):
                        bad('slice-chain', case, p[1:], e, out)
                elif p[1] == 'T':
                    _, _, op, sh, arg, outh = p
                    counters['string_records'] += 1
                    s = unhex(sh)
                    k = int(arg)
                    if outh == 'ERR':
                        bad('string-op-error', case, p[1:], 'a string', 'ERR')
                        continue
                    out = unhex(outh)
                    if op == 'length':
                        e = str(len(s))
                    elif op == 'reverse':
                        e = s[::-1]
                    elif op == 'truncate':
                        e = s if len(s) <= k else s[:k]
                    elif op == 'truncate_end':
                        e = s if len(s) <= k else s[:k] + '…'
                    elif op == 'chars':
                        e = ''.join(ch + '\x01' for ch in s)
                    elif op == 'index':
                        e = s[k] if k < len(s) else 'UNDEF'
                    elif op == 'negindex':
                        e = s[-k] if 0 < k <= len(s) else (s[0] if k == 0 and s else 'UNDEF')
                    elif op == 'slice':
                        e = '\x01'.join([s[k:], s[:k], s[::-1], s[-k:] if k else s[0:]])
                    elif op == 'loopmeta':
                        e = ('%d:%d' % (len(s), len(s))) if s else ''
                    else:
                        raise ValueError('unknown op ' + op)
                    if n % 50021 == 3 and len(samples) < 8:
                        samples.append({'op': op, 'string': s, 'arg': k, 'rendered': out})
                    if out != e:
                        bad('string-' + op, case, [op, s, k], e, out)
            except Exception as exc:
                oracle_errors.append((line.strip()[:300], repr(exc)))
    violations = []
    for cls, lst in by_class.items():
        for w in lst[:max_witnesses]:
            violations.append({'signature': 'C14/' + cls, 'case': w['case'],
                               'message': 'record %r: Python gives %r, the engine rendered %r' % (w['record'], w['expected'], w['observed']),
                               'replay': w})
    counters['records'] = n
    return {'records': n, 'violations': violations, 'violation_counts': {k: len(v) for k, v in by_class.items()},
            'counters': counters, 'samples': samples, 'oracle_errors': oracle_errors[:5]}


if __name__ == '__main__':
    import json
    import sys
    res = check_file(sys.argv[1])
    print(json.dumps(res, indent=1, default=str, ensure_ascii=False)[:6000])
    sys.exit(1 if res['violations'] else 0)
