"""Offline oracle for C20 (tera-contrib codecs), over the event log of `tvh run C20`. Everything is decided with
Python's base64 / urllib.parse / json / re, which share nothing with the engine.

  case E u p hex(in) hex(out)|ERR          b64_encode(url_safe=u, padded=p); d = argument omitted (defaults: false / true)
  case R u p hex(in) hex(out)|ERR          encode | decode round trip
  case D u hex(in) hex(out)|ERR            b64_decode of arbitrary text (u: 0/f = standard, 1 = url-safe)
  case U def|strict hex(in) hex(out)|ERR   urlencode / urlencode_strict
  case L hex(in) hex(out)|ERR              slug
  case J pretty tagged-json hex(out)|ERR   json_encode
"""
import base64
import json
import re
import struct
import urllib.parse

STD = 'ABCDEFGHIJKLMNOPQRSTUVWXYZabcdefghijklmnopqrstuvwxyz0123456789+/'
URL = 'ABCDEFGHIJKLMNOPQRSTUVWXYZabcdefghijklmnopqrstuvwxyz0123456789-_'
RE_UE = re.compile(r'([A-Za-z0-9\-._~/]|%[0-9A-F]{2})*\Z')
RE_US = re.compile(r'([A-Za-z0-9\-._~]|%[0-9A-F]{2})*\Z')
RE_SLUG = re.compile(r'([a-z0-9]+(-[a-z0-9]+)*)?\Z')


def unhex(h):
    return bytes.fromhex(h).decode('utf-8')


def untag(t):
    """tagged value -> the Python data json.loads must give back"""
    if t is None or isinstance(t, bool):
        return t
    if isinstance(t, list):
        return [untag(x) for x in t]
    if 'undef' in t:
        return None
    if 'i' in t:
        return int(t['i'])
    if 'f' in t:
        return struct.unpack('>d', bytes.fromhex(t['f']))[0]
    if 's' in t:
        return bytes.fromhex(t['s']).decode('utf-8')
    if 'b' in t:
        return list(bytes.fromhex(t['b']))
    if 'm' in t:
        out = {}
        for k, v in t['m']:
            k = untag(k)
            if isinstance(k, bool):
                k = 'true' if k else 'false'
            elif isinstance(k, int):
                k = str(k)
            out[k] = untag(v)
        return out
    raise ValueError('bad tag %r' % (t,))


def same(a, b):
    """type-aware equality (1 != 1.0 != True)"""
    if isinstance(a, bool) or isinstance(b, bool) or a is None or b is None:
        return type(a) is type(b) and a == b
    if isinstance(a, float) or isinstance(b, float):
        return type(a) is type(b) and (a == b)
    if isinstance(a, int):
        return isinstance(b, int) and a == b
    if isinstance(a, str):
        return isinstance(b, str) and a == b
    if isinstance(a, list):
        return isinstance(b, list) and len(a) == len(b) and all(same(x, y) for x, y in zip(a, b))
    if isinstance(a, dict):
        return isinstance(b, dict) and a.keys() == b.keys() and all(same(a[k], b[k]) for k in a)
    return False


def check_file(path, max_witnesses=5):
    n = 0
    by_class = {}
    samples = []
    oracle_errors = []
    counters = {'b64_encode': 0, 'b64_roundtrip': 0, 'b64_decode_rejected': 0, 'b64_decode_accepted': 0, 'urlencode': 0, 'slug': 0, 'json': 0}

    def bad(cls, case, rec, why):
        by_class.setdefault(cls, []).append({'case': case, 'record': rec, 'why': why})

    with open(path, encoding='utf-8') as fh:
        for line in fh:
            p = line.rstrip('\n').split('\t')
            if len(p) < 4:
                continue
            case = int(p[0])
            n += 1
            try:
                t = p[1]
                if t in ('E', 'R'):
                    _, _, u, pd, sh, oh = p
                    s = unhex(sh)
                    url = u == '1'
                    padded = pd != '0'
                    if oh == 'ERR':
                        bad('b64-' + ('encode' if t == 'E' else 'roundtrip') + '-error', case, [t, u, pd, s], 'error on a valid string')
                        continue
                    o = unhex(oh)
                    if t == 'E':
                        counters['b64_encode'] += 1
                        alpha = URL if url else STD
                        body = o.rstrip('=')
                        if any(c not in alpha for c in body):
                            bad('b64-alphabet', case, [u, pd, s, o], 'character outside the %s alphabet' % ('url-safe' if url else 'standard'))
                        npad = len(o) - len(body)
                        if not padded and npad:
                            bad('b64-padding', case, [u, pd, s, o], 'padding although padded=false')
                        if padded and len(o) % 4 != 0:
                            bad('b64-padding', case, [u, pd, s, o], 'length not a multiple of 4 although padded')
                        exp = (base64.urlsafe_b64encode if url else base64.b64encode)(s.encode()).decode()
                        if not padded:
                            exp = exp.rstrip('=')
                        if o != exp:
                            bad('b64-encode', case, [u, pd, s, o], 'Python encodes to %r' % exp)
                        if n % 20011 == 1 and len(samples) < 3:
                            samples.append({'filter': 'b64_encode', 'url_safe': u, 'padded': pd, 'input': s[:80], 'output': o[:80]})
                    else:
                        counters['b64_roundtrip'] += 1
                        if o != s:
                            bad('b64-roundtrip', case, [u, pd, s, o], 'decode(encode(s)) != s')
                elif t == 'D':
                    _, _, u, sh, oh = p
                    s = unhex(sh)
                    alpha = URL if u == '1' else STD
                    body = s.rstrip('=')
                    npad = len(s) - len(body)
                    # more '=' than completes the last quantum is not base64 under any reading
                    must_err = any(c not in alpha for c in body) or len(body) % 4 == 1 or npad > (-len(body) % 4)
                    payload = None
                    strict_ok = False
                    if not must_err:
                        raw = base64.b64decode(body.translate(str.maketrans('-_', '+/')) + '=' * (-len(body) % 4))
                        try:
                            payload = raw.decode('utf-8')
                        except UnicodeDecodeError:
                            must_err = True
                        # canonical = trailing bits zero and padding absent or complete
                        canon = base64.b64encode(raw).decode().rstrip('=').translate(str.maketrans('+/', '-_') if u == '1' else {})
                        strict_ok = canon == body and npad in (0, -len(body) % 4)
                    if oh == 'ERR':
                        counters['b64_decode_rejected'] += 1
                        if not must_err and strict_ok:
                            bad('b64-decode-rejects-valid', case, [u, s], 'canonical base64 of valid UTF-8 was rejected')
                    else:
                        counters['b64_decode_accepted'] += 1
                        o = unhex(oh)
                        if must_err:
                            bad('b64-decode-accepts-invalid', case, [u, s, o], 'invalid input (bad character, bad length, excess padding or non-UTF-8 payload) was accepted')
                        elif o != payload:
                            bad('b64-decode', case, [u, s, o], 'Python decodes to %r' % payload)
                elif t == 'U':
                    _, _, strict, sh, oh = p
                    counters['urlencode'] += 1
                    s = unhex(sh)
                    if oh == 'ERR':
                        bad('urlencode-error', case, [strict, s], 'error')
                        continue
                    o = unhex(oh)
                    rx = RE_US if strict == 'strict' else RE_UE
                    if not rx.match(o):
                        bad('urlencode-alphabet', case, [strict, s, o], 'output has a character that is neither unreserved%s nor a %%XX escape' % ('' if strict == 'strict' else ' nor /'))
                    if urllib.parse.unquote(o, errors='strict') != s:
                        bad('urlencode-lossy', case, [strict, s, o], 'percent-decoding does not give the input back')
                    if n % 20011 == 2 and len(samples) < 5:
                        samples.append({'filter': 'urlencode' + ('_strict' if strict == 'strict' else ''), 'input': s[:80], 'output': o[:120]})
                elif t == 'L':
                    _, _, sh, oh = p
                    counters['slug'] += 1
                    s = unhex(sh)
                    if oh == 'ERR':
                        bad('slug-error', case, [s], 'error')
                        continue
                    o = unhex(oh)
                    if not RE_SLUG.match(o):
                        bad('slug-alphabet', case, [s, o], 'not lowercase ASCII letters/digits with single interior hyphens')
                elif t == 'J':
                    _, _, pretty, tagged, oh = p
                    counters['json'] += 1
                    exp = untag(json.loads(tagged))
                    if oh == 'ERR':
                        bad('json-error', case, [pretty, tagged[:300]], 'error on a value free of non-finite floats')
                        continue
                    o = unhex(oh)
                    try:
                        got = json.loads(o, parse_constant=lambda c: (_ for _ in ()).throw(ValueError('constant ' + c)))
                    except Exception as exc:
                        bad('json-invalid', case, [pretty, tagged[:300], o[:300]], 'not valid JSON: %r' % (exc,))
                        continue
                    if not same(got, exp):
                        bad('json-data', case, [pretty, tagged[:300], o[:300]], 'decodes to different data')
                    if pretty == '1' and isinstance(exp, (list, dict)) and exp and '\n' not in o:
                        bad('json-pretty-flag', case, [pretty, o[:200]], 'pretty=true gave compact output')
                    if pretty != '1' and '\n' in o and '\n' not in json.dumps(exp, ensure_ascii=False):
                        bad('json-pretty-flag', case, [pretty, o[:200]], 'compact form contains line breaks')
                    if n % 20011 == 3 and len(samples) < 8:
                        samples.append({'filter': 'json_encode', 'pretty': pretty, 'output': o[:160]})
            except Exception as exc:
                oracle_errors.append((line.strip()[:300], repr(exc)))
    violations = []
    for cls, lst in by_class.items():
        for w in lst[:max_witnesses]:
            violations.append({'signature': 'C20/' + cls, 'case': w['case'],
                               'message': '%s: %r' % (w['why'], w['record']), 'replay': w})
    counters['records'] = n
    return {'records': n, 'violations': violations, 'violation_counts': {k: len(v) for k, v in by_class.items()},
            'counters': counters, 'samples': samples, 'oracle_errors': oracle_errors[:5]}


if __name__ == '__main__':
    import sys
    res = check_file(sys.argv[1])
    sys.stdout.write(json.dumps(res, indent=1, default=str, ensure_ascii=False)[:8000] + '\n')
    sys.exit(1 if res['violations'] else 0)
