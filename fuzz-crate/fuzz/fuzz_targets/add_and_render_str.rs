#![no_main]
//! C06: registering any UTF-8 text (under the default delimiters or a delimiter set chosen from the input) and rendering it
//! as a one-off string ends in Ok or Err. libFuzzer's coverage feedback drives the inputs; a panic aborts (crash artifact),
//! -timeout catches non-termination, ASan watches the unsafe sites.
use libfuzzer_sys::fuzz_target;
use tera::{Context, Delimiters, Tera};

/// Output is a resource question, not a parsing one: a writer that refuses to grow past 1 MiB turns a render that keeps
/// writing into an ordinary I/O error.
struct Capped(usize);
impl std::io::Write for Capped {
    fn write(&mut self, data: &[u8]) -> std::io::Result<usize> {
        if self.0 + data.len() > (1 << 20) {
            return Err(std::io::Error::other("output cap"));
        }
        self.0 += data.len();
        Ok(data.len())
    }
    fn flush(&mut self) -> std::io::Result<()> {
        Ok(())
    }
}

fuzz_target!(|data: &[u8]| {
    let Ok(s) = std::str::from_utf8(data) else { return };
    // nested range loops are a resource question, not a parsing one
    if s.matches("range").count() > 1 {
        return;
    }
    let mut tera = Tera::default();
    // first byte selects the delimiter configuration
    let (src, custom) = match s.as_bytes().first() {
        Some(b'\x01') if s.len() > 13 && s.is_char_boundary(13) => (&s[13..], Some(&s[1..13])),
        _ => (s, None),
    };
    if let Some(d) = custom {
        let parts: Vec<String> = d.as_bytes().chunks(2).map(|c| String::from_utf8_lossy(c).to_string()).collect();
        if parts.len() == 6 {
            let _ = tera.set_delimiters(Delimiters {
                block_start: parts[0].clone().into(),
                block_end: parts[1].clone().into(),
                variable_start: parts[2].clone().into(),
                variable_end: parts[3].clone().into(),
                comment_start: parts[4].clone().into(),
                comment_end: parts[5].clone().into(),
            });
        }
    }
    if let Err(e) = tera.add_raw_templates(vec![("fuzzing.html", src)]) {
        let _ = e.to_string();
    }
    if src.len() < 4096 {
        if let Err(e) = tera.render_str_to(src, &Context::new(), true, Capped(0)) {
            let _ = e.to_string();
        }
    }
});
