#![no_main]
//! C07: a two-template batch (split on the first form feed) is added; if accepted, every template is rendered with a hostile
//! context. Rendering must end in text or an error: a panic aborts (crash artifact); output must be valid UTF-8.
use libfuzzer_sys::fuzz_target;
use tera::{Context, Tera, Value};

fuzz_target!(|data: &[u8]| {
    let Ok(s) = std::str::from_utf8(data) else { return };
    if s.contains("range") || s.len() > 8192 {
        return;
    }
    let (a, b) = s.split_once('\x0c').unwrap_or((s, "{% block b %}base{% endblock %}{{ v }}"));
    let mut tera = Tera::default();
    if tera.add_raw_templates(vec![("a.html", a), ("b.html", b)]).is_err() {
        return;
    }
    let mut ctx = Context::new();
    ctx.insert_value("v", Value::bytes(vec![0xff, 0xfe, b'a']));
    ctx.insert_value("n", Value::from(i128::MIN));
    ctx.insert_value("u", Value::from(u128::MAX));
    ctx.insert_value("f", Value::from(f64::NAN));
    ctx.insert("s", "é<日本>&😀");
    ctx.insert("xs", &vec![1, 2, 3]);
    ctx.insert("m", &std::collections::BTreeMap::from([("a", 1), ("b", 2)]));
    for name in ["a.html", "b.html"] {
        // capped at 1 MiB: output growth is a resource question
        struct Capped<'a>(&'a mut Vec<u8>);
        impl std::io::Write for Capped<'_> {
            fn write(&mut self, data: &[u8]) -> std::io::Result<usize> {
                if self.0.len() + data.len() > (1 << 20) {
                    return Err(std::io::Error::other("output cap"));
                }
                self.0.extend_from_slice(data);
                Ok(data.len())
            }
            fn flush(&mut self) -> std::io::Result<()> {
                Ok(())
            }
        }
        let mut out = Vec::new();
        match tera.render_to(name, &ctx, Capped(&mut out)) {
            Ok(()) => assert!(std::str::from_utf8(&out).is_ok(), "invalid UTF-8 in output"),
            Err(e) => {
                let _ = e.to_string();
            }
        }
    }
});
