// host crate for cargo-fuzz (the targets live in fuzz/)
